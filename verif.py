#!/usr/bin/env python3
"""verif.py — driver for contract-based deductive verification of guanzhi/GmSSL with CBMC.

  verif.py check <Cxx> [--tier quick|thorough] [--jobs pat]   decide one property
  verif.py job <name> [--keep] [--trace]                      run one job verbosely
  verif.py list [<Cxx>]                                       list jobs
  verif.py replay <path>                                      re-run a stored native replay
  verif.py selftest [<Cxx>]                                   mutation self-test (scratch copies)

Exit status of `check`: 0 all obligations discharged; 1 VIOLATION (an obligation failed with a
verifier counterexample and is not a listed known finding); 2 UNDECIDED (timeout, memory,
compile/instrumentation failure, vacuity guard tripped).  See DESIGN.md section 1.
"""
import sys, os, re, json, time, shutil, subprocess, tempfile, argparse, hashlib, glob, shlex
from concurrent.futures import ThreadPoolExecutor

VERIF = os.path.dirname(os.path.abspath(__file__))
REPO = os.environ.get("VERIF_REPO", "/repo")
GUARD = "GUANZHI_GMSSL_VERIF"
NCPU = int(os.environ.get("VERIF_NCPU", "16"))
MEM_KB = int(os.environ.get("VERIF_MEM_KB", str(12 * 1024 * 1024)))   # ulimit -v per cbmc
WORKROOT = os.path.join(VERIF, ".work", "run%d" % os.getpid())   # one scratch root per invocation
# mutant / seeded runs (VERIF_REPO set) write their evidence and replays elsewhere so that committed evidence stays that of /repo
OUTROOT = os.environ.get("VERIF_OUT", VERIF)

CBMC_CHECKS = ["--bounds-check", "--pointer-check", "--pointer-overflow-check",
               "--div-by-zero-check", "--conversion-check", "--undefined-shift-check"]
# conversion/shift checks are off by default per job (GmSSL relies on wrapping conversions);
# a job turns them on with checks=+conversion,+shift
DEFAULT_CHECKS = ["--bounds-check", "--pointer-check", "--pointer-overflow-check", "--div-by-zero-check"]
# (cbmc 6.x additionally enables --signed-overflow-check and --undefined-shift-check by default; a job opts out with checks=-signed)

STANDING_ASSUMPTIONS = [
    "CBMC 6.11 C semantics, goto-cc front end, and the SAT/SMT back end used are sound",
    "x86-64 LP64 data model; default CMake configuration (portable C; no assembly, SIMD or SMALL_FOOTPRINT unless a job says so)",
    "stdio output functions are replaced by no-op bodies (except C19 jobs)",
    "libc memcpy/memset/memcmp/strlen use CBMC's built-in models",
    "callers satisfy each enforced function's REQUIRES clause (justified per contract from call sites)",
    "signed-overflow checks are off; termination is proved only where a decreases clause or a complete unwinding is discharged",
]


# --------------------------------------------------------------------------- job table
class Job:
    def __init__(self, path, kv):
        self.path = path
        self.name = kv["name"]
        self.props = kv.get("props", "").split(",")
        self.enforce = [x for x in kv.get("enforce", "").split(",") if x]
        self.replace = [x for x in kv.get("replace", "").split(",") if x]
        self.loops = kv.get("loops", "0") == "1"
        self.unwindset = kv.get("unwindset", "")
        self.unwind = kv.get("unwind", "")            # only for non-DFCC (lemma) jobs
        self.objbits = kv.get("objbits", "10")
        self.tier = kv.get("tier", "quick")
        self.timeout = int(kv.get("timeout", "300"))
        self.defs = [x for x in kv.get("defs", "").split(",") if x]
        self.solver = kv.get("solver", "")
        self.bounded = kv.get("bounded", "")          # non-empty: a stated input bound the code does not impose
        self.trusted = [x for x in kv.get("trusted", "").split(",") if x]   # bodyless callees allowed (assumption)
        self.checks = kv.get("checks", "")
        self.layer = kv.get("layer", "")              # free text shown in evidence (e.g. proved-relative-to-UFMUL)
        self.expect = kv.get("expect", "")            # obligation classes that must be present
        self.harness = kv.get("harness", "h_" + self.name)
        self.native = kv.get("native", "1") == "1"    # native replay possible
        self.partial = kv.get("partial", "0") == "1"  # unwinding ASSUMPTIONS instead of assertions: a bounded stand-in (bounded= must say so)

    def files(self):
        return [self.path]


def parse_jobs():
    jobs = []
    for path in sorted(glob.glob(os.path.join(VERIF, "jobs", "*.c"))):
        for line in open(path):
            m = re.match(r"\s*//@job\s+(.*)$", line)
            if not m:
                continue
            kv = {}
            for tok in shlex.split(m.group(1)):
                if "=" in tok:
                    k, v = tok.split("=", 1)
                    kv[k] = v
            jobs.append(Job(path, kv))
    names = [j.name for j in jobs]
    dup = set(n for n in names if names.count(n) > 1)
    if dup:
        raise SystemExit("duplicate job names: %s" % sorted(dup))
    return jobs


# --------------------------------------------------------------------------- repo config
def cmake_config():
    """Default-configuration source list and -D definitions, read from /repo/CMakeLists.txt."""
    txt = open(os.path.join(REPO, "CMakeLists.txt")).read()
    opts = dict((m.group(1), m.group(2) == "ON")
                for m in re.finditer(r'option\s*\(\s*(\w+)\s+"[^"]*"\s+(ON|OFF)\s*\)', txt))
    m = re.search(r"set\(src\s+(.*?)\)", txt, re.S)
    src = m.group(1).split()
    defs = []
    # top-level if(OPT) ... endif() blocks
    for m in re.finditer(r"^if\s*\(\s*(\w+)\s*\)\s*$(.*?)^endif\(\)", txt, re.S | re.M):
        name, body = m.group(1), m.group(2)
        if not opts.get(name, False):
            continue
        for s in re.finditer(r"set\((ENABLE_\w+)\s+ON\)", body):
            opts[s.group(1)] = True
    for m in re.finditer(r"^if\s*\(\s*(\w+)\s*\)\s*$(.*?)^endif\(\)", txt, re.S | re.M):
        name, body = m.group(1), m.group(2)
        if not opts.get(name, False):
            continue
        body = re.sub(r"\n\s+if\s*\(.*?\n\s+endif\(\)", "", body, flags=re.S)   # drop nested blocks
        for a in re.finditer(r"list\(APPEND src\s+(.*?)\)", body, re.S):
            src += a.group(1).split()
        for d in re.finditer(r"add_definitions\((-D\w+)\)", body):
            defs.append(d.group(1))
    src += ["src/rand_unix.c", "src/http.c"]
    seen, out = set(), []
    for s in src:
        if s not in seen:
            seen.add(s)
            out.append(s)
    return out, sorted(set(defs))


_cfg = None
def cfg():
    global _cfg
    if _cfg is None:
        _cfg = cmake_config()
    return _cfg


# --------------------------------------------------------------------------- running tools
def run(cmd, timeout, cwd=None, mem_kb=None, stdout_path=None):
    t0 = time.time()
    pre = ""
    if mem_kb:
        pre = "ulimit -s unlimited 2>/dev/null; ulimit -v %d; " % mem_kb
    sh = pre + "exec " + " ".join(shlex.quote(c) for c in cmd)
    out = open(stdout_path, "wb") if stdout_path else subprocess.PIPE
    try:
        p = subprocess.run(["bash", "-c", sh], cwd=cwd, stdout=out, stderr=subprocess.PIPE if stdout_path else subprocess.STDOUT,
                           timeout=timeout)
        rc = p.returncode
        text = (p.stdout or b"").decode("utf-8", "replace") if not stdout_path else (p.stderr or b"").decode("utf-8", "replace")
    except subprocess.TimeoutExpired as e:
        rc, text = "timeout", ((e.stdout or b"") if not stdout_path else (e.stderr or b"")).decode("utf-8", "replace")
    finally:
        if stdout_path:
            out.close()
    return rc, text, time.time() - t0


def goto_cc_cmd(job, out):
    _, defs = cfg()
    return (["goto-cc", "-DVERIF_CBMC", "-D" + GUARD, "-I" + os.path.join(VERIF, "include"),
             "-I" + os.path.join(VERIF, "contracts"), "-I" + os.path.join(REPO, "include"), "-I" + REPO]
            + defs + job.defs + ["--function", job.harness, job.path, "-o", out])


def instrument_cmd(job, a, b):
    cmd = ["goto-instrument", "--dfcc", job.harness]
    for f in job.enforce:
        cmd += ["--enforce-contract", f]
    # a callee that the (changed) code no longer references has no symbol and makes goto-instrument abort; there is
    # nothing to replace then, and the caller's postcondition over that callee's record decides the job
    p = subprocess.run(["goto-instrument", "--show-symbol-table", a], stdout=subprocess.PIPE, stderr=subprocess.DEVNULL)
    syms = set(re.findall(r"^Symbol\.*: (\S+)$", p.stdout.decode("utf-8", "replace"), re.M))
    job.replace_missing = [g for g in job.replace if syms and g not in syms]
    for g in job.replace:
        if g in job.replace_missing:
            continue
        cmd += ["--replace-call-with-contract", g]
    if job.loops:
        cmd += ["--apply-loop-contracts"]
    return cmd + [a, b]


def cbmc_cmd(job, gb, trace=False, prop=None):
    checks = list(DEFAULT_CHECKS)
    for c in [x for x in job.checks.split(",") if x]:
        flag = {"conversion": "--conversion-check", "shift": "--undefined-shift-check",
                "signed": "--signed-overflow-check", "unsigned": "--unsigned-overflow-check",
                "ptrarith": "--pointer-overflow-check"}[c.lstrip("+-")]
        if c.startswith("-"):
            # cbmc 6 turns signed-overflow and undefined-shift checks on by default
            checks = [x for x in checks if x != flag] + ([] if flag == "--pointer-overflow-check" else [flag.replace("--", "--no-", 1)])
        else:
            checks.append(flag)
    cmd = ["cbmc", gb] + checks + ["--object-bits", job.objbits, "--json-ui"]
    if job.unwindset:
        # DFCC renames an enforced function f to f_wrapped_for_contract_checking; loop ids follow.
        # "f.*:K" applies K to every loop of f (ids enumerated with cbmc --show-loops).
        us = []
        loops = None
        for item in job.unwindset.split(","):
            f, rest = item.split(".", 1)
            if f in job.enforce:
                f = f + "_wrapped_for_contract_checking"
            if rest.startswith("*:"):
                if loops is None:
                    p = subprocess.run(["cbmc", "--show-loops", gb], stdout=subprocess.PIPE, stderr=subprocess.DEVNULL)
                    loops = re.findall(r"^Loop (\S+):", p.stdout.decode("utf-8", "replace"), re.M)
                for l in loops:
                    if l.rsplit(".", 1)[0] == f:
                        us.append(l + ":" + rest[2:])
            else:
                us.append(f + "." + rest)
        cmd += ["--unwindset", ",".join(us), "--no-unwinding-assertions" if job.partial else "--unwinding-assertions"]
    if job.unwind:
        cmd += ["--unwind", job.unwind, "--unwinding-assertions"]
    elif not job.partial:
        # safety net for loops the job does not name (e.g. a loop introduced by a change to the code): without a bound
        # symbolic execution of a data-dependent loop never ends.  A failed unwinding assertion is reported UNDECIDED.
        cmd += ["--unwind", os.environ.get("VERIF_DEFAULT_UNWIND", "260"), "--unwinding-assertions"]
    if job.solver in ("z3", "cvc5"):
        cmd += ["--" + job.solver]
    elif job.solver:
        cmd += ["--external-sat-solver", job.solver]
    if trace:
        cmd += ["--trace"]
    if prop:
        cmd += ["--property", prop]
    return cmd


def parse_cbmc_json(path):
    """returns (results list, messages list, status) — tolerant of truncated output"""
    try:
        raw = open(path, "rb").read().decode("utf-8", "replace")
    except OSError as e:
        return [], [("ERROR", "cbmc output missing: %s" % e)], None
    try:
        data = json.loads(raw)
    except Exception:
        # truncated (timeout): try to close the top-level list
        data = None
        for cut in range(len(raw) - 1, max(0, len(raw) - 200000), -1):
            if raw[cut] == "}":
                try:
                    data = json.loads(raw[:cut + 1] + "]")
                    break
                except Exception:
                    continue
        if data is None:
            return [], [raw[-2000:]], None
    results, msgs, status = [], [], None
    for e in data:
        if not isinstance(e, dict):
            continue
        if "result" in e:
            results = e["result"]
        if "messageText" in e:
            msgs.append((e.get("messageType", ""), e["messageText"]))
        if "cProverStatus" in e:
            status = e["cProverStatus"]
    return results, msgs, status


def obligation_class(r):
    p = r.get("property", "")
    d = r.get("description", "")
    if d.startswith("canary "):
        return "canary"
    for k in ("postcondition", "precondition", "assigns", "loop_invariant_base", "loop_invariant_step",
              "loop_decreases", "loop_assigns", "loop_step_unwinding", "pointer_dereference", "pointer_arithmetic",
              "pointer_primitives", "array_bounds", "bounds", "division-by-zero", "overflow", "unwind",
              "assertion", "no-body", "precondition_instance", "undefined-shift", "pointer"):
        if "." + k + "." in p or p.endswith("." + k):
            return k
    return "other"


def run_job(job, tier, keep=False, want_trace=False):
    """returns dict describing the job outcome"""
    os.makedirs(WORKROOT, exist_ok=True)
    wd = tempfile.mkdtemp(prefix=job.name + ".", dir=WORKROOT)
    res = {"job": job.name, "file": os.path.relpath(job.path, VERIF), "enforce": job.enforce, "replace": job.replace,
           "loops": job.loops, "unwindset": job.unwindset or job.unwind, "bounded": job.bounded, "layer": job.layer,
           "status": "undecided", "reason": "", "obligations": 0, "discharged": 0, "failed": [], "canaries": 0,
           "canaries_reached": 0, "classes": {}, "solver_s": 0.0, "wall_s": 0.0, "backend": job.solver or "minisat (cbmc built-in)",
           "nobody": [], "workdir": wd}
    t0 = time.time()
    timeout = job.timeout if tier == "quick" else max(job.timeout, 3600)
    try:
        a, b = os.path.join(wd, "a.gb"), os.path.join(wd, "b.gb")
        rc, text, _ = run(goto_cc_cmd(job, a), 300)
        if rc != 0:
            res["reason"] = "goto-cc failed: " + text[-1500:]
            return res
        if job.enforce or job.replace or job.loops:
            rc, text, _ = run(instrument_cmd(job, a, b), 600)
            if rc != 0:
                res["reason"] = "goto-instrument failed: " + text[-1500:]
                return res
            res["instrument_log"] = text[-400:]
        else:
            rc, text, _ = run(["goto-instrument", "--drop-unused-functions", a, b], 600)
            if rc != 0:
                res["reason"] = "goto-instrument failed: " + text[-1500:]
                return res
        out = os.path.join(wd, "out.json")
        rc, err, dt = run(cbmc_cmd(job, b), timeout, mem_kb=MEM_KB, stdout_path=out)
        res["solver_s"] = round(dt, 2)
        res["checker_cmd"] = " ".join(cbmc_cmd(job, "b.gb"))
        results, msgs, status = parse_cbmc_json(out)
        if rc == "timeout":
            res["reason"] = "cbmc timeout after %ds" % timeout
            return res
        for mt, m in msgs:
            mm = re.search(r"no body for (?:function|callee) (\S+)", m)
            if mm:
                f = mm.group(1).strip("'`")
                if f not in res["nobody"]:
                    res["nobody"].append(f)
            if "ignoring forall" in m or "ignoring exists" in m:
                res["reason"] = "quantifier ignored by back end"
                return res
        if not results:
            errs = [m for mt, m in msgs if mt == "ERROR"] or [m for mt, m in msgs][-3:]
            res["reason"] = "cbmc produced no results (rc=%s): %s %s" % (rc, " | ".join(str(x) for x in errs)[-1200:], err[-300:])
            return res
        unexpected_nobody = [f for f in res["nobody"] if not f.startswith("nondet_") and f not in job.trusted]
        failed, undec = [], []
        for r in results:
            c = obligation_class(r)
            res["classes"][c] = res["classes"].get(c, 0) + 1
            if c == "canary":
                res["canaries"] += 1
                if r["status"] == "FAILURE":
                    res["canaries_reached"] += 1
                continue
            res["obligations"] += 1
            if r["status"] == "SUCCESS":
                res["discharged"] += 1
            elif r["status"] == "FAILURE":
                if c == "unwind" or "unwinding assertion" in r.get("description", ""):
                    undec.append(r)
                else:
                    failed.append(r)
            else:
                undec.append(r)
        res["failed"] = [{"property": r["property"], "description": r.get("description", ""),
                          "class": obligation_class(r),
                          "function": r.get("sourceLocation", {}).get("function", ""),
                          "file": r.get("sourceLocation", {}).get("file", ""),
                          "line": r.get("sourceLocation", {}).get("line", "")} for r in failed]
        res["samples"] = [{"obligation": r["property"], "description": r.get("description", "")[:160], "status": r["status"]}
                          for r in results if obligation_class(r) in ("postcondition", "assertion", "loop_invariant_step")][:4] \
            or [{"obligation": r["property"], "description": r.get("description", "")[:160], "status": r["status"]} for r in results[:3]]
        # the solver gave up (memory): results carry status ERROR; undecided, and not a vacuity problem
        if any(r["status"] == "ERROR" for r in results):
            errs = [m for mt, m in msgs if mt == "ERROR"]
            res["reason"] = "solver gave up (%d obligations with status ERROR): %s" % (
                sum(1 for r in results if r["status"] == "ERROR"), " | ".join(str(x) for x in errs)[-400:])
            return res
        # vacuity guards
        if res["canaries"] == 0:
            res["reason"] = "vacuity guard: harness has no CANARY"
            return res
        if res["canaries_reached"] != res["canaries"] and failed:
            # a failed obligation is definitive; CBMC assumes a failed assertion afterwards, which is what makes the canaries
            # behind it unreachable (typically a callee precondition that fails on every path)
            res["status"] = "failed"
            res["reason"] = "failed obligation(s); %d of %d canaries lie behind them" % (res["canaries"] - res["canaries_reached"], res["canaries"])
            res["cex"] = extract_cex(job, b, failed[0]["property"], wd, timeout)
            return res
        if res["canaries_reached"] != res["canaries"]:
            res["reason"] = "vacuity guard: %d of %d canaries unreachable (contradictory precondition or dead harness)" % (
                res["canaries"] - res["canaries_reached"], res["canaries"])
            return res
        if res["obligations"] == 0:
            res["reason"] = "vacuity guard: zero obligations"
            return res
        need = [x for x in job.expect.split(",") if x]
        if job.enforce and not need:
            need = ["postcondition"]
        if job.loops:
            need += ["loop_invariant_step"]
        missing = [k for k in need if res["classes"].get(k, 0) == 0]
        if missing:
            res["reason"] = "vacuity guard: expected obligation classes absent: %s" % ",".join(missing)
            return res
        if unexpected_nobody:
            res["reason"] = "bodyless callee(s) not declared trusted: %s" % ",".join(unexpected_nobody)
            return res
        # CBMC reports obligations that lie behind a failed one on every path as UNKNOWN: with a FAILURE present they
        # are a consequence of it, not a tool limit; without one they make the job undecided
        if undec and not failed:
            res["reason"] = "undecided obligations: " + "; ".join(r["property"] for r in undec[:5])
            return res
        if failed:
            res["status"] = "failed"
            if want_trace or True:
                res["cex"] = extract_cex(job, b, failed[0]["property"], wd, timeout)
            return res
        res["status"] = "ok"
        return res
    finally:
        res["wall_s"] = round(time.time() - t0, 2)
        if not keep and res["status"] != "failed":
            shutil.rmtree(wd, ignore_errors=True)


# --------------------------------------------------------------------------- counterexample -> native replay
def val_to_c(v):
    if v is None:
        return "0"
    if "members" in v:
        parts = []
        for m in v["members"]:
            if m["name"].startswith("$pad") or m["name"].startswith("$"):
                continue
            parts.append(".%s = %s" % (m["name"], val_to_c(m.get("value"))))
        return "{ " + ", ".join(parts) + " }"
    if "elements" in v:
        return "{ " + ", ".join(val_to_c(e.get("value")) for e in v["elements"]) + " }"
    n = v.get("name")
    if n == "integer" or n == "boolean":
        d = str(v.get("data", "0"))
        if d in ("true", "TRUE"):
            return "1"
        if d in ("false", "FALSE"):
            return "0"
        d = re.sub(r"^\(.*?\)", "", d)
        if re.match(r"^-?\d+[uUlL]*$", d):
            if d.startswith("-"):
                return "(%s)" % d
            return d
        if "binary" in v:
            return str(int(v["binary"], 2))
        return "0"
    if n == "pointer":
        return "0"
    if "binary" in v:
        return str(int(v["binary"], 2))
    return "0"


def harness_inputs(job):
    """(T, v) pairs of INPUT(T, v) inside the harness function, in source order"""
    src = open(job.path).read()
    m = re.search(r"void\s+%s\s*\(\s*void\s*\)\s*\{" % re.escape(job.harness), src)
    if not m:
        return []
    body = src[m.end():]
    # crude: up to the next line that starts with '}' in column 0
    e = re.search(r"^\}", body, re.M)
    body = body[:e.start()] if e else body
    return re.findall(r"INPUT\(\s*([\w ]+?)\s*,\s*(\w+)\s*\)", body)


def extract_cex(job, gb, prop, wd, timeout):
    out = os.path.join(wd, "trace.json")
    rc, err, dt = run(cbmc_cmd(job, gb, trace=True, prop=prop), timeout, mem_kb=MEM_KB, stdout_path=out)
    results, msgs, status = parse_cbmc_json(out)
    cex = {"property": prop, "inputs": {}, "found": False}
    tr = None
    for r in results:
        if r.get("property") == prop and r.get("status") == "FAILURE":
            tr = r.get("trace")
    if not tr:
        return cex
    pending = None
    for s in tr:
        if s.get("stepType") != "assignment":
            continue
        if s.get("sourceLocation", {}).get("function") != job.harness:
            continue
        lhs = s.get("lhs", "")
        if re.match(r"^return_value_nondet_\w+?(\$\d+)?$", lhs):
            pending = s.get("value")
            continue
        if lhs.startswith("return_value_nondet_"):
            continue
        if pending is not None:
            base = re.split(r"[.\[]", lhs)[0]
            if re.match(r"^[A-Za-z_]\w*$", base) and base not in cex["inputs"]:
                cex["inputs"][base] = pending
            pending = None
    cex["found"] = len(cex["inputs"]) > 0
    # a few last assignments inside the enforced function, as human-readable context
    tail = []
    for s in tr:
        if s.get("stepType") == "assignment" and not s.get("hidden") and \
                s.get("sourceLocation", {}).get("function") in job.enforce:
            v = s.get("value", {})
            if "data" in v:
                tail.append("%s=%s @%s" % (s.get("lhs"), v["data"], s.get("sourceLocation", {}).get("line")))
    cex["tail"] = tail[-25:]
    return cex


_native_lib_lock = None
def build_native_lib(dst):
    """ASan+UBSan static library from the current working tree of REPO (default configuration)."""
    src, defs = cfg()
    objdir = os.path.join(dst, "obj")
    os.makedirs(objdir, exist_ok=True)
    def cc(s):
        o = os.path.join(objdir, s.replace("/", "_") + ".o")
        cmd = ["clang", "-c", "-O0", "-g", "-fsanitize=address,undefined,pointer-compare,pointer-subtract", "-fno-omit-frame-pointer",
               "-I" + os.path.join(REPO, "include")] + defs + [os.path.join(REPO, s), "-o", o, "-w"]
        p = subprocess.run(cmd, stdout=subprocess.PIPE, stderr=subprocess.STDOUT)
        return o, p.returncode, p.stdout.decode("utf-8", "replace")
    with ThreadPoolExecutor(NCPU) as ex:
        rs = list(ex.map(cc, src))
    bad = [(o, t) for o, rc, t in rs if rc != 0]
    if bad:
        return None, bad[0][1][-800:]
    lib = os.path.join(dst, "libgmssl_asan.a")
    subprocess.run(["ar", "rcs", lib] + [o for o, _, _ in rs], check=True)
    return lib, ""


def native_replay(job, cex, dest_dir, obligation):
    """generate replay/<...>/ with inputs, a native program, and its output; returns (path, reproduced: bool|None, text)"""
    os.makedirs(dest_dir, exist_ok=True)
    info = {"job": job.name, "harness_file": os.path.relpath(job.path, VERIF), "obligation": obligation,
            "inputs": cex.get("inputs", {}), "trace_tail": cex.get("tail", [])}
    hdr = ["/* generated by verif.py from the CBMC counterexample for %s */" % obligation["property"]]
    for v, val in cex.get("inputs", {}).items():
        hdr.append("#define REPLAY_INIT_%s %s" % (v, val_to_c(val)))
    open(os.path.join(dest_dir, "replay_inputs.h"), "w").write("\n".join(hdr) + "\n")
    main_c = os.path.join(dest_dir, "replay_main.c")
    # the harness file with every OTHER harness function removed (convention: a harness starts at a line
    # "void h_<name>(void)" and ends at the first following line that is exactly "}")
    keep, skipping = [], False
    for line in open(job.path):
        m = re.match(r"^void\s+(h_\w+)\s*\(\s*void\s*\)", line)
        if m and m.group(1) != job.harness:
            skipping = True
        if not skipping:
            keep.append(line)
        elif line.rstrip() == "}":
            skipping = False
    open(main_c, "w").write("/* generated from %s: harness %s only */\n" % (os.path.relpath(job.path, VERIF), job.harness)
                            + "".join(keep) + '\nint main(void) { %s(); printf("REPLAY-RETURNED\\n"); return 0; }\n' % job.harness)
    reproduced, text = None, ""
    if cex.get("found") and job.native:
        lib, err = build_native_lib(dest_dir)
        if lib is None:
            text = "native library build failed: " + err
        else:
            _, defs = cfg()
            exe = os.path.join(dest_dir, "replay")
            cmd = ["clang", "-O0", "-g", "-fsanitize=address,undefined,pointer-compare,pointer-subtract", "-fno-omit-frame-pointer", "-fno-sanitize-recover=undefined",
                   "-DVERIF_NATIVE", "-I" + dest_dir, "-I" + os.path.join(VERIF, "include"), "-I" + os.path.join(VERIF, "contracts"),
                   "-I" + os.path.join(REPO, "include"), "-I" + REPO] + defs + job.defs + [main_c, lib, "-ldl", "-o", exe, "-w"]
            p = subprocess.run(cmd, stdout=subprocess.PIPE, stderr=subprocess.STDOUT)
            if p.returncode != 0:
                text = "native harness build failed:\n" + p.stdout.decode("utf-8", "replace")[-1500:]
            else:
                try:
                    p = subprocess.run([exe], stdout=subprocess.PIPE, stderr=subprocess.STDOUT, timeout=120,
                                       env=dict(os.environ, ASAN_OPTIONS="detect_leaks=0:abort_on_error=0:detect_invalid_pointer_pairs=2", UBSAN_OPTIONS="print_stacktrace=1"))
                    full = p.stdout.decode("utf-8", "replace")
                    # library diagnostics (error_print lines "file:line:func():") can be thousands of lines: keep the verdict lines first
                    keep = [l for l in full.splitlines() if l.startswith(("REPLAY-", "OBSERVE ")) or "ERROR: AddressSanitizer" in l or "runtime error:" in l or l.startswith("SUMMARY")]
                    text = ("\n".join(keep[:80]) + "\n--- tail of raw output ---\n" + full[-4000:]) if len(full) > 6000 else full
                    if "ERROR: AddressSanitizer" in text or "runtime error:" in text or "REPLAY-VIOLATION" in text:
                        reproduced = True
                    elif "REPLAY-ASSUMPTION-FALSE" in text:
                        reproduced = None
                    elif "REPLAY-HOLDS" in text and "REPLAY-VIOLATION" not in text:
                        reproduced = False
                    else:
                        reproduced = None
                except subprocess.TimeoutExpired:
                    text, reproduced = "native replay timed out (120 s) — non-termination?", True
            shutil.rmtree(os.path.join(dest_dir, "obj"), ignore_errors=True)
            for f in ("libgmssl_asan.a",):
                try:
                    os.remove(os.path.join(dest_dir, f))
                except OSError:
                    pass
    info["native_output"] = text
    info["native_reproduced"] = reproduced
    info["how_to_rerun"] = "python3 /verif/verif.py replay " + dest_dir
    path = os.path.join(dest_dir, "replay.json")
    json.dump(info, open(path, "w"), indent=1)
    return path, reproduced, text


# --------------------------------------------------------------------------- known findings
def load_known():
    known, fixed = [], []
    p = os.path.join(VERIF, "known_findings.jsonl")
    if os.path.exists(p):
        for line in open(p):
            line = line.strip()
            if not line or line.startswith("#"):
                continue
            if line.startswith("fixed:"):
                fixed.append(line)
                continue
            known.append(json.loads(line))
    return known, fixed


def match_known(known, prop, job, fo):
    for k in known:
        if k.get("property") != prop or k.get("job") != job.name:
            continue
        if k.get("function") and k["function"] != fo.get("function"):
            continue
        if k.get("class") and k["class"] != fo.get("class"):
            continue
        if k.get("description_re") and not re.search(k["description_re"], fo.get("description", "")):
            continue
        return k
    return None


# --------------------------------------------------------------------------- scan of /verif for assumptions
def scan_assumptions(jobs):
    found = []
    files = set(j.path for j in jobs)
    for d in ("contracts", "include"):
        files |= set(glob.glob(os.path.join(VERIF, d, "*.h")))
    for f in sorted(files):
        for i, line in enumerate(open(f), 1):
            if "__CPROVER_assume" in line and "define ASSUME" not in line and "define MKBUF" not in line and "define MKOUT" not in line:
                found.append("%s:%d uses __CPROVER_assume directly" % (os.path.relpath(f, VERIF), i))
            m = re.search(r"//@assume\s+(.*)", line)
            if m:
                found.append("%s:%d %s" % (os.path.relpath(f, VERIF), i, m.group(1).strip()))
    return found


# --------------------------------------------------------------------------- check a property
LEVELS = {}   # property -> evidence level override

def check(prop, tier, pat=None, keep=False):
    t0 = time.time()
    jobs_all = parse_jobs()
    jobs = [j for j in jobs_all if prop in j.props and (tier == "thorough" or j.tier == "quick")]
    if pat:
        jobs = [j for j in jobs if re.search(pat, j.name)]
    if not jobs:
        print("UNDECIDED property=%s no jobs" % prop)
        return 2
    known, fixed = load_known()
    with ThreadPoolExecutor(NCPU) as ex:
        outs = list(ex.map(lambda j: run_job(j, tier, keep=keep), sorted(jobs, key=lambda j: -j.timeout)))
    byname = dict((j.name, j) for j in jobs)
    enforced_anywhere = set()
    for j in jobs_all:
        for f in j.enforce:
            enforced_anywhere.add(f)
    violations, undecided, known_hits = [], [], []
    n_obl = n_dis = 0
    bounded_jobs = []
    for o in outs:
        j = byname[o["job"]]
        if o["status"] == "undecided":
            undecided.append(o)
            continue
        if j.bounded:
            bounded_jobs.append(o)
        else:
            n_obl += o["obligations"]
            n_dis += o["discharged"]
        if o["status"] == "failed":
            new = []
            for fo in o["failed"]:
                k = match_known(known, prop, j, fo)
                if k:
                    known_hits.append((k, o, fo))
                else:
                    new.append(fo)
            if new:
                violations.append((o, new))
    # property-specific supporting static scan (C20)
    extra = None
    if prop == "C20":
        import c20scan
        extra = c20scan.run_for_check()
        for w in extra["new_writes"]:
            dest = os.path.join(OUTROOT, "replay", prop, "static_scan")
            os.makedirs(dest, exist_ok=True)
            path = os.path.join(dest, "replay.json")
            json.dump({"obligation": "no instruction of the library writes an object of static storage duration", "write": w,
                       "verifier_output": "goto-instrument --show-goto-functions: ASSIGN %s in %s (%s)" % (w["lhs"], w["function"], w["file"]),
                       "native_reproduced": None}, open(path, "w"), indent=1)
            print("FAILED-OBLIGATION property=C20 job=static_scan written static object %s in %s (%s)" % (w["static"], w["function"], w["file"]))
            print("VIOLATION property=C20 replay=%s no-failing-input-found" % path)
        if extra["error"]:
            print("UNDECIDED property=C20 job=static_scan %s" % extra["error"])
    if prop == "C04":
        import c18scan
        try:
            r04 = c18scan.run_inplace_scan()
            err = ("goto-cc failed on %d files: %s" % (len(r04["errors"]), r04["errors"][0]["file"])) if r04["errors"] else ""
        except Exception as e:
            r04, err = {"files": 0, "callees": [], "findings": []}, "scan failed: %r" % e
        extra = {"new_writes": r04["findings"], "error": err, "summary": {
            "translation_units_src_and_tools": r04["files"], "decryptors_whose_output_lags_their_input": r04["callees"],
            "call_sites_passing_the_same_buffer_as_in_and_out": r04["findings"],
            "limitation": "syntactic: identical argument expressions only"}}
        for w in r04["findings"]:
            dest = os.path.join(OUTROOT, "replay", prop, "callsite_scan")
            os.makedirs(dest, exist_ok=True)
            path = os.path.join(dest, "replay.json")
            json.dump({"obligation": "precondition SEPARATE(in, out) of a streaming decryptor that holds back a block or a tag", "call_site": w,
                       "verifier_output": "goto-instrument --show-goto-functions: CALL %s at %s:%s in %s (%s)" % (
                           w["callee"], w["file"], w["line"], w["function"], w["why"]), "native_reproduced": None}, open(path, "w"), indent=1)
            print("FAILED-OBLIGATION property=C04 job=callsite_scan %s:%s %s calls %s: %s" % (w["file"], w["line"], w["function"], w["callee"], w["why"]))
            print("VIOLATION property=C04 replay=%s no-failing-input-found" % path)
        if err:
            print("UNDECIDED property=C04 job=callsite_scan %s" % err)
    if prop == "C06":
        import c18scan
        try:
            r06 = c18scan.run_reader_scan()
            err = ("goto-cc failed on %d files: %s" % (len(r06["errors"]), r06["errors"][0]["file"])) if r06["errors"] else ""
        except Exception as e:
            r06, err = {"files": 0, "callees": [], "findings": []}, "scan failed: %r" % e
        extra = {"new_writes": r06["findings"], "error": err, "summary": {
            "translation_units": r06["files"], "readers_whose_result_must_be_tested": r06["callees"], "call_sites_ignoring_the_result": r06["findings"],
            "excluded_files": list(c18scan.READER_EXCLUDED_FILES), "limitation": "syntactic: a call whose return value is discarded"}}
        for w in r06["findings"]:
            dest = os.path.join(OUTROOT, "replay", prop, "callsite_scan")
            os.makedirs(dest, exist_ok=True)
            path = os.path.join(dest, "replay.json")
            json.dump({"obligation": "the result of a wire-format / DER reader is tested before its outputs are used", "call_site": w,
                       "verifier_output": "goto-instrument --show-goto-functions: CALL %s at %s:%s in %s (result discarded)" % (
                           w["callee"], w["file"], w["line"], w["function"]), "native_reproduced": None}, open(path, "w"), indent=1)
            print("FAILED-OBLIGATION property=C06 job=callsite_scan %s:%s %s calls %s: result ignored" % (w["file"], w["line"], w["function"], w["callee"]))
            print("VIOLATION property=C06 replay=%s no-failing-input-found" % path)
        if err:
            print("UNDECIDED property=C06 job=callsite_scan %s" % err)
    if prop == "C18":
        import c18scan
        try:
            r18 = c18scan.run_scan()
            err = ("goto-cc failed on %d files: %s" % (len(r18["errors"]), r18["errors"][0]["file"])) if r18["errors"] else ""
        except Exception as e:
            r18, err = {"files": 0, "callees": [], "findings": []}, "scan failed: %r" % e
        extra = {"new_writes": r18["findings"], "error": err, "summary": {
            "translation_units": r18["files"], "fail_closed_callees": r18["callees"], "call_sites_not_testing_the_result": r18["findings"],
            "limitation": "syntactic: the first use of the returned value must compare it with 1; data flow after the test is not followed"}}
        for w in r18["findings"]:
            dest = os.path.join(OUTROOT, "replay", prop, "callsite_scan")
            os.makedirs(dest, exist_ok=True)
            path = os.path.join(dest, "replay.json")
            json.dump({"obligation": "the result of a fail-closed entropy-consuming call is compared with 1 before the caller continues",
                       "call_site": w, "verifier_output": "goto-instrument --show-goto-functions: CALL %s at %s:%s in %s (%s)" % (
                           w["callee"], w["file"], w["line"], w["function"], w["why"]), "native_reproduced": None}, open(path, "w"), indent=1)
            print("FAILED-OBLIGATION property=C18 job=callsite_scan %s:%s %s calls %s: %s" % (w["file"], w["line"], w["function"], w["callee"], w["why"]))
            print("VIOLATION property=C18 replay=%s no-failing-input-found" % path)
        if err:
            print("UNDECIDED property=C18 job=callsite_scan %s" % err)
    # report
    rc = 0
    if extra and extra["new_writes"]:
        rc = 1
    if extra and extra["error"]:
        rc = 2
    for k, o, fo in known_hits:
        print("KNOWN-FINDING: property=%s job=%s obligation=%s %s" % (prop, o["job"], fo["property"], k.get("what", "")))
    # known-failed obligations are not counted as discharged but do not make the run fail
    for o, new in violations:
        j = byname[o["job"]]
        cex = o.get("cex") or {}
        dest = os.path.join(OUTROOT, "replay", prop, o["job"])
        shutil.rmtree(dest, ignore_errors=True)
        path, reproduced, text = native_replay(j, cex, dest, new[0])
        suffix = ""
        if not cex.get("found"):
            suffix = " no-failing-input-found"
        for fo in new:
            print("FAILED-OBLIGATION property=%s job=%s %s [%s] %s:%s %s" % (
                prop, o["job"], fo["property"], fo["class"], fo["file"], fo["line"], fo["description"]))
        if cex.get("found"):
            print("REPLAY job=%s native_reproduced=%s" % (o["job"], reproduced))
        print("VIOLATION property=%s replay=%s%s" % (prop, path, suffix))
        rc = 1
        shutil.rmtree(o["workdir"], ignore_errors=True)
    for o in outs:
        if o["status"] == "failed" and os.path.isdir(o["workdir"]) and not keep:
            shutil.rmtree(o["workdir"], ignore_errors=True)
    for o in undecided:
        print("UNDECIDED property=%s job=%s %s" % (prop, o["job"], o["reason"][:600]))
    if undecided and rc == 0:
        rc = 2
    # evidence
    write_evidence(prop, tier, jobs, outs, n_obl, n_dis, bounded_jobs, known_hits, violations, undecided,
                   enforced_anywhere, time.time() - t0, scan_assumptions(jobs), extra)
    ok = sum(1 for o in outs if o["status"] == "ok")
    known_jobs = set(o["job"] for k, o, fo in known_hits) - set(o["job"] for o, new in violations)
    print("SUMMARY property=%s tier=%s jobs=%d ok=%d failed=%d known_findings=%d undecided=%d obligations=%d discharged=%d wall=%.1fs" % (
        prop, tier, len(outs), ok, sum(1 for o in outs if o["status"] == "failed" and o["job"] not in known_jobs), len(known_jobs),
        len(undecided), n_obl - len(known_hits), n_dis, time.time() - t0))
    for d in (WORKROOT, os.path.dirname(WORKROOT)):
        try:
            os.rmdir(d)
        except OSError:
            pass
    return rc


def prop_meta(prop):
    p = os.path.join(VERIF, "props_meta.json")
    if os.path.exists(p):
        return json.load(open(p)).get(prop, {})
    return {}


def write_evidence(prop, tier, jobs, outs, n_obl, n_dis, bounded_jobs, known_hits, violations, undecided,
                   enforced_anywhere, wall, scanned, extra=None):
    meta = prop_meta(prop)
    funcs = sorted(set(f for j in jobs for f in j.enforce))
    replaced = {}
    for j in jobs:
        for g in j.replace:
            replaced.setdefault(g, []).append(j.name)
    assumed = sorted(g for g in replaced if g not in enforced_anywhere)
    proved_elsewhere = sorted(g for g in replaced if g in enforced_anywhere)
    trusted = sorted(set(f for j in jobs for f in j.trusted))
    per_job = []
    for o in outs:
        per_job.append({k: o.get(k) for k in ("job", "file", "enforce", "replace", "loops", "unwindset", "bounded", "layer",
                                               "status", "reason", "obligations", "discharged", "canaries", "canaries_reached",
                                               "backend", "solver_s", "wall_s", "classes", "nobody")})
    samples = []
    for o in outs:
        for s in (o.get("samples") or [])[:1]:
            samples.append({"job": o["job"], **s})
    samples = samples[:12] or [{"note": "no obligations"}]
    level = meta.get("level", "proof")
    ev = {
        "property_id": prop, "tier": tier, "seed": int(os.environ.get("VERIF_SEED", "0") or 0), "level": level,
        "coverage": {
            # obligations that fail and are listed in known_findings.jsonl are reported under known_findings_hit and are
            # not part of the proved set
            "obligations": n_obl - len(known_hits), "discharged": n_dis,
            "obligations_failing_as_recorded_known_findings": len(known_hits),
            "checker_cmd": "goto-cc -DVERIF_CBMC -D%s … --function h_<job> jobs/<file>.c; goto-instrument --dfcc h_<job> --enforce-contract <f> [--replace-call-with-contract <g>]… [--apply-loop-contracts]; cbmc %s --object-bits N --json-ui  (python3 verif.py check %s --tier %s)" % (GUARD, " ".join(DEFAULT_CHECKS), prop, tier),
            "trusted_base": ["cbmc 6.11.0 / goto-cc / goto-instrument (DFCC)", "MiniSat 2.2.1 as built into cbmc unless a job names another back end"]
                            + ["assumed contract (replaced, never enforced): " + g for g in assumed]
                            + ["bodyless callee treated as arbitrary side-effect-free value: " + f for f in trusted],
            "functions_under_contract": funcs,
            "replaced_contracts_proved_by_their_own_job": proved_elsewhere,
            "replaced_contracts_assumed": assumed,
            "jobs": per_job,
            "bounded": [{"job": o["job"], "bound": o["bounded"], "obligations": o["obligations"], "discharged": o["discharged"]} for o in bounded_jobs],
            "known_findings_hit": [{"job": o["job"], "obligation": fo["property"], "what": k.get("what", "")} for k, o, fo in known_hits],
            "undecided_jobs": [{"job": o["job"], "reason": o["reason"][:300]} for o in undecided],
            "failed_jobs": [{"job": o["job"], "obligations": [fo["property"] for fo in new]} for o, new in violations],
            "not_covered": meta.get("not_covered", ""),
            "samples": samples,
            "solver_s_total": round(sum(o["solver_s"] for o in outs), 1),
            "explanation": meta.get("explanation", "every obligation CBMC generates for the listed functions' contracts (postconditions, frame, loop invariants, decreases, memory-safety checks) discharged on the real source file included verbatim from the working tree"),
        },
        "assumptions": STANDING_ASSUMPTIONS + meta.get("assumptions", []) + scanned,
        "wall_s": round(wall, 2),
        "violations": len(violations) + (len(extra["new_writes"]) if extra else 0),
    }
    if extra:
        ev["coverage"]["static_scan"] = extra["summary"]
    os.makedirs(os.path.join(OUTROOT, "evidence"), exist_ok=True)
    json.dump(ev, open(os.path.join(OUTROOT, "evidence", prop + ".json"), "w"), indent=1)


# --------------------------------------------------------------------------- CLI
def main():
    ap = argparse.ArgumentParser()
    sub = ap.add_subparsers(dest="cmd")
    c = sub.add_parser("check"); c.add_argument("prop"); c.add_argument("--tier", default=os.environ.get("VERIF_TIER", "quick"))
    c.add_argument("--jobs", default=None); c.add_argument("--keep", action="store_true")
    j = sub.add_parser("job"); j.add_argument("name"); j.add_argument("--keep", action="store_true"); j.add_argument("--tier", default="quick")
    l = sub.add_parser("list"); l.add_argument("prop", nargs="?")
    r = sub.add_parser("replay"); r.add_argument("path")
    a = ap.parse_args()
    if a.cmd == "check":
        tier = a.tier if a.tier in ("quick", "thorough") else "quick"
        sys.exit(check(a.prop, tier, a.jobs, a.keep))
    if a.cmd == "job":
        jobs = [x for x in parse_jobs() if re.fullmatch(a.name, x.name)]
        if not jobs:
            raise SystemExit("no such job")
        rc = 0
        with ThreadPoolExecutor(NCPU) as ex:
            outs = list(ex.map(lambda jb: run_job(jb, a.tier, keep=a.keep), jobs))
        for o in outs:
            print("%-44s %-9s obl=%d/%d canary=%d/%d %.1fs %s" % (o["job"], o["status"], o["discharged"], o["obligations"],
                  o["canaries_reached"], o["canaries"], o["wall_s"], o["reason"][:1500]))
            for fo in o["failed"]:
                print("    FAILED %s [%s] %s:%s %s" % (fo["property"], fo["class"], fo["file"], fo["line"], fo["description"]))
            if o.get("cex"):
                print("    cex found=%s inputs=%s" % (o["cex"].get("found"), {k: val_to_c(v)[:300] for k, v in o["cex"].get("inputs", {}).items()}))
                for t in o["cex"].get("tail", [])[-12:]:
                    print("      ", t)
            if o["status"] != "ok":
                rc = 1
            if a.keep:
                print("    workdir", o["workdir"])
            elif os.path.isdir(o["workdir"]):
                shutil.rmtree(o["workdir"], ignore_errors=True)
        sys.exit(rc)
    if a.cmd == "list":
        for x in parse_jobs():
            if not a.prop or a.prop in x.props:
                print("%-44s %-12s enforce=%s replace=%s %s" % (x.name, ",".join(x.props), ",".join(x.enforce), ",".join(x.replace), x.tier))
        return
    if a.cmd == "replay":
        d = a.path if os.path.isdir(a.path) else os.path.dirname(a.path)
        info = json.load(open(os.path.join(d, "replay.json")))
        jobs = [x for x in parse_jobs() if x.name == info["job"]]
        cex = {"inputs": info["inputs"], "found": bool(info["inputs"]), "tail": info.get("trace_tail", [])}
        path, rep, text = native_replay(jobs[0], cex, d, info["obligation"])
        print(text)
        print("native_reproduced=%s" % rep)
        return
    ap.print_help()


if __name__ == "__main__":
    main()
