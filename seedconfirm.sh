#!/bin/bash
# Confirm seeded changes independently: for each /verif/seeded/<id>: in a scratch worktree of /repo HEAD
#  (1) patch applies and the library builds; (2) the 50 baseline tests pass with it;
#  (3) the demonstration fails with it and (4) passes without it.   Results -> seeded/<id>/confirm.json
set -u
WT=/tmp/seedconfirm.$$
for d in "$@"; do
  d=$(realpath $d); id=$(basename $d)
  rm -rf $WT; git -C /repo worktree add -q --detach $WT HEAD || { echo "$id worktree failed"; continue; }
  res_apply=0; res_build=0; res_tests=-1; demo_with=-1; demo_without=-1
  if git -C $WT apply $d/patch.diff 2>/dev/null; then res_apply=1; fi
  if [ $res_apply = 1 ]; then
    cmake -G Ninja -S $WT -B $WT/_b >/dev/null 2>&1 && cmake --build $WT/_b -j 8 >/dev/null 2>&1 && res_build=1
    if [ $res_build = 1 ]; then
      res_tests=$(ctest --test-dir $WT/_b -j8 --timeout 900 2>/dev/null | grep -c "Passed")
      if [ -f $d/demo.c ]; then
        cc -DENABLE_SM4_CCM -DENABLE_SM4_CFB -DENABLE_SM4_OFB -DENABLE_SM4_XTS -DENABLE_SM4_ECB -I$WT/include $d/demo.c -L$WT/_b/bin -lgmssl -Wl,-rpath,$WT/_b/bin -o $WT/demo_with 2>/dev/null && { (cd $WT && timeout 120 ./demo_with >/dev/null 2>&1); demo_with=$?; }
      elif [ -f $d/demo.sh ]; then (cd $WT && WORKTREE=$WT timeout 300 bash $d/demo.sh >/dev/null 2>&1); demo_with=$?; fi
      git -C $WT checkout -q -- src include tools tests 2>/dev/null
      cmake --build $WT/_b -j 8 >/dev/null 2>&1
      if [ -f $d/demo.c ]; then
        cc -DENABLE_SM4_CCM -DENABLE_SM4_CFB -DENABLE_SM4_OFB -DENABLE_SM4_XTS -DENABLE_SM4_ECB -I$WT/include $d/demo.c -L$WT/_b/bin -lgmssl -Wl,-rpath,$WT/_b/bin -o $WT/demo_without 2>/dev/null && { (cd $WT && timeout 120 ./demo_without >/dev/null 2>&1); demo_without=$?; }
      elif [ -f $d/demo.sh ]; then (cd $WT && WORKTREE=$WT timeout 300 bash $d/demo.sh >/dev/null 2>&1); demo_without=$?; fi
    fi
  fi
  echo "{\"id\":\"$id\",\"applies\":$res_apply,\"builds\":$res_build,\"tests_passed\":$res_tests,\"demo_exit_with_change\":$demo_with,\"demo_exit_without_change\":$demo_without,\"repo_head\":\"$(git -C /repo rev-parse --short HEAD)\"}" | tee $d/confirm.json
  git -C /repo worktree remove --force $WT 2>/dev/null; rm -rf $WT
done
git -C /repo worktree prune
