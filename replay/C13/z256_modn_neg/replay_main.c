/* generated from jobs/c13_z256_l0.c: harness h_z256_modn_neg only */
/* C13 layer 0 — linear 256-bit limb arithmetic of src/sm2_z256.c against the integers.
 * All functions are loop-free: each job is a complete proof over all 2^512 (resp. 2^256)
 * operand values and every aliasing pattern of the pointer parameters. */
#include "sm2_z256.h"
#include "src/sm2_z256.c"
#include "stubs_stdio.h"

typedef struct { uint64_t v[4]; } z256_in;
typedef struct { uint8_t v[32]; } b32_in;
typedef struct { uint8_t alias; uint64_t s; unsigned int n; } misc_in;
DECL_INPUT(z256_in);
DECL_INPUT(b32_in);
DECL_INPUT(misc_in);

/* r may alias a or b; b may alias a — exactly the patterns used in sm2_z256.c and its callers */
#define SETUP3 \
	INPUT(z256_in, A); INPUT(z256_in, B); INPUT(z256_in, Rb); INPUT(misc_in, M); \
	uint64_t *a = A.v; \
	uint64_t *b = (M.alias & 4) ? A.v : B.v; \
	uint64_t *r = (M.alias & 3) == 1 ? a : ((M.alias & 3) == 2 ? b : Rb.v); \
	NATIVE(nr_t a0 = nr_from(a, 4); nr_t b0 = nr_from(b, 4); nr_t r0 = nr_from(r, 4);)
#define SETUP2 \
	INPUT(z256_in, A); INPUT(z256_in, Rb); INPUT(misc_in, M); \
	uint64_t *a = A.v; \
	uint64_t *r = (M.alias & 1) ? a : Rb.v; \
	NATIVE(nr_t a0 = nr_from(a, 4); nr_t r0 = nr_from(r, 4);)
#define DONE  OBSERVE_BYTES("r", r, 32); CANARY("returned")
#define RV    nr_from(r, 4)
#define NLT(x, m) (nr_cmp(x, m) < 0)
#ifdef VERIF_CBMC
#define LTP(x) (VAL4(x) < BV_P)
#define LTN(x) (VAL4(x) < BV_N)
#else
#define LTP(x) NLT(nr_from(x, 4), NR_P)
#define LTN(x) NLT(nr_from(x, 4), NR_N)
#endif

//@job name=z256_add props=C13 enforce=sm2_z256_add layer=proved

//@job name=z256_sub props=C13 enforce=sm2_z256_sub layer=proved

//@job name=z256_modp_add props=C13 enforce=sm2_z256_modp_add layer=proved

//@job name=z256_modp_sub props=C13 enforce=sm2_z256_modp_sub layer=proved

//@job name=z256_modp_dbl props=C13 enforce=sm2_z256_modp_dbl layer=proved

//@job name=z256_modp_tri props=C13 enforce=sm2_z256_modp_tri layer=proved

//@job name=z256_modp_neg props=C13 enforce=sm2_z256_modp_neg layer=proved

//@job name=z256_modp_haf props=C13 enforce=sm2_z256_modp_haf layer=proved

//@job name=z256_modn_add props=C13 enforce=sm2_z256_modn_add layer=proved

//@job name=z256_modn_sub props=C13 enforce=sm2_z256_modn_sub layer=proved

//@job name=z256_modn_neg props=C13 enforce=sm2_z256_modn_neg layer=proved
void h_z256_modn_neg(void)
{
	SETUP2;
	ASSUME(LTN(a));
	sm2_z256_modn_neg(r, a);
	NCHECK(NLT(RV, NR_N) && (nr_eq(nr_add(RV, a0), NR_N) || (nr_eq(RV, nr_u64(0)) && nr_eq(a0, nr_u64(0)))), "r == -a mod n, r < n");
	DONE;
}

//@job name=z256_rshift props=C13 enforce=sm2_z256_rshift layer=proved

//@job name=z256_copy props=C13 enforce=sm2_z256_copy layer=proved

//@job name=z256_copy_conditional props=C13 enforce=sm2_z256_copy_conditional layer=proved

//@job name=z256_set_one props=C13 enforce=sm2_z256_set_one layer=proved

//@job name=z256_set_zero props=C13 enforce=sm2_z256_set_zero layer=proved

//@job name=z256_cmp props=C13 enforce=sm2_z256_cmp layer=proved

//@job name=z256_equ props=C13 enforce=sm2_z256_equ layer=proved

//@job name=z256_is_zero props=C13 enforce=sm2_z256_is_zero layer=proved

//@job name=z256_is_odd props=C13 enforce=sm2_z256_is_odd layer=proved

//@job name=z256_from_bytes props=C13 enforce=sm2_z256_from_bytes layer=proved

//@job name=z256_to_bytes props=C13 enforce=sm2_z256_to_bytes layer=proved

/* lemma over the two real bodies: from_bytes(to_bytes(a)) == a and to_bytes(from_bytes(x)) == x */
//@job name=z256_bytes_roundtrip props=C13,C14 expect=assertion layer=proved

int main(void) { h_z256_modn_neg(); printf("REPLAY-RETURNED\n"); return 0; }
