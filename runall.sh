#!/bin/bash
# run the quick check of each property given on the command line, sequentially; summary lines to stdout
for p in "$@"; do python3 /verif/verif.py check $p --tier quick 2>&1 | grep -E "^(SUMMARY|VIOLATION|UNDECIDED|KNOWN)" | cut -c1-300; done
