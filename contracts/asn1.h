/* Contracts for src/asn1.c.
 *
 * Reader convention (every *_from_der):  (in, inlen) designate a window of *inlen readable bytes at *in.
 *   RET == 1  : an element was consumed; the window is now the suffix after it  (DER_RD_ADV)
 *   RET == 0  : element absent (tag mismatch / empty input); window unchanged    (DER_RD_SAME)
 *   RET  < 0  : malformed; NOTHING is promised about *in / *inlen (asn1_oid_node_from_base128
 *               even wraps *inlen on that path) — callers must not touch the window again, and
 *               every caller proved against these contracts is thereby shown not to.
 * Returned slices are expressed relative to the new window start:  *d + *dlen == *in.
 *
 * Writer convention (every *_to_der), the library's two-pass protocol:
 *   out == NULL or *out == NULL : count only;   otherwise *out must have DER size bytes writable.
 *   RET == 1 : *outlen grew by exactly the DER size, and *out (if any) advanced by the same amount.
 *
 * Post-conditions on values (strictness, canonical form) are taken from C14/C01/C02/C06's text.
 */
#ifndef CONTRACTS_ASN1_H
#define CONTRACTS_ASN1_H
#include "verif.h"
#include <limits.h>
#include <stdio.h>
#include <time.h>
#include <gmssl/asn1.h>

#ifdef VERIF_CBMC
#define DER_RD_REQ(in, inlen)  (WR_OK(in, sizeof(*(in))) && WR_OK(inlen, sizeof(*(inlen))) && *(in) != NULL && RD_OK(*(in), *(inlen)) \
                                && *(inlen) <= (size_t)INT_MAX)
/* the new window start is defined constructively (pointer_in_range) and then pinned: a havocked pointer that is only
   constrained by an equality dereferences to an unconstrained value in CBMC (measured) */
#define PTR_IN(lo, p, hi)      __CPROVER_pointer_in_range_dfcc((lo), (p), (hi))
#define DER_RD_ADV(in, inlen)  (*(inlen) <= OLD(*(inlen)) && PTR_IN(OLD(*(in)), *(in), OLD(*(in)) + OLD(*(inlen))) \
                                && *(in) == OLD(*(in)) + (OLD(*(inlen)) - *(inlen)))
/* [p, p+n) lies inside [base, base+len), stated without forming p+n */
#define SLICE_IN(p, n, base, len) ((n) <= (len) && PTR_IN((base), (p), (base) + (len)) && (size_t)(__CPROVER_POINTER_OFFSET(p) - __CPROVER_POINTER_OFFSET(base)) + (n) <= (len))
#define DER_SLICE(p, in, inlen, off) (PTR_IN(OLD(*(in)), (p), OLD(*(in)) + OLD(*(inlen))) && (p) == OLD(*(in)) + (off))
#define DER_RD_SAME(in, inlen) (*(inlen) == OLD(*(inlen)) && *(in) == OLD(*(in)))
#define DER_CONSUMED(inlen)    (OLD(*(inlen)) - *(inlen))
/* size of a DER length field — X.690 8.1.3, definite form, minimal octets */
#define DER_LEN_SZ(len)  ((size_t)1 + (size_t)((len) >= 128) + (size_t)((len) >= 256) + (size_t)((len) >= 65536) + (size_t)((len) >= 16777216))
#define DER_TLV_SZ(len)  (1 + DER_LEN_SZ(len) + (size_t)(len))
#define DER_WR_REQ(out, outlen, need) (WR_OK(outlen, sizeof(*(outlen))) && \
	((out) == NULL || (WR_OK(out, sizeof(*(out))) && (*(out) == NULL || WR_OK(*(out), (need))))))
#define DER_WR_FRAME(out, outlen, need) *(outlen), *(out), OBJ_UPTO(*(out), (need))
#define DER_WR_ADV(out, outlen, need) (*(outlen) == OLD(*(outlen)) + (need) && \
	((out) == NULL || (OLD(*(out)) == NULL ? *(out) == NULL : (PTR_IN(OLD(*(out)), *(out), OLD(*(out)) + (need)) && *(out) == OLD(*(out)) + (need)))))
/* variable amount written: delta = growth of *outlen, bounded by cap */
#define DER_WR_ADV_VAR(out, outlen, cap) ((out) == NULL || (OLD(*(out)) == NULL ? *(out) == NULL : \
	(PTR_IN(OLD(*(out)), *(out), OLD(*(out)) + (cap)) && *(out) == OLD(*(out)) + (*(outlen) - OLD(*(outlen))))))
#define DER_WR_SAME(out, outlen) (*(outlen) == OLD(*(outlen)) && ((out) == NULL || *(out) == OLD(*(out))))
#endif

/* ------------------------------------------------------------------ length */
int asn1_length_to_der(size_t len, uint8_t **out, size_t *outlen)
REQUIRES(DER_WR_REQ(out, outlen, DER_LEN_SZ(len)))
ASSIGNS(*outlen; out != NULL: *out; out != NULL && *out != NULL: OBJ_UPTO(*out, DER_LEN_SZ(len)))
ENSURES(RET == 1 || RET == -1)
ENSURES((RET == 1) == (len <= (size_t)INT_MAX))
ENSURES(RET == 1 IMPLIES DER_WR_ADV(out, outlen, DER_LEN_SZ(len)))
ENSURES(RET != 1 IMPLIES DER_WR_SAME(out, outlen))
;

int asn1_length_from_der(size_t *len, const uint8_t **in, size_t *inlen)
REQUIRES(WR_OK(len, sizeof(*len)) && DER_RD_REQ(in, inlen))
ASSIGNS(*len, *in, *inlen)
ENSURES(RET == 1 || RET == -1 || RET == -2)
ENSURES(RET == 1 IMPLIES DER_RD_ADV(in, inlen))
/* the content fits the remaining input */
ENSURES(RET == 1 IMPLIES *len <= *inlen)
/* minimal (DER) length octets: the number consumed is the one the encoder would produce */
ENSURES(RET == 1 IMPLIES DER_CONSUMED(inlen) == DER_LEN_SZ(*len))
;

/* ------------------------------------------------------------------ generic TLV */
int asn1_header_to_der(int tag, size_t dlen, uint8_t **out, size_t *outlen)
REQUIRES(dlen <= (size_t)INT_MAX && DER_WR_REQ(out, outlen, 1 + DER_LEN_SZ(dlen)))
ASSIGNS(*outlen; out != NULL: *out; out != NULL && *out != NULL: OBJ_UPTO(*out, 1 + DER_LEN_SZ(dlen)))
ENSURES(RET == 1)
ENSURES(DER_WR_ADV(out, outlen, 1 + DER_LEN_SZ(dlen)))
;

int asn1_type_to_der(int tag, const uint8_t *d, size_t dlen, uint8_t **out, size_t *outlen)
REQUIRES(dlen <= (size_t)INT_MAX - 8 && (d == NULL || RD_OK(d, dlen)) && DER_WR_REQ(out, outlen, DER_TLV_SZ(dlen)))
REQUIRES(d == NULL || out == NULL || *out == NULL || SEPARATE(d, *out))
ASSIGNS(*outlen; out != NULL: *out; out != NULL && *out != NULL: OBJ_UPTO(*out, DER_TLV_SZ(dlen)))
ENSURES(RET == 1 || RET == 0 || RET == -1)
ENSURES((RET == 1) == (d != NULL))
ENSURES(RET == 0 IMPLIES dlen == 0)
ENSURES(RET == 1 IMPLIES DER_WR_ADV(out, outlen, DER_TLV_SZ(dlen)))
ENSURES(RET != 1 IMPLIES DER_WR_SAME(out, outlen))
;

int asn1_type_from_der(int tag, const uint8_t **d, size_t *dlen, const uint8_t **in, size_t *inlen)
REQUIRES(WR_OK(d, sizeof(*d)) && WR_OK(dlen, sizeof(*dlen)) && DER_RD_REQ(in, inlen))
ASSIGNS(*d, *dlen, *in, *inlen)
ENSURES(RET == 1 || RET == 0 || RET == -1)
ENSURES(RET == 0 IMPLIES DER_RD_SAME(in, inlen) && *d == NULL && *dlen == 0)
ENSURES(RET == 1 IMPLIES DER_RD_ADV(in, inlen) && *dlen <= DER_CONSUMED(inlen) && DER_CONSUMED(inlen) == DER_TLV_SZ(*dlen) && DER_SLICE(*d, in, inlen, DER_CONSUMED(inlen) - *dlen))
;

int asn1_nonempty_type_from_der(int tag, const uint8_t **d, size_t *dlen, const uint8_t **in, size_t *inlen)
REQUIRES(WR_OK(d, sizeof(*d)) && WR_OK(dlen, sizeof(*dlen)) && DER_RD_REQ(in, inlen))
ASSIGNS(*d, *dlen, *in, *inlen)
ENSURES(RET == 1 || RET == 0 || RET == -1)
ENSURES(RET == 0 IMPLIES DER_RD_SAME(in, inlen) && *d == NULL && *dlen == 0)
ENSURES(RET == 1 IMPLIES DER_RD_ADV(in, inlen) && *dlen > 0 && *dlen <= DER_CONSUMED(inlen) && DER_CONSUMED(inlen) == DER_TLV_SZ(*dlen) && DER_SLICE(*d, in, inlen, DER_CONSUMED(inlen) - *dlen))
;

int asn1_nonempty_type_to_der(int tag, const uint8_t *d, size_t dlen, uint8_t **out, size_t *outlen)
REQUIRES(dlen <= (size_t)INT_MAX - 8 && (d == NULL || RD_OK(d, dlen)) && DER_WR_REQ(out, outlen, DER_TLV_SZ(dlen)))
REQUIRES(d == NULL || out == NULL || *out == NULL || SEPARATE(d, *out))
ASSIGNS(*outlen; out != NULL: *out; out != NULL && *out != NULL: OBJ_UPTO(*out, DER_TLV_SZ(dlen)))
ENSURES(RET == 1 || RET == 0 || RET == -1)
ENSURES((RET == 1) == (d != NULL && dlen != 0))
ENSURES(RET == 1 IMPLIES DER_WR_ADV(out, outlen, DER_TLV_SZ(dlen)))
ENSURES(RET != 1 IMPLIES DER_WR_SAME(out, outlen))
;

int asn1_any_type_from_der(int *tag, const uint8_t **d, size_t *dlen, const uint8_t **in, size_t *inlen)
REQUIRES(WR_OK(tag, sizeof(*tag)) && WR_OK(d, sizeof(*d)) && WR_OK(dlen, sizeof(*dlen)) && DER_RD_REQ(in, inlen))
ASSIGNS(*tag, *d, *dlen, *in, *inlen)
ENSURES(RET == 1 || RET == 0 || RET == -1)
ENSURES(RET == 0 IMPLIES DER_RD_SAME(in, inlen) && *d == NULL && *dlen == 0 && OLD(*inlen) == 0)
ENSURES(RET == 1 IMPLIES DER_RD_ADV(in, inlen) && *dlen <= DER_CONSUMED(inlen) && DER_CONSUMED(inlen) == DER_TLV_SZ(*dlen) && DER_SLICE(*d, in, inlen, DER_CONSUMED(inlen) - *dlen)
	&& 0 <= *tag && *tag <= 255)
;

int asn1_any_from_der(const uint8_t **a, size_t *alen, const uint8_t **in, size_t *inlen)
REQUIRES(WR_OK(a, sizeof(*a)) && WR_OK(alen, sizeof(*alen)) && DER_RD_REQ(in, inlen))
ASSIGNS(*a, *alen, *in, *inlen)
ENSURES(RET == 1 || RET == 0 || RET == -1)
ENSURES(RET == 0 IMPLIES DER_RD_SAME(in, inlen))
ENSURES(RET == 1 IMPLIES DER_RD_ADV(in, inlen) && DER_SLICE(*a, in, inlen, 0) && *alen == DER_CONSUMED(inlen) && *alen >= 2)
;

/* ------------------------------------------------------------------ BOOLEAN */
int asn1_boolean_to_der_ex(int tag, int val, uint8_t **out, size_t *outlen)
REQUIRES(DER_WR_REQ(out, outlen, 3))
ASSIGNS(*outlen; out != NULL: *out; out != NULL && *out != NULL: OBJ_UPTO(*out, 3))
ENSURES(RET == 1 || RET == 0)
ENSURES((RET == 1) == (val >= 0))
ENSURES(RET == 1 IMPLIES DER_WR_ADV(out, outlen, 3))
ENSURES(RET != 1 IMPLIES DER_WR_SAME(out, outlen))
;

int asn1_boolean_from_der_ex(int tag, int *val, const uint8_t **in, size_t *inlen)
REQUIRES(WR_OK(val, sizeof(*val)) && DER_RD_REQ(in, inlen))
ASSIGNS(*val, *in, *inlen)
ENSURES(RET == 1 || RET == 0 || RET == -1)
ENSURES(RET == 0 IMPLIES DER_RD_SAME(in, inlen) && *val == -1)
ENSURES(RET == 1 IMPLIES DER_RD_ADV(in, inlen) && DER_CONSUMED(inlen) == 3 && (*val == 0 || *val == 1))
;

/* ------------------------------------------------------------------ INTEGER (non-negative, big-endian magnitude) */
int asn1_integer_from_der_ex(int tag, const uint8_t **a, size_t *alen, const uint8_t **in, size_t *inlen)
REQUIRES(WR_OK(a, sizeof(*a)) && WR_OK(alen, sizeof(*alen)) && DER_RD_REQ(in, inlen))
ASSIGNS(*a, *alen, *in, *inlen)
ENSURES(RET == 1 || RET == 0 || RET == -1)
ENSURES(RET == 0 IMPLIES DER_RD_SAME(in, inlen) && *a == NULL && *alen == 0)
/* the magnitude slice: non-empty, ends where the window now starts, no redundant leading zero;
   the content was either the slice itself (top bit clear) or 00 || slice (top bit set)  */
ENSURES(RET == 1 IMPLIES DER_RD_ADV(in, inlen) && *alen >= 1 && *alen <= DER_CONSUMED(inlen)
	&& DER_SLICE(*a, in, inlen, DER_CONSUMED(inlen) - *alen))
ENSURES(RET == 1 IMPLIES ((*a)[0] != 0 || *alen == 1))
ENSURES(RET == 1 IMPLIES (DER_CONSUMED(inlen) == DER_TLV_SZ(*alen + (((*a)[0] & 0x80) ? 1 : 0))))
;

int asn1_integer_to_der_ex(int tag, const uint8_t *a, size_t alen, uint8_t **out, size_t *outlen)
REQUIRES(alen <= (size_t)INT_MAX - 8 && (a == NULL || (alen >= 1 && RD_OK(a, alen))) && DER_WR_REQ(out, outlen, DER_TLV_SZ(alen + 1)))
REQUIRES(a == NULL || out == NULL || *out == NULL || SEPARATE(a, *out))
ASSIGNS(*outlen; out != NULL: *out; out != NULL && *out != NULL: OBJ_UPTO(*out, DER_TLV_SZ(alen + 1)))
ENSURES(RET == 1 || RET == 0 || RET == -1)
ENSURES((RET == 1) == (a != NULL))
ENSURES(RET == 1 IMPLIES *outlen - OLD(*outlen) >= 3 && *outlen - OLD(*outlen) <= DER_TLV_SZ(alen + 1))
ENSURES(RET == 1 IMPLIES DER_WR_ADV_VAR(out, outlen, DER_TLV_SZ(alen + 1)))
ENSURES(RET != 1 IMPLIES DER_WR_SAME(out, outlen))
;

int asn1_int_from_der_ex(int tag, int *a, const uint8_t **in, size_t *inlen)
REQUIRES(WR_OK(a, sizeof(*a)) && DER_RD_REQ(in, inlen))
ASSIGNS(*a, *in, *inlen)
ENSURES(RET == 1 || RET == 0 || RET == -1)
ENSURES(RET == 0 IMPLIES DER_RD_SAME(in, inlen) && *a == -1)
ENSURES(RET == 1 IMPLIES DER_RD_ADV(in, inlen) && *a >= 0 && DER_CONSUMED(inlen) >= 3 && DER_CONSUMED(inlen) <= 6)
;

int asn1_int_to_der_ex(int tag, int a, uint8_t **out, size_t *outlen)
REQUIRES(a >= -1 && DER_WR_REQ(out, outlen, 6))
ASSIGNS(*outlen; out != NULL: *out; out != NULL && *out != NULL: OBJ_UPTO(*out, 6))
ENSURES(RET == 1 || RET == 0 || RET == -1)
ENSURES((RET == 1) == (a != -1))
ENSURES(RET == 1 IMPLIES *outlen - OLD(*outlen) >= 3 && *outlen - OLD(*outlen) <= 6)
ENSURES(RET == 1 IMPLIES DER_WR_ADV_VAR(out, outlen, 6))
ENSURES(RET != 1 IMPLIES DER_WR_SAME(out, outlen))
;

/* ------------------------------------------------------------------ BIT STRING */
int asn1_bit_string_from_der_ex(int tag, const uint8_t **bits, size_t *nbits, const uint8_t **in, size_t *inlen)
REQUIRES(WR_OK(bits, sizeof(*bits)) && WR_OK(nbits, sizeof(*nbits)) && DER_RD_REQ(in, inlen))
ASSIGNS(*bits, *nbits, *in, *inlen)
ENSURES(RET == 1 || RET == 0 || RET == -1)
ENSURES(RET == 0 IMPLIES DER_RD_SAME(in, inlen) && *bits == NULL && *nbits == 0)
ENSURES(RET == 1 IMPLIES DER_RD_ADV(in, inlen) && *nbits >= 1
	&& (*nbits + 7) / 8 <= DER_CONSUMED(inlen) && DER_SLICE(*bits, in, inlen, DER_CONSUMED(inlen) - (*nbits + 7) / 8) && DER_CONSUMED(inlen) == DER_TLV_SZ((*nbits + 7) / 8 + 1))
;

int asn1_bit_octets_from_der_ex(int tag, const uint8_t **octs, size_t *nocts, const uint8_t **in, size_t *inlen)
REQUIRES(WR_OK(octs, sizeof(*octs)) && WR_OK(nocts, sizeof(*nocts)) && DER_RD_REQ(in, inlen))
ASSIGNS(*octs, *nocts, *in, *inlen)
ENSURES(RET == 1 || RET == 0 || RET == -1)
ENSURES(RET == 0 IMPLIES DER_RD_SAME(in, inlen) && *octs == NULL && *nocts == 0)
ENSURES(RET == 1 IMPLIES DER_RD_ADV(in, inlen) && *nocts >= 1
	&& *nocts <= DER_CONSUMED(inlen) && DER_SLICE(*octs, in, inlen, DER_CONSUMED(inlen) - *nocts) && DER_CONSUMED(inlen) == DER_TLV_SZ(*nocts + 1))
;

int asn1_bit_string_to_der_ex(int tag, const uint8_t *bits, size_t nbits, uint8_t **out, size_t *outlen)
REQUIRES(nbits <= ((size_t)INT_MAX - 16) && (bits == NULL || RD_OK(bits, (nbits + 7) / 8)) && DER_WR_REQ(out, outlen, DER_TLV_SZ((nbits + 7) / 8 + 1)))
REQUIRES(bits == NULL || out == NULL || *out == NULL || SEPARATE(bits, *out))
ASSIGNS(*outlen; out != NULL: *out; out != NULL && *out != NULL: OBJ_UPTO(*out, DER_TLV_SZ((nbits + 7) / 8 + 1)))
ENSURES(RET == 1 || RET == 0 || RET == -1)
ENSURES((RET == 1) == (bits != NULL))
ENSURES(RET == 1 IMPLIES DER_WR_ADV(out, outlen, DER_TLV_SZ((nbits + 7) / 8 + 1)))
ENSURES(RET != 1 IMPLIES DER_WR_SAME(out, outlen))
;

int asn1_bit_octets_to_der_ex(int tag, const uint8_t *octs, size_t nocts, uint8_t **out, size_t *outlen)
REQUIRES(nocts <= ((size_t)INT_MAX - 16) / 8 && (octs == NULL || RD_OK(octs, nocts)) && DER_WR_REQ(out, outlen, DER_TLV_SZ(nocts + 1)))
REQUIRES(octs == NULL || out == NULL || *out == NULL || SEPARATE(octs, *out))
ASSIGNS(*outlen; out != NULL: *out; out != NULL && *out != NULL: OBJ_UPTO(*out, DER_TLV_SZ(nocts + 1)))
ENSURES(RET == 1 || RET == 0 || RET == -1)
ENSURES((RET == 1) == (octs != NULL))
ENSURES(RET == 1 IMPLIES DER_WR_ADV(out, outlen, DER_TLV_SZ(nocts + 1)))
ENSURES(RET != 1 IMPLIES DER_WR_SAME(out, outlen))
;

int asn1_bits_from_der_ex(int tag, int *bits, const uint8_t **in, size_t *inlen)
REQUIRES(WR_OK(bits, sizeof(*bits)) && DER_RD_REQ(in, inlen))
ASSIGNS(*bits, *in, *inlen)
ENSURES(RET == 1 || RET == 0 || RET == -1)
ENSURES(RET == 0 IMPLIES DER_RD_SAME(in, inlen) && *bits == -1)
ENSURES(RET == 1 IMPLIES DER_RD_ADV(in, inlen) && *bits >= 0 && DER_CONSUMED(inlen) >= 4 && DER_CONSUMED(inlen) <= 7)
;

int asn1_bits_to_der_ex(int tag, int bits, uint8_t **out, size_t *outlen)
REQUIRES(DER_WR_REQ(out, outlen, 7))
ASSIGNS(*outlen; out != NULL: *out; out != NULL && *out != NULL: OBJ_UPTO(*out, 7))
ENSURES(RET == 1 || RET == 0 || RET == -1)
ENSURES((RET == 1) == (bits >= 0))
ENSURES(RET == 1 IMPLIES *outlen - OLD(*outlen) >= 4 && *outlen - OLD(*outlen) <= 7)
ENSURES(RET == 1 IMPLIES DER_WR_ADV_VAR(out, outlen, 7))
ENSURES(RET != 1 IMPLIES DER_WR_SAME(out, outlen))
;

/* ------------------------------------------------------------------ NULL */
int asn1_null_to_der(uint8_t **out, size_t *outlen)
REQUIRES(DER_WR_REQ(out, outlen, 2))
ASSIGNS(*outlen; out != NULL: *out; out != NULL && *out != NULL: OBJ_UPTO(*out, 2))
ENSURES(RET == 1)
ENSURES(DER_WR_ADV(out, outlen, 2))
;

int asn1_null_from_der(const uint8_t **in, size_t *inlen)
REQUIRES(DER_RD_REQ(in, inlen))
ASSIGNS(*in, *inlen)
ENSURES(RET == 1 || RET == 0 || RET == -1)
ENSURES(RET == 0 IMPLIES DER_RD_SAME(in, inlen))
ENSURES(RET == 1 IMPLIES DER_RD_ADV(in, inlen) && DER_CONSUMED(inlen) == 2)
;

/* ------------------------------------------------------------------ OBJECT IDENTIFIER */
#ifdef VERIF_CBMC
#define OID_B128_SZ(a) ((size_t)1 + (size_t)((a) >= 128u) + (size_t)((a) >= 16384u) + (size_t)((a) >= 2097152u) + (size_t)((a) >= 268435456u))
#endif
static void asn1_oid_node_to_base128(uint32_t a, uint8_t **out, size_t *outlen)
REQUIRES(WR_OK(outlen, sizeof(*outlen)) && WR_OK(out, sizeof(*out)) && (*out == NULL || WR_OK(*out, OID_B128_SZ(a))))
ASSIGNS(*outlen, *out; *out != NULL: OBJ_UPTO(*out, OID_B128_SZ(a)))
ENSURES(*outlen == OLD(*outlen) + OID_B128_SZ(a))
ENSURES(OLD(*out) == NULL ? *out == NULL : (PTR_IN(OLD(*out), *out, OLD(*out) + OID_B128_SZ(a)) && *out == OLD(*out) + OID_B128_SZ(a)))
;

/* one base-128 arc: at most 5 octets, value fits 32 bits, at least one octet consumed */
static int asn1_oid_node_from_base128(uint32_t *a, const uint8_t **in, size_t *inlen)
REQUIRES(WR_OK(a, sizeof(*a)) && WR_OK(in, sizeof(*in)) && WR_OK(inlen, sizeof(*inlen)) && *in != NULL && RD_OK(*in, *inlen))
ASSIGNS(*a, *in, *inlen)
ENSURES(RET == 1 || RET == -1)
ENSURES(RET == 1 IMPLIES DER_RD_ADV(in, inlen) && DER_CONSUMED(inlen) >= 1 && DER_CONSUMED(inlen) <= 5)
;

int asn1_object_identifier_to_octets(const uint32_t *nodes, size_t nodes_cnt, uint8_t *out, size_t *outlen)
REQUIRES(WR_OK(outlen, sizeof(*outlen)) && nodes_cnt <= 64 && (nodes == NULL || RD_OK(nodes, nodes_cnt * sizeof(uint32_t))))
/* capacity taken from the only in-library caller: uint8_t octets[ASN1_OID_MAX_OCTETS] */
REQUIRES(out == NULL || WR_OK(out, ASN1_OID_MAX_OCTETS))
ASSIGNS(*outlen; out != NULL: OBJ_UPTO(out, ASN1_OID_MAX_OCTETS))
ENSURES(RET == 1 || RET == -1)
ENSURES((RET == 1) == (nodes != NULL && nodes_cnt >= ASN1_OID_MIN_NODES && nodes_cnt <= ASN1_OID_MAX_NODES))
ENSURES(RET == 1 IMPLIES *outlen >= 1 && *outlen <= ASN1_OID_MAX_OCTETS)
;

/* C06: never more than ASN1_OID_MAX_NODES arcs are written to nodes[]; C14: count in [2, 32] */
int asn1_object_identifier_from_octets(uint32_t *nodes, size_t *nodes_cnt, const uint8_t *in, size_t inlen)
REQUIRES(WR_OK(nodes_cnt, sizeof(*nodes_cnt)) && (nodes == NULL || WR_OK(nodes, ASN1_OID_MAX_NODES * sizeof(uint32_t))))
REQUIRES(in != NULL && RD_OK(in, inlen) && inlen <= (size_t)INT_MAX)
ASSIGNS(*nodes_cnt; nodes != NULL: OBJ_UPTO((uint8_t *)nodes, ASN1_OID_MAX_NODES * sizeof(uint32_t)))
ENSURES(RET == 1 || RET == -1)
ENSURES(RET == 1 IMPLIES *nodes_cnt >= ASN1_OID_MIN_NODES && *nodes_cnt <= ASN1_OID_MAX_NODES)
ENSURES(inlen == 0 IMPLIES RET == -1)
;

int asn1_object_identifier_to_der_ex(int tag, const uint32_t *nodes, size_t nodes_cnt, uint8_t **out, size_t *outlen)
REQUIRES(nodes_cnt <= 64 && (nodes == NULL || RD_OK(nodes, nodes_cnt * sizeof(uint32_t))) && DER_WR_REQ(out, outlen, 2 + ASN1_OID_MAX_OCTETS))
ASSIGNS(*outlen; out != NULL: *out; out != NULL && *out != NULL: OBJ_UPTO(*out, 2 + ASN1_OID_MAX_OCTETS))
ENSURES(RET == 1 || RET == 0 || RET == -1)
ENSURES(RET == 1 IMPLIES *outlen - OLD(*outlen) >= 3 && *outlen - OLD(*outlen) <= 2 + ASN1_OID_MAX_OCTETS)
ENSURES(RET == 1 IMPLIES (out == NULL || (OLD(*out) == NULL ? *out == NULL :
	(PTR_IN(OLD(*out), *out, OLD(*out) + 2 + ASN1_OID_MAX_OCTETS) && *out == OLD(*out) + (*outlen - OLD(*outlen))))))
ENSURES(RET != 1 IMPLIES DER_WR_SAME(out, outlen))
;

int asn1_object_identifier_from_der_ex(int tag, uint32_t *nodes, size_t *nodes_cnt, const uint8_t **in, size_t *inlen)
REQUIRES(WR_OK(nodes_cnt, sizeof(*nodes_cnt)) && WR_OK(nodes, ASN1_OID_MAX_NODES * sizeof(uint32_t)) && DER_RD_REQ(in, inlen))
ASSIGNS(*nodes_cnt, OBJ_UPTO((uint8_t *)nodes, ASN1_OID_MAX_NODES * sizeof(uint32_t)), *in, *inlen)
ENSURES(RET == 1 || RET == 0 || RET == -1)
ENSURES(RET == 0 IMPLIES DER_RD_SAME(in, inlen) && *nodes_cnt == 0)
ENSURES(RET == 1 IMPLIES DER_RD_ADV(in, inlen) && DER_CONSUMED(inlen) >= 3
	&& *nodes_cnt >= ASN1_OID_MIN_NODES && *nodes_cnt <= ASN1_OID_MAX_NODES)
;

int asn1_oid_info_from_der_ex(const ASN1_OID_INFO **info, uint32_t *nodes, size_t *nodes_cnt,
	const ASN1_OID_INFO *infos, size_t infos_cnt, const uint8_t **in, size_t *inlen)
REQUIRES(WR_OK(info, sizeof(*info)) && WR_OK(nodes_cnt, sizeof(*nodes_cnt)) && WR_OK(nodes, ASN1_OID_MAX_NODES * sizeof(uint32_t)) && DER_RD_REQ(in, inlen))
REQUIRES(infos_cnt <= 64 && RD_OK(infos, infos_cnt * sizeof(ASN1_OID_INFO)))
ASSIGNS(*info, *nodes_cnt, OBJ_UPTO((uint8_t *)nodes, ASN1_OID_MAX_NODES * sizeof(uint32_t)), *in, *inlen)
ENSURES(RET == 1 || RET == 0 || RET == -1)
ENSURES(RET == 0 IMPLIES DER_RD_SAME(in, inlen) && *info == NULL)
ENSURES(RET == 1 IMPLIES DER_RD_ADV(in, inlen) && DER_CONSUMED(inlen) >= 3
	&& *nodes_cnt >= ASN1_OID_MIN_NODES && *nodes_cnt <= ASN1_OID_MAX_NODES)
/* the entry returned is an element of the caller's table (or NULL: well-formed but unknown OID) */
ENSURES(RET == 1 IMPLIES (*info == NULL || (PTR_IN(infos, *info, infos + infos_cnt) && *info < infos + infos_cnt)))
;

int asn1_oid_info_from_der(const ASN1_OID_INFO **info, const ASN1_OID_INFO *infos, size_t count, const uint8_t **in, size_t *inlen)
REQUIRES(WR_OK(info, sizeof(*info)) && DER_RD_REQ(in, inlen) && count <= 64 && RD_OK(infos, count * sizeof(ASN1_OID_INFO)))
ASSIGNS(*info, *in, *inlen)
ENSURES(RET == 1 || RET == 0 || RET == -1)
ENSURES(RET == 0 IMPLIES DER_RD_SAME(in, inlen) && *info == NULL)
ENSURES(RET == 1 IMPLIES DER_RD_ADV(in, inlen) && DER_CONSUMED(inlen) >= 3
	&& PTR_IN(infos, *info, infos + count) && *info < infos + count)
;

/* ------------------------------------------------------------------ character strings */
#ifdef VERIF_CBMC
#define G_sk verif_gk
/* RFC 3629 structure of the UTF-8 sequence starting at p with n bytes available (lead byte class + 10xxxxxx continuations) */
#define UTF8_LEN(b)  (((b) & 0x80) == 0x00 ? 1 : (((b) & 0xe0) == 0xc0 ? 2 : (((b) & 0xf0) == 0xe0 ? 3 : (((b) & 0xf8) == 0xf0 ? 4 : 0))))
#define UTF8_CONT(b) (((b) & 0xc0) == 0x80)
#define IS_PRINTABLE(c) (((c) >= '0' && (c) <= '9') || ((c) >= 'a' && (c) <= 'z') || ((c) >= 'A' && (c) <= 'Z') || (c) == ' ' || (c) == '\'' \
	|| (c) == '(' || (c) == ')' || (c) == '+' || (c) == ',' || (c) == '-' || (c) == '.' || (c) == '/' || (c) == ':' || (c) == '=' || (c) == '?')
#endif
/* one UTF-8 character: accepted iff the lead byte announces 1..4 bytes, they are available, and every
   following byte is a continuation byte 10xxxxxx (C14: "every valid UTF-8 string") */
static int asn1_utf8char_from_bytes(uint32_t *c, const uint8_t **pin, size_t *pinlen)
REQUIRES(WR_OK(c, sizeof(*c)) && WR_OK(pin, sizeof(*pin)) && WR_OK(pinlen, sizeof(*pinlen)) && RD_OK(*pin, *pinlen))
ASSIGNS(*c, *pin, *pinlen)
ENSURES(RET == 1 || RET == 0 || RET == -1)
ENSURES(RET == 0 IMPLIES OLD(*pinlen) == 0)
ENSURES(RET != 1 IMPLIES DER_RD_SAME(pin, pinlen))
ENSURES(RET == 1 IMPLIES DER_RD_ADV(pin, pinlen) && DER_CONSUMED(pinlen) >= 1 && DER_CONSUMED(pinlen) <= 4)
ENSURES(RET == 1 IMPLIES DER_CONSUMED(pinlen) == UTF8_LEN(OLD(*pin)[0]))
ENSURES(RET == 1 IMPLIES (DER_CONSUMED(pinlen) < 2 || UTF8_CONT(OLD(*pin)[1])) && (DER_CONSUMED(pinlen) < 3 || UTF8_CONT(OLD(*pin)[2]))
	&& (DER_CONSUMED(pinlen) < 4 || UTF8_CONT(OLD(*pin)[3])))
/* completeness: a structurally valid sequence is accepted */
ENSURES((OLD(*pinlen) >= 1 && UTF8_LEN(OLD(*pin)[0]) >= 1 && OLD(*pinlen) >= (size_t)UTF8_LEN(OLD(*pin)[0])
	&& (UTF8_LEN(OLD(*pin)[0]) < 2 || UTF8_CONT(OLD(*pin)[1])) && (UTF8_LEN(OLD(*pin)[0]) < 3 || UTF8_CONT(OLD(*pin)[2]))
	&& (UTF8_LEN(OLD(*pin)[0]) < 4 || UTF8_CONT(OLD(*pin)[3]))) IMPLIES RET == 1)
;

int asn1_string_is_utf8_string(const char *a, size_t alen)
REQUIRES(alen <= (size_t)INT_MAX && (a == NULL || RD_OK(a, alen)))
ASSIGNS()
ENSURES(RET == 1 || RET == 0)
ENSURES(RET == 1 IMPLIES a != NULL && alen > 0)
;

int asn1_string_is_printable_string(const char *a, size_t alen)
REQUIRES(alen <= (size_t)INT_MAX && RD_OK(a, alen))
ASSIGNS()
ENSURES(RET == 1 || RET == 0)
#ifdef ASN1_STRING_CONTENT_POST   /* only where the function is enforced: as an assumed clause it blew the solver up (measured) */
ENSURES((RET == 1 && G_sk < alen) IMPLIES IS_PRINTABLE(a[G_sk]))
#endif
;

int asn1_string_is_ia5_string(const char *a, size_t alen)
REQUIRES(alen <= (size_t)INT_MAX && RD_OK(a, alen))
ASSIGNS()
ENSURES(RET == 1 || RET == 0)
ENSURES((RET == 1 && G_sk < alen) IMPLIES (a[G_sk] >= 0))
;

#define STRING_FROM_DER_CONTRACT(fn) \
int fn(int tag, const char **a, size_t *alen, const uint8_t **in, size_t *inlen) \
REQUIRES(WR_OK(a, sizeof(*a)) && WR_OK(alen, sizeof(*alen)) && DER_RD_REQ(in, inlen)) \
ASSIGNS(*a, *alen, *in, *inlen) \
ENSURES(RET == 1 || RET == 0 || RET == -1) \
ENSURES(RET == 0 IMPLIES DER_RD_SAME(in, inlen) && *a == NULL && *alen == 0) \
ENSURES(RET == 1 IMPLIES DER_RD_ADV(in, inlen) && *alen > 0 && *alen <= DER_CONSUMED(inlen) && DER_CONSUMED(inlen) == DER_TLV_SZ(*alen) \
	&& DER_SLICE(*(const uint8_t **)a, in, inlen, DER_CONSUMED(inlen) - *alen))
STRING_FROM_DER_CONTRACT(asn1_utf8_string_from_der_ex);
STRING_FROM_DER_CONTRACT(asn1_printable_string_from_der_ex);
STRING_FROM_DER_CONTRACT(asn1_ia5_string_from_der_ex);

/* ------------------------------------------------------------------ SEQUENCE OF INTEGER, element access */
/* C06: never more than max_nums values are stored */
int asn1_sequence_of_int_from_der(int *nums, size_t *nums_cnt, size_t max_nums, const uint8_t **in, size_t *inlen)
REQUIRES(max_nums <= 1024 && WR_OK(nums_cnt, sizeof(*nums_cnt)) && WR_OK(nums, max_nums * sizeof(int)) && DER_RD_REQ(in, inlen))
ASSIGNS(*nums_cnt, OBJ_UPTO((uint8_t *)nums, max_nums * sizeof(int)), *in, *inlen)
ENSURES(RET == 1 || RET == 0 || RET == -1)
ENSURES(RET == 0 IMPLIES DER_RD_SAME(in, inlen))
ENSURES(RET == 1 IMPLIES DER_RD_ADV(in, inlen) && *nums_cnt <= max_nums)
;

int asn1_types_get_count(const uint8_t *d, size_t dlen, int tag, size_t *cnt)
REQUIRES(dlen <= (size_t)INT_MAX && d != NULL && RD_OK(d, dlen) && WR_OK(cnt, sizeof(*cnt)))
ASSIGNS(*cnt)
ENSURES(RET == 1 || RET == -1)
ENSURES(RET == 1 IMPLIES *cnt <= dlen / 2)
;

int asn1_types_get_item_by_index(const uint8_t *d, size_t dlen, int tag, int index, const uint8_t **item_d, size_t *item_dlen)
REQUIRES(dlen <= (size_t)INT_MAX && d != NULL && RD_OK(d, dlen) && WR_OK(item_d, sizeof(*item_d)) && WR_OK(item_dlen, sizeof(*item_dlen)))
ASSIGNS(*item_d, *item_dlen)
ENSURES(RET == 1 || RET == -1)
/* whatever slice is returned lies inside [d, d+dlen) */
ENSURES(RET == 1 IMPLIES SLICE_IN(*item_d, *item_dlen, d, dlen))
;

/* C06: a diagnostic name lookup never indexes outside its table: result is NULL or a string constant */
const char *asn1_tag_name(int tag)
REQUIRES(1)
ASSIGNS()
ENSURES(1)
;

/* diagnostics printer reached from asn1_oid_info_from_der on the unknown-OID path */
int asn1_object_identifier_print(FILE *fp, int format, int indent, const char *label, const char *name,
	const uint32_t *nodes, size_t nodes_cnt)
REQUIRES(nodes == NULL || (nodes_cnt >= 1 && nodes_cnt <= ASN1_OID_MAX_NODES && RD_OK(nodes, nodes_cnt * sizeof(uint32_t))))
ASSIGNS()
ENSURES(RET == 1)
;

/* ------------------------------------------------------------------ small predicates */
int asn1_length_is_zero(size_t len)
ASSIGNS()
ENSURES(RET == (len == 0 ? 1 : -1))
;

int asn1_length_le(size_t len1, size_t len2)
ASSIGNS()
ENSURES(RET == (len1 <= len2 ? 1 : -1))
;

int asn1_check(int expr)
ASSIGNS()
ENSURES(RET == (expr ? 1 : -1))
;

#endif
