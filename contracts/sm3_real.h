/* Contracts for the REAL SM3 streaming code of src/sm3.c (C03): chunking invariance and padding.
 *
 * Virtual stream of a context = bytes compressed so far (seen only through the replaced sm3_compress_blocks, which records
 * the byte it was handed at ghost position G_tk) followed by the ctx->num pending bytes of ctx->block.
 *   VS_LEN(ctx)   = 64 * nblocks + num
 *   VS_AT(ctx, k) = k < G_cfed ? G_cbyte : ctx->block[k - G_cfed]          (G_cfed == 64 * nblocks is part of the invariant)
 * sm3_update appends exactly its input to the virtual stream for EVERY input length and every prior state; any partition of a
 * message into update calls is a chain of such steps, so the bytes compressed (and their order) do not depend on the chunking.
 * sm3_finish compresses pending || 0x80 || 0* || BE64(8 * VS_LEN) and outputs the state words big-endian. */
#ifndef CONTRACTS_SM3_REAL_H
#define CONTRACTS_SM3_REAL_H
#include "verif.h"
#include <gmssl/sm3.h>
#ifdef VERIF_CBMC
size_t G_tk;                       /* ghost stream position (free) */
uint64_t G_cfed; uint8_t G_cbyte; uint8_t G_cseen; unsigned G_ccalls;
#define SM3_INV(c)     ((c)->num < 64 && G_cfed == 64 * (c)->nblocks && (G_tk >= G_cfed || G_cseen == 1))
#define VS_LEN(c)      (64 * (c)->nblocks + (c)->num)
#define OLD_VS_LEN(c)  (64 * OLD((c)->nblocks) + OLD((c)->num))
#endif

/* records the byte at stream position G_tk if it lies in the range handed over */
void sm3_compress_blocks(uint32_t digest[8], const uint8_t *data, size_t blocks)
REQUIRES(RW_OK(digest, 32) && blocks <= ((size_t)1 << 50) && (blocks == 0 || RD_OK(data, 64 * blocks)))
ASSIGNS(OBJ_UPTO((uint8_t *)digest, 32), G_cfed, G_cbyte, G_cseen, G_ccalls)
ENSURES(G_cfed == OLD(G_cfed) + 64 * blocks && G_ccalls == OLD(G_ccalls) + 1)
ENSURES((OLD(G_cfed) <= G_tk && G_tk - OLD(G_cfed) < 64 * blocks) ? (G_cseen == 1 && G_cbyte == data[G_tk - OLD(G_cfed)]) : (G_cseen == OLD(G_cseen) && G_cbyte == OLD(G_cbyte)))
;

void sm3_update(SM3_CTX *ctx, const uint8_t *data, size_t data_len)
REQUIRES(RW_OK(ctx, sizeof(*ctx)) && data_len <= ((size_t)1 << 50) && (data_len == 0 || RD_OK(data, data_len)) && SM3_INV(ctx)
	/* no wrap-around of the byte count inside one call (messages up to 2^62 bytes) */ && ctx->nblocks <= ((uint64_t)1 << 56))
ASSIGNS(OBJ_UPTO((uint8_t *)ctx, sizeof(*ctx)), G_cfed, G_cbyte, G_cseen, G_ccalls)
ENSURES(SM3_INV(ctx))
ENSURES(VS_LEN(ctx) == OLD_VS_LEN(ctx) + data_len)
/* the new bytes are the input, in order */
ENSURES((G_tk >= OLD_VS_LEN(ctx) && G_tk < VS_LEN(ctx)) IMPLIES (G_tk < G_cfed ? G_cbyte : ctx->block[G_tk - G_cfed]) == data[G_tk - OLD_VS_LEN(ctx)])
;


#ifdef VERIF_CBMC
uint8_t G_blk0[64]; uint64_t G_nb0; size_t G_num0;      /* harness snapshot of the context at entry of sm3_finish */
#define FIN_L        (64 * G_nb0 + G_num0)
#define FIN_END      (64 * (G_nb0 + (G_num0 <= 55 ? 1 : 2)))
#define FIN_BYTE     (G_tk < G_cfed ? G_cbyte : 0)
#endif
/* padding per GB/T 32905: pending bytes || 0x80 || 0* || 64-bit big-endian BIT length; digest = state words big-endian */
void sm3_finish(SM3_CTX *ctx, uint8_t *digest)
REQUIRES(RW_OK(ctx, sizeof(*ctx)) && WR_OK(digest, 32) && SEPARATE(ctx, digest) && SM3_INV(ctx) && ctx->nblocks <= ((uint64_t)1 << 54)
	&& G_nb0 == ctx->nblocks && G_num0 == ctx->num)
ASSIGNS(OBJ_UPTO((uint8_t *)ctx, sizeof(*ctx)), OBJ_UPTO(digest, 32), G_cfed, G_cbyte, G_cseen, G_ccalls)
ENSURES(G_cfed == FIN_END)
ENSURES((G_tk >= 64 * G_nb0 && G_tk < FIN_END) IMPLIES G_cseen == 1)
ENSURES((G_tk >= 64 * G_nb0 && G_tk < FIN_L) IMPLIES G_cbyte == G_blk0[G_tk - 64 * G_nb0])
ENSURES(G_tk == FIN_L IMPLIES G_cbyte == 0x80)
ENSURES((G_tk > FIN_L && G_tk < FIN_END - 8) IMPLIES G_cbyte == 0)
ENSURES((G_tk >= FIN_END - 8 && G_tk < FIN_END) IMPLIES G_cbyte == (uint8_t)((8 * FIN_L) >> (8 * (FIN_END - 1 - G_tk))))
ENSURES(verif_gk < 8 IMPLIES (digest[4 * verif_gk] == (uint8_t)(ctx->digest[verif_gk] >> 24) && digest[4 * verif_gk + 1] == (uint8_t)(ctx->digest[verif_gk] >> 16)
	&& digest[4 * verif_gk + 2] == (uint8_t)(ctx->digest[verif_gk] >> 8) && digest[4 * verif_gk + 3] == (uint8_t)(ctx->digest[verif_gk])))
;
#endif
