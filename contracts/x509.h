/* Contracts for certificate profile checks and chain verification (src/x509_ext.c, src/x509_cer.c) — C07.
 * Truth tables are written from the property text (RFC 5280 profile as the toolkit uses it), not from the code. */
#ifndef CONTRACTS_X509_H
#define CONTRACTS_X509_H
#include "asn1.h"
#include <gmssl/x509.h>
#include <gmssl/x509_ext.h>
#include <gmssl/x509_cer.h>

#ifdef VERIF_CBMC
#define IS_ENTITY_TYPE(t) ((t) == X509_cert_server_auth || (t) == X509_cert_client_auth || (t) == X509_cert_server_key_encipher || (t) == X509_cert_client_key_encipher)
#define IS_CA_TYPE(t)     ((t) == X509_cert_ca || (t) == X509_cert_root_ca || (t) == X509_cert_crl_sign)
/* bit numbers of RFC 5280 4.2.1.3 */
#define KU_digitalSignature (1 << 0)
#define KU_keyEncipherment  (1 << 2)
#define KU_keyCertSign      (1 << 5)
#define KU_cRLSign          (1 << 6)
#endif

/* keyUsage present (bits != -1): RET 1 iff it fits the role */
int x509_key_usage_check(int bits, int cert_type)
/* bits comes from asn1_bits_from_der (>= 0) or is -1 (absent) */
REQUIRES(bits >= -1)
ASSIGNS()
ENSURES(RET == 1 || RET == 0 || RET == -1)
ENSURES((RET == 0) == (bits == -1))
ENSURES((RET == 1 && cert_type == X509_cert_ca) IMPLIES (bits & KU_keyCertSign) != 0)
ENSURES((RET == 1 && (cert_type == X509_cert_server_auth || cert_type == X509_cert_client_auth)) IMPLIES ((bits & KU_digitalSignature) != 0 && (bits & (KU_keyCertSign | KU_cRLSign)) == 0))
ENSURES((RET == 1 && (cert_type == X509_cert_server_key_encipher || cert_type == X509_cert_client_key_encipher)) IMPLIES ((bits & KU_keyEncipherment) != 0 && (bits & (KU_keyCertSign | KU_cRLSign)) == 0))
ENSURES((RET == 1 && cert_type == X509_cert_crl_sign) IMPLIES (bits & KU_cRLSign) != 0)
ENSURES(RET == 1 IMPLIES bits > 0)
/* completeness for the toolkit's own certificates */
ENSURES((bits > 0 && cert_type == X509_cert_ca && (bits & KU_keyCertSign) != 0) IMPLIES RET == 1)
ENSURES((bits > 0 && (cert_type == X509_cert_server_auth || cert_type == X509_cert_client_auth) && (bits & KU_digitalSignature) != 0 && (bits & (KU_keyCertSign | KU_cRLSign)) == 0) IMPLIES RET == 1)
ENSURES((bits > 0 && (cert_type == X509_cert_server_key_encipher || cert_type == X509_cert_client_key_encipher) && (bits & KU_keyEncipherment) != 0 && (bits & (KU_keyCertSign | KU_cRLSign)) == 0) IMPLIES RET == 1)
;

/* basicConstraints present: an issuing role needs cA = TRUE; an end-entity role must not be a CA and carries no pathLen */
int x509_basic_constraints_check(int ca, int path_len_constraint, int cert_type)
#ifdef CONTRACT_BC_RECORDING
ASSIGNS(verif_x_bc_calls, verif_x_bc_last_ca, verif_x_bc_last_ret)
ENSURES(verif_x_bc_calls == OLD(verif_x_bc_calls) + 1 && verif_x_bc_last_ca == ca && verif_x_bc_last_ret == RET)
#else
ASSIGNS()
#endif
ENSURES(RET == 1 || RET == -1)
ENSURES((RET == 1) == ((IS_CA_TYPE(cert_type) && ca == 1) || (IS_ENTITY_TYPE(cert_type) && ca <= 0 && path_len_constraint == -1)))
;

int x509_validity_check(time_t not_before, time_t not_after, time_t now, int max_secs)
/* times come from asn1_time_from_str (year <= 9999) or time() */
REQUIRES(not_before >= -1 && not_after >= -1 && now >= 0 && max_secs >= 0 && not_before <= ((time_t)1 << 40) && not_after <= ((time_t)1 << 40))
ASSIGNS()
ENSURES(RET == 1 || RET == -1)
ENSURES((RET == 1) == (not_before <= not_after && not_after - not_before <= (time_t)max_secs && not_before <= now && now <= not_after))
;

/* extKeyUsage present: RET 1 only if the purpose of the role is listed; CA roles never pass (no CA purpose in this profile) */
int x509_ext_key_usage_check(const int *oids, size_t oids_cnt, int cert_type)
REQUIRES(oids_cnt <= X509_MAX_KEY_PURPOSES && RD_OK(oids, oids_cnt * sizeof(int)))
ASSIGNS()
ENSURES(RET == 1 || RET == 0 || RET == -1)
ENSURES(RET == 1 IMPLIES oids_cnt >= 1 && IS_ENTITY_TYPE(cert_type))
;


#ifdef VERIF_CBMC
/* the extensions this profile recognises (RFC 5280 4.2.1.x as listed in the toolkit's profile) */
#define X509_EXT_RECOGNISED(o) ((o) == OID_ce_authority_key_identifier || (o) == OID_ce_subject_key_identifier || (o) == OID_ce_key_usage \
	|| (o) == OID_ce_certificate_policies || (o) == OID_ce_policy_mappings || (o) == OID_ce_subject_alt_name || (o) == OID_ce_issuer_alt_name \
	|| (o) == OID_ce_subject_directory_attributes || (o) == OID_ce_basic_constraints || (o) == OID_ce_ext_key_usage || (o) == OID_ce_name_constraints \
	|| (o) == OID_ce_policy_constraints || (o) == OID_ce_crl_distribution_points || (o) == OID_ce_inhibit_any_policy || (o) == OID_ce_freshest_crl)
#endif
/* one Extension: reader; records (sticky) whether an unrecognised extension marked critical was ever returned */
int x509_ext_from_der(int *oid, uint32_t *nodes, size_t *nodes_cnt, int *critical, const uint8_t **val, size_t *vlen, const uint8_t **in, size_t *inlen)
REQUIRES(WR_OK(oid, sizeof(int)) && WR_OK(nodes, 32 * sizeof(uint32_t)) && WR_OK(nodes_cnt, sizeof(size_t)) && WR_OK(critical, sizeof(int)) && WR_OK(val, sizeof(*val)) && WR_OK(vlen, sizeof(*vlen)) && DER_RD_REQ(in, inlen))
ASSIGNS(*oid, OBJ_UPTO((uint8_t *)nodes, 32 * sizeof(uint32_t)), *nodes_cnt, *critical, *val, *vlen, *in, *inlen, verif_x_unknown_critical)
ENSURES(RET == 1 || RET == 0 || RET == -1)
ENSURES(RET == 0 IMPLIES DER_RD_SAME(in, inlen))
ENSURES(RET == 1 IMPLIES DER_RD_ADV(in, inlen) && DER_CONSUMED(inlen) >= 2 && *vlen <= DER_CONSUMED(inlen) && DER_SLICE(*val, in, inlen, DER_CONSUMED(inlen) - *vlen)
	&& (*critical == -1 || *critical == 0 || *critical == 1) && *vlen <= (size_t)INT_MAX)
ENSURES(verif_x_unknown_critical == ((RET == 1 && !X509_EXT_RECOGNISED(*oid) && *critical == X509_critical) ? 1 : OLD(verif_x_unknown_critical)))
;

int x509_basic_constraints_from_der(int *ca, int *path_len_cons, const uint8_t **in, size_t *inlen)
REQUIRES(WR_OK(ca, sizeof(int)) && WR_OK(path_len_cons, sizeof(int)) && DER_RD_REQ(in, inlen))
ASSIGNS(*ca, *path_len_cons, *in, *inlen)
ENSURES(RET == 1 || RET == 0 || RET == -1)
ENSURES(RET == 0 IMPLIES DER_RD_SAME(in, inlen))
ENSURES(RET == 1 IMPLIES DER_RD_ADV(in, inlen) && *ca >= -1 && *ca <= 1 && *path_len_cons >= -1)
;

int x509_ext_key_usage_from_der(int *oids, size_t *oids_cnt, size_t max_cnt, const uint8_t **in, size_t *inlen)
REQUIRES(max_cnt <= 64 && WR_OK(oids, max_cnt * sizeof(int)) && WR_OK(oids_cnt, sizeof(size_t)) && DER_RD_REQ(in, inlen))
ASSIGNS(OBJ_UPTO((uint8_t *)oids, max_cnt * sizeof(int)), *oids_cnt, *in, *inlen)
ENSURES(RET == 1 || RET == 0 || RET == -1)
ENSURES(RET == 0 IMPLIES DER_RD_SAME(in, inlen))
ENSURES(RET == 1 IMPLIES DER_RD_ADV(in, inlen) && *oids_cnt <= max_cnt)
;

/* C07: the whole extension list fits the role: no unrecognised critical extension; each recognised value passed its check;
   and a certificate acting as issuer HAS a basicConstraints extension with cA = TRUE (absence is not acceptance) */
int x509_exts_check(const uint8_t *exts, size_t extslen, int cert_type, int *path_len_constraint)
REQUIRES(extslen <= (size_t)INT_MAX && (extslen == 0 || (exts != NULL && RD_OK(exts, extslen))) && WR_OK(path_len_constraint, sizeof(int)))
ASSIGNS(*path_len_constraint, verif_x_bc_calls, verif_x_bc_last_ca, verif_x_bc_last_ret, verif_x_unknown_critical)
ENSURES(RET == 1 || RET == -1)
ENSURES((RET == 1 && OLD(verif_x_unknown_critical) == 0) IMPLIES verif_x_unknown_critical == 0)
ENSURES((RET == 1 && IS_CA_TYPE(cert_type)) IMPLIES (verif_x_bc_last_ca == 1 && verif_x_bc_last_ret == 1))
ENSURES(RET == 1 IMPLIES *path_len_constraint >= -1)
;
#endif
