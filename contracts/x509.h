/* Contracts for certificate profile checks and chain verification (src/x509_ext.c, src/x509_cer.c) — C07.
 * Truth tables are written from the property text (RFC 5280 profile as the toolkit uses it), not from the code. */
#ifndef CONTRACTS_X509_H
#define CONTRACTS_X509_H
#include "asn1.h"
#include <gmssl/x509.h>
#include <gmssl/x509_ext.h>
#include <gmssl/x509_cer.h>

#ifdef VERIF_CBMC
#define IS_ENTITY_TYPE(t) ((t) == X509_cert_server_auth || (t) == X509_cert_client_auth || (t) == X509_cert_server_key_encipher || (t) == X509_cert_client_key_encipher)
#define IS_CA_TYPE(t)     ((t) == X509_cert_ca || (t) == X509_cert_root_ca || (t) == X509_cert_crl_sign)
/* bit numbers of RFC 5280 4.2.1.3 */
#define KU_digitalSignature (1 << 0)
#define KU_keyEncipherment  (1 << 2)
#define KU_keyCertSign      (1 << 5)
#define KU_cRLSign          (1 << 6)
#endif

/* keyUsage present (bits != -1): RET 1 iff it fits the role */
int x509_key_usage_check(int bits, int cert_type)
/* bits comes from asn1_bits_from_der (>= 0) or is -1 (absent) */
REQUIRES(bits >= -1)
ASSIGNS()
ENSURES(RET == 1 || RET == 0 || RET == -1)
ENSURES((RET == 0) == (bits == -1))
ENSURES((RET == 1 && cert_type == X509_cert_ca) IMPLIES (bits & KU_keyCertSign) != 0)
ENSURES((RET == 1 && (cert_type == X509_cert_server_auth || cert_type == X509_cert_client_auth)) IMPLIES ((bits & KU_digitalSignature) != 0 && (bits & (KU_keyCertSign | KU_cRLSign)) == 0))
ENSURES((RET == 1 && (cert_type == X509_cert_server_key_encipher || cert_type == X509_cert_client_key_encipher)) IMPLIES ((bits & KU_keyEncipherment) != 0 && (bits & (KU_keyCertSign | KU_cRLSign)) == 0))
ENSURES((RET == 1 && cert_type == X509_cert_crl_sign) IMPLIES (bits & KU_cRLSign) != 0)
ENSURES(RET == 1 IMPLIES bits > 0)
/* completeness for the toolkit's own certificates */
ENSURES((bits > 0 && cert_type == X509_cert_ca && (bits & KU_keyCertSign) != 0) IMPLIES RET == 1)
ENSURES((bits > 0 && (cert_type == X509_cert_server_auth || cert_type == X509_cert_client_auth) && (bits & KU_digitalSignature) != 0 && (bits & (KU_keyCertSign | KU_cRLSign)) == 0) IMPLIES RET == 1)
ENSURES((bits > 0 && (cert_type == X509_cert_server_key_encipher || cert_type == X509_cert_client_key_encipher) && (bits & KU_keyEncipherment) != 0 && (bits & (KU_keyCertSign | KU_cRLSign)) == 0) IMPLIES RET == 1)
;

/* basicConstraints present: an issuing role needs cA = TRUE; an end-entity role must not be a CA and carries no pathLen */
int x509_basic_constraints_check(int ca, int path_len_constraint, int cert_type)
#ifdef CONTRACT_BC_RECORDING
ASSIGNS(verif_x_bc_calls, verif_x_bc_last_ca, verif_x_bc_last_ret)
ENSURES(verif_x_bc_calls == OLD(verif_x_bc_calls) + 1 && verif_x_bc_last_ca == ca && verif_x_bc_last_ret == RET)
#else
ASSIGNS()
#endif
ENSURES(RET == 1 || RET == -1)
ENSURES((RET == 1) == ((IS_CA_TYPE(cert_type) && ca == 1) || (IS_ENTITY_TYPE(cert_type) && ca <= 0 && path_len_constraint == -1)))
;

#ifndef CONTRACT_VALIDITY_RECORDING
int x509_validity_check(time_t not_before, time_t not_after, time_t now, int max_secs)
/* times come from asn1_time_from_str (year <= 9999) or time() */
REQUIRES(not_before >= -1 && not_after >= -1 && now >= 0 && max_secs >= 0 && not_before <= ((time_t)1 << 40) && not_after <= ((time_t)1 << 40))
ASSIGNS()
ENSURES(RET == 1 || RET == -1)
ENSURES((RET == 1) == (not_before <= not_after && not_after - not_before <= (time_t)max_secs && not_before <= now && now <= not_after))
;
#endif

/* extKeyUsage present: RET 1 only if the purpose of the role is listed; CA roles never pass (no CA purpose in this profile) */
int x509_ext_key_usage_check(const int *oids, size_t oids_cnt, int cert_type)
REQUIRES(oids_cnt <= X509_MAX_KEY_PURPOSES && RD_OK(oids, oids_cnt * sizeof(int)))
ASSIGNS()
ENSURES(RET == 1 || RET == 0 || RET == -1)
ENSURES(RET == 1 IMPLIES oids_cnt >= 1 && IS_ENTITY_TYPE(cert_type))
;


#ifdef VERIF_CBMC
/* the extensions this profile recognises (RFC 5280 4.2.1.x as listed in the toolkit's profile) */
#define X509_EXT_RECOGNISED(o) ((o) == OID_ce_authority_key_identifier || (o) == OID_ce_subject_key_identifier || (o) == OID_ce_key_usage \
	|| (o) == OID_ce_certificate_policies || (o) == OID_ce_policy_mappings || (o) == OID_ce_subject_alt_name || (o) == OID_ce_issuer_alt_name \
	|| (o) == OID_ce_subject_directory_attributes || (o) == OID_ce_basic_constraints || (o) == OID_ce_ext_key_usage || (o) == OID_ce_name_constraints \
	|| (o) == OID_ce_policy_constraints || (o) == OID_ce_crl_distribution_points || (o) == OID_ce_inhibit_any_policy || (o) == OID_ce_freshest_crl)
#endif
/* one Extension: reader; records (sticky) whether an unrecognised extension marked critical was ever returned */
int x509_ext_from_der(int *oid, uint32_t *nodes, size_t *nodes_cnt, int *critical, const uint8_t **val, size_t *vlen, const uint8_t **in, size_t *inlen)
REQUIRES(WR_OK(oid, sizeof(int)) && WR_OK(nodes, 32 * sizeof(uint32_t)) && WR_OK(nodes_cnt, sizeof(size_t)) && WR_OK(critical, sizeof(int)) && WR_OK(val, sizeof(*val)) && WR_OK(vlen, sizeof(*vlen)) && DER_RD_REQ(in, inlen))
ASSIGNS(*oid, OBJ_UPTO((uint8_t *)nodes, 32 * sizeof(uint32_t)), *nodes_cnt, *critical, *val, *vlen, *in, *inlen, verif_x_unknown_critical)
ENSURES(RET == 1 || RET == 0 || RET == -1)
ENSURES(RET == 0 IMPLIES DER_RD_SAME(in, inlen))
ENSURES(RET == 1 IMPLIES DER_RD_ADV(in, inlen) && DER_CONSUMED(inlen) >= 2 && *vlen <= DER_CONSUMED(inlen) && DER_SLICE(*val, in, inlen, DER_CONSUMED(inlen) - *vlen)
	&& (*critical == -1 || *critical == 0 || *critical == 1) && *vlen <= (size_t)INT_MAX)
ENSURES(verif_x_unknown_critical == ((RET == 1 && !X509_EXT_RECOGNISED(*oid) && *critical == X509_critical) ? 1 : OLD(verif_x_unknown_critical)))
;

int x509_basic_constraints_from_der(int *ca, int *path_len_cons, const uint8_t **in, size_t *inlen)
REQUIRES(WR_OK(ca, sizeof(int)) && WR_OK(path_len_cons, sizeof(int)) && DER_RD_REQ(in, inlen))
ASSIGNS(*ca, *path_len_cons, *in, *inlen)
ENSURES(RET == 1 || RET == 0 || RET == -1)
ENSURES(RET == 0 IMPLIES DER_RD_SAME(in, inlen))
ENSURES(RET == 1 IMPLIES DER_RD_ADV(in, inlen) && *ca >= -1 && *ca <= 1 && *path_len_cons >= -1)
;

int x509_ext_key_usage_from_der(int *oids, size_t *oids_cnt, size_t max_cnt, const uint8_t **in, size_t *inlen)
REQUIRES(max_cnt <= 64 && WR_OK(oids, max_cnt * sizeof(int)) && WR_OK(oids_cnt, sizeof(size_t)) && DER_RD_REQ(in, inlen))
ASSIGNS(OBJ_UPTO((uint8_t *)oids, max_cnt * sizeof(int)), *oids_cnt, *in, *inlen)
ENSURES(RET == 1 || RET == 0 || RET == -1)
ENSURES(RET == 0 IMPLIES DER_RD_SAME(in, inlen))
ENSURES(RET == 1 IMPLIES DER_RD_ADV(in, inlen) && *oids_cnt <= max_cnt)
;

#ifndef CONTRACT_EXTS_RECORDING
/* C07: the whole extension list fits the role: no unrecognised critical extension; each recognised value passed its check;
   and a certificate acting as issuer HAS a basicConstraints extension with cA = TRUE (absence is not acceptance) */
int x509_exts_check(const uint8_t *exts, size_t extslen, int cert_type, int *path_len_constraint)
REQUIRES(extslen <= (size_t)INT_MAX && (extslen == 0 || (exts != NULL && RD_OK(exts, extslen))) && WR_OK(path_len_constraint, sizeof(int)))
ASSIGNS(*path_len_constraint, verif_x_bc_calls, verif_x_bc_last_ca, verif_x_bc_last_ret, verif_x_unknown_critical)
ENSURES(RET == 1 || RET == -1)
ENSURES((RET == 1 && OLD(verif_x_unknown_critical) == 0) IMPLIES verif_x_unknown_critical == 0)
ENSURES((RET == 1 && IS_CA_TYPE(cert_type)) IMPLIES (verif_x_bc_last_ca == 1 && verif_x_bc_last_ret == 1))
ENSURES(RET == 1 IMPLIES *path_len_constraint >= -1)
;
#endif

/* ------------------------------------------------------------------ chain verification (C07) */
#ifdef CONTRACT_CHAIN
#ifdef VERIF_CBMC
size_t G_lookup_store; size_t G_lookup_name; unsigned G_lookup_calls; size_t G_issuer_of; size_t G_issuer_name; unsigned G_issuer_calls;
#endif
/* one Certificate off the front of a concatenation */
int x509_cert_from_der(const uint8_t **a, size_t *alen, const uint8_t **in, size_t *inlen)
REQUIRES(WR_OK(a, sizeof(*a)) && WR_OK(alen, sizeof(*alen)) && DER_RD_REQ(in, inlen))
ASSIGNS(*a, *alen, *in, *inlen)
ENSURES(RET == 1 || RET == 0 || RET == -1)
ENSURES(RET == 0 IMPLIES DER_RD_SAME(in, inlen))
ENSURES(RET == 1 IMPLIES DER_RD_ADV(in, inlen) && DER_SLICE(*a, in, inlen, 0) && *alen == DER_CONSUMED(inlen) && *alen >= 2)
;
/* profile check of one certificate: records its position (call number), the role it was checked for, and, at the ghost position
   verif_c_ci, the pathLenConstraint it returned */
int x509_cert_check(const uint8_t *cert, size_t certlen, int cert_type, int *path_len_constraint)
REQUIRES(certlen <= (size_t)INT_MAX && RD_OK(cert, certlen) && WR_OK(path_len_constraint, sizeof(int)))
ASSIGNS(*path_len_constraint, verif_c_chk_calls, verif_c_chk_type0, verif_c_chk_type1, verif_c_chk_nonca, verif_c_plc_ci, verif_c_chk_last, verif_c_chk_first, verif_c_chk_second)
ENSURES(RET == 1 || RET == -1)
ENSURES(verif_c_chk_calls == OLD(verif_c_chk_calls) + 1 && verif_c_chk_last == (size_t)cert)
ENSURES(RET == 1 IMPLIES *path_len_constraint >= -1)
ENSURES(OLD(verif_c_chk_calls) == 0 ? (verif_c_chk_type0 == cert_type && verif_c_chk_first == (size_t)cert) : (verif_c_chk_type0 == OLD(verif_c_chk_type0) && verif_c_chk_first == OLD(verif_c_chk_first)))
ENSURES(OLD(verif_c_chk_calls) == 1 ? (verif_c_chk_type1 == cert_type && verif_c_chk_second == (size_t)cert) : (verif_c_chk_type1 == OLD(verif_c_chk_type1) && verif_c_chk_second == OLD(verif_c_chk_second)))
/* sticky: some certificate after the end-entity position(s) was checked for a role other than CA */
ENSURES(verif_c_chk_nonca == ((OLD(verif_c_chk_calls) >= CHAIN_LEAVES && cert_type != X509_cert_ca) ? 1 : OLD(verif_c_chk_nonca)))
ENSURES(OLD(verif_c_chk_calls) == verif_c_ci ? verif_c_plc_ci == *path_len_constraint : verif_c_plc_ci == OLD(verif_c_plc_ci))
;
/* issuer(child) == subject(parent) and the signature of child verifies under parent's key: records that the call was made on
   (child = the previous call's parent or the first checked certificate, parent = the certificate checked last), sticky 'bad' otherwise */
int x509_cert_verify_by_ca_cert(const uint8_t *a, size_t alen, const uint8_t *cacert, size_t cacertlen, const char *signer_id, size_t signer_id_len)
REQUIRES(alen <= (size_t)INT_MAX && RD_OK(a, alen) && cacertlen <= (size_t)INT_MAX && RD_OK(cacert, cacertlen))
ASSIGNS(verif_c_vfy_calls, verif_c_vfy_bad, verif_c_vfy_prev_parent, verif_c_vfy_second)
ENSURES(RET == 1 || RET == 0 || RET == -1)
ENSURES(verif_c_vfy_calls == OLD(verif_c_vfy_calls) + 1 && verif_c_vfy_prev_parent == (size_t)cacert)
/* sticky: the second end-entity certificate (TLCP encryption certificate) has been verified under an issuer */
ENSURES(verif_c_vfy_second == (((size_t)a == verif_c_chk_second && RET == 1) ? 1 : OLD(verif_c_vfy_second)))
ENSURES(verif_c_vfy_bad == (((size_t)cacert != verif_c_chk_last
	|| !((size_t)a == OLD(verif_c_vfy_prev_parent) || (size_t)a == verif_c_chk_first || (CHAIN_LEAVES == 2 && (size_t)a == verif_c_chk_second))
	|| signer_id_len != 16) ? 1 : OLD(verif_c_vfy_bad)))
;
int x509_cert_get_issuer(const uint8_t *a, size_t alen, const uint8_t **name, size_t *namelen)
REQUIRES(alen <= (size_t)INT_MAX && RD_OK(a, alen) && WR_OK(name, sizeof(*name)) && WR_OK(namelen, sizeof(*namelen)))
ASSIGNS(*name, *namelen, G_issuer_of, G_issuer_name, G_issuer_calls)
ENSURES(RET == 1 || RET == -1)
ENSURES(G_issuer_calls == OLD(G_issuer_calls) + 1 && G_issuer_of == (size_t)a)
ENSURES(RET == 1 IMPLIES SLICE_IN(*name, *namelen, a, alen) && G_issuer_name == (size_t)*name)
;
int x509_certs_get_cert_by_subject(const uint8_t *d, size_t dlen, const uint8_t *subject, size_t subject_len, const uint8_t **cert, size_t *certlen)
REQUIRES(dlen <= (size_t)INT_MAX && (dlen == 0 || RD_OK(d, dlen)) && subject_len <= (size_t)INT_MAX && RD_OK(subject, subject_len) && WR_OK(cert, sizeof(*cert)) && WR_OK(certlen, sizeof(*certlen)))
ASSIGNS(*cert, *certlen, G_lookup_store, G_lookup_name, G_lookup_calls)
ENSURES(RET == 1 || RET == 0 || RET == -1)
ENSURES(G_lookup_calls == OLD(G_lookup_calls) + 1 && G_lookup_store == (size_t)d && G_lookup_name == (size_t)subject)
/* the certificate returned is an element of the caller's store */
ENSURES(RET == 1 IMPLIES *certlen >= 2 && SLICE_IN(*cert, *certlen, d, dlen))
;
int x509_cert_print(FILE *fp, int fmt, int ind, const char *label, const uint8_t *a, size_t alen)
REQUIRES(alen <= (size_t)INT_MAX && RD_OK(a, alen))
ASSIGNS()
;

#define CHAIN_VERIFY_REQ \
REQUIRES(certslen <= (size_t)INT_MAX && certs != NULL && RD_OK(certs, certslen) && rootcertslen <= (size_t)INT_MAX && (rootcertslen == 0 || RD_OK(rootcerts, rootcertslen)) && depth >= 0 && depth <= 1000) \
REQUIRES(verif_c_chk_calls == 0 && verif_c_vfy_calls == 0 && verif_c_chk_nonca == 0 && verif_c_vfy_bad == 0 && verif_c_vfy_second == 0) \
ASSIGNS(verif_c_chk_calls, verif_c_chk_type0, verif_c_chk_type1, verif_c_chk_nonca, verif_c_plc_ci, verif_c_chk_last, verif_c_chk_first, verif_c_chk_second, \
	verif_c_vfy_calls, verif_c_vfy_bad, verif_c_vfy_prev_parent, verif_c_vfy_second, G_lookup_store, G_lookup_name, G_lookup_calls, G_issuer_of, G_issuer_name, G_issuer_calls)

/* C07, TLS form.  RET == 1 only if: the leaf was checked for the requested role; every further certificate (intermediates and
   the anchor) was checked as a CA; there is exactly one issuer/signature verification per link, each on (previous certificate,
   the certificate just checked), with the default signer ID; the anchor was looked up in the CALLER'S store by the issuer name
   of the top certificate; the first intermediate has pathLen 0, every CA's pathLen (when present) and the depth limit bound the
   number of CAs below it. */
int x509_certs_verify(const uint8_t *certs, size_t certslen, int certs_type, const uint8_t *rootcerts, size_t rootcertslen, int depth, int *verify_result)
CHAIN_VERIFY_REQ
ENSURES(RET == 1 || RET == -1)
ENSURES(RET == 1 IMPLIES (certs_type == X509_cert_chain_server && verif_c_chk_type0 == X509_cert_server_auth) || (certs_type == X509_cert_chain_client && verif_c_chk_type0 == X509_cert_client_auth))
ENSURES(RET == 1 IMPLIES verif_c_chk_first == (size_t)certs && verif_c_chk_nonca == 0 && verif_c_vfy_bad == 0)
ENSURES(RET == 1 IMPLIES verif_c_chk_calls >= 2 && verif_c_vfy_calls == verif_c_chk_calls - 1)
ENSURES(RET == 1 IMPLIES G_lookup_calls == OLD(G_lookup_calls) + 1 && G_lookup_store == (size_t)rootcerts && G_lookup_name == G_issuer_name && G_issuer_calls == OLD(G_issuer_calls) + 1)
/* path length rules at every CA position ci (1 .. chk_calls-1; the last one is the anchor) */
ENSURES((RET == 1 && verif_c_ci >= 1 && verif_c_ci + 1 < verif_c_chk_calls) IMPLIES ((verif_c_ci != 1 || verif_c_plc_ci == 0) && (verif_c_plc_ci < 0 || (int)verif_c_ci - 1 <= verif_c_plc_ci)))
ENSURES((RET == 1 && verif_c_ci + 1 == verif_c_chk_calls) IMPLIES (verif_c_plc_ci < 0 || (int)verif_c_chk_calls - 2 <= verif_c_plc_ci))
ENSURES(RET == 1 IMPLIES (int)verif_c_chk_calls - 2 <= depth)
;

/* C07, TLCP form: two end-entity certificates (signature, then encryption) followed by the CA path.  Same rules; in addition the
   roles are (auth, key-encipherment) OF THE REQUESTED SIDE, and the encryption certificate is verified under the first issuer. */
int x509_certs_verify_tlcp(const uint8_t *certs, size_t certslen, int certs_type, const uint8_t *rootcerts, size_t rootcertslen, int depth, int *verify_result)
CHAIN_VERIFY_REQ
ENSURES(RET == 1 || RET == -1)
ENSURES(RET == 1 IMPLIES (certs_type == X509_cert_chain_server && verif_c_chk_type0 == X509_cert_server_auth && verif_c_chk_type1 == X509_cert_server_key_encipher)
	|| (certs_type == X509_cert_chain_client && verif_c_chk_type0 == X509_cert_client_auth && verif_c_chk_type1 == X509_cert_client_key_encipher))
ENSURES(RET == 1 IMPLIES verif_c_chk_first == (size_t)certs && verif_c_chk_nonca == 0 && verif_c_vfy_bad == 0 && verif_c_vfy_second == 1)
ENSURES(RET == 1 IMPLIES verif_c_chk_calls >= 3 && verif_c_vfy_calls == verif_c_chk_calls - 1)
ENSURES(RET == 1 IMPLIES G_lookup_calls == OLD(G_lookup_calls) + 1 && G_lookup_store == (size_t)rootcerts && G_lookup_name == G_issuer_name && G_issuer_calls == OLD(G_issuer_calls) + 1)
ENSURES((RET == 1 && verif_c_ci >= 2 && verif_c_ci + 1 < verif_c_chk_calls) IMPLIES ((verif_c_ci != 2 || verif_c_plc_ci == 0) && (verif_c_plc_ci < 0 || (int)verif_c_ci - 2 <= verif_c_plc_ci)))
ENSURES((RET == 1 && verif_c_ci + 1 == verif_c_chk_calls) IMPLIES (verif_c_plc_ci < 0 || (int)verif_c_chk_calls - 3 <= verif_c_plc_ci))
ENSURES(RET == 1 IMPLIES (int)verif_c_chk_calls - 3 <= depth)
;
#endif

/* ------------------------------------------------------------------ per-certificate profile check (C07) */
#ifdef CONTRACT_CERT_CHECK
#ifdef VERIF_CBMC
int G_gd_version; size_t G_gd_serial; size_t G_gd_serial_len; int G_gd_tbs_alg; int G_gd_sig_alg; time_t G_gd_nb; time_t G_gd_na; size_t G_gd_exts; size_t G_gd_extslen; unsigned G_gd_calls;
time_t G_now; unsigned G_time_calls;
int G_vc_last; time_t G_vc_nb, G_vc_na, G_vc_now; unsigned G_vc_calls;
unsigned G_nc_calls; int G_nc_bad;
int G_ec_last; int G_ec_type; size_t G_ec_exts; size_t G_ec_extslen; unsigned G_ec_calls;
#endif
/* field extraction as used by x509_cert_check (the out-parameters it does not ask for are NULL) */
int x509_cert_get_details(const uint8_t *a, size_t alen, int *version, const uint8_t **serial_number, size_t *serial_number_len,
	int *inner_signature_algor, const uint8_t **issuer, size_t *issuer_len, time_t *not_before, time_t *not_after,
	const uint8_t **subject, size_t *subject_len, SM2_KEY *subject_public_key, const uint8_t **issuer_unique_id, size_t *issuer_unique_id_len,
	const uint8_t **subject_unique_id, size_t *subject_unique_id_len, const uint8_t **extensions, size_t *extensions_len,
	int *signature_algor, const uint8_t **signature, size_t *signature_len)
REQUIRES(alen <= (size_t)INT_MAX && RD_OK(a, alen) && version != NULL && serial_number != NULL && serial_number_len != NULL && inner_signature_algor != NULL
	&& issuer != NULL && issuer_len != NULL && not_before != NULL && not_after != NULL && subject != NULL && subject_len != NULL && subject_public_key == NULL
	&& issuer_unique_id == NULL && subject_unique_id == NULL && extensions != NULL && extensions_len != NULL && signature_algor != NULL && signature == NULL)
ASSIGNS(*version, *serial_number, *serial_number_len, *inner_signature_algor, *issuer, *issuer_len, *not_before, *not_after, *subject, *subject_len,
	*extensions, *extensions_len, *signature_algor, G_gd_version, G_gd_serial, G_gd_serial_len, G_gd_tbs_alg, G_gd_sig_alg, G_gd_nb, G_gd_na, G_gd_exts, G_gd_extslen, G_gd_calls)
ENSURES(RET == 1 || RET == -1)
ENSURES(G_gd_calls == OLD(G_gd_calls) + 1)
ENSURES(RET == 1 IMPLIES *not_before >= -1 && *not_after >= -1 && *not_before <= ((time_t)1 << 40) && *not_after <= ((time_t)1 << 40))
ENSURES(RET == 1 IMPLIES SLICE_IN(*issuer, *issuer_len, a, alen) && SLICE_IN(*subject, *subject_len, a, alen))
/* absent extensions: NULL; the pointer is always defined constructively (an integer cast of an unconstrained pointer is not stable in CBMC) */
ENSURES(RET == 1 IMPLIES (*extensions_len == 0 ? (*extensions == NULL || PTR_IN(a, *extensions, a + alen)) : SLICE_IN(*extensions, *extensions_len, a, alen)))
ENSURES(RET == 1 IMPLIES (*serial_number == NULL || PTR_IN(a, *serial_number, a + alen)))
/* recorded AFTER the constructive pointer clauses (pointer_in_range assigns the pointer) */
ENSURES(RET == 1 IMPLIES G_gd_version == *version && G_gd_serial == (size_t)*serial_number && G_gd_serial_len == *serial_number_len && G_gd_tbs_alg == *inner_signature_algor
	&& G_gd_sig_alg == *signature_algor && G_gd_nb == *not_before && G_gd_na == *not_after && G_gd_exts == (size_t)*extensions && G_gd_extslen == *extensions_len)
;
time_t time(time_t *t)
REQUIRES(t != NULL && WR_OK(t, sizeof(*t)))
ASSIGNS(*t, G_now, G_time_calls)
ENSURES(RET >= 0 && RET <= ((time_t)1 << 40) && *t == RET && G_now == RET && G_time_calls == OLD(G_time_calls) + 1)
;
#ifdef CONTRACT_VALIDITY_RECORDING
int x509_validity_check(time_t not_before, time_t not_after, time_t now, int max_secs)
REQUIRES(not_before >= -1 && not_after >= -1 && now >= 0 && max_secs >= 0 && not_before <= ((time_t)1 << 40) && not_after <= ((time_t)1 << 40))
ASSIGNS(G_vc_last, G_vc_nb, G_vc_na, G_vc_now, G_vc_calls)
ENSURES(RET == 1 || RET == -1)
ENSURES(G_vc_last == RET && G_vc_nb == not_before && G_vc_na == not_after && G_vc_now == now && G_vc_calls == OLD(G_vc_calls) + 1)
;
#endif
int x509_name_check(const uint8_t *d, size_t dlen)
REQUIRES(dlen <= (size_t)INT_MAX && (dlen == 0 || RD_OK(d, dlen)))
ASSIGNS(G_nc_calls, G_nc_bad)
ENSURES(RET == 1 || RET == -1)
ENSURES(G_nc_calls == OLD(G_nc_calls) + 1 && G_nc_bad == (RET != 1 ? 1 : OLD(G_nc_bad)))
;
#ifdef CONTRACT_EXTS_RECORDING
int x509_exts_check(const uint8_t *exts, size_t extslen, int cert_type, int *path_len_constraint)
REQUIRES(extslen <= (size_t)INT_MAX && (extslen == 0 || (exts != NULL && RD_OK(exts, extslen))) && WR_OK(path_len_constraint, sizeof(int)))
ASSIGNS(*path_len_constraint, G_ec_last, G_ec_type, G_ec_exts, G_ec_extslen, G_ec_calls)
ENSURES(RET == 1 || RET == -1)
ENSURES(G_ec_last == RET && G_ec_type == cert_type && G_ec_exts == (size_t)exts && G_ec_extslen == extslen && G_ec_calls == OLD(G_ec_calls) + 1)
ENSURES(RET == 1 IMPLIES *path_len_constraint >= -1)
;
#endif
/* C07: a certificate is accepted for a role only if it is v3 with a serial number, inside its validity period NOW (the clock is
   read in this call), has non-empty well-formed issuer and subject names, its extensions fit THAT role, and the inner and outer
   signature algorithm identifiers agree */
#ifndef CONTRACT_CHAIN
int x509_cert_check(const uint8_t *cert, size_t certlen, int cert_type, int *path_len_constraint)
REQUIRES(certlen <= (size_t)INT_MAX && RD_OK(cert, certlen) && WR_OK(path_len_constraint, sizeof(int)) && G_nc_bad == 0)
ASSIGNS(*path_len_constraint, G_gd_version, G_gd_serial, G_gd_serial_len, G_gd_tbs_alg, G_gd_sig_alg, G_gd_nb, G_gd_na, G_gd_exts, G_gd_extslen, G_gd_calls,
	G_now, G_time_calls, G_vc_last, G_vc_nb, G_vc_na, G_vc_now, G_vc_calls, G_nc_calls, G_nc_bad, G_ec_last, G_ec_type, G_ec_exts, G_ec_extslen, G_ec_calls)
ENSURES(RET == 1 || RET == -1)
ENSURES(RET == 1 IMPLIES G_gd_calls == OLD(G_gd_calls) + 1 && G_gd_version == X509_version_v3 && G_gd_serial != 0 && G_gd_serial_len != 0 && G_gd_tbs_alg == G_gd_sig_alg)
ENSURES(RET == 1 IMPLIES G_time_calls == OLD(G_time_calls) + 1 && G_vc_calls == OLD(G_vc_calls) + 1 && G_vc_last == 1 && G_vc_nb == G_gd_nb && G_vc_na == G_gd_na && G_vc_now == G_now)
ENSURES(RET == 1 IMPLIES G_nc_calls == OLD(G_nc_calls) + 2 && G_nc_bad == 0)
ENSURES(RET == 1 IMPLIES G_ec_calls == OLD(G_ec_calls) + 1 && G_ec_last == 1 && G_ec_type == cert_type)
ENSURES(RET == 1 IMPLIES G_ec_exts == G_gd_exts)
ENSURES(RET == 1 IMPLIES G_ec_extslen == G_gd_extslen)
ENSURES(RET == 1 IMPLIES *path_len_constraint >= -1)
;
#endif
#endif

/* ------------------------------------------------------------------ signed wrapper and link verification (C07, C15) */
#ifdef CONTRACT_SIGNED
#include <gmssl/sm2.h>
#ifdef VERIF_CBMC
size_t G_sf_tbs; size_t G_sf_tbslen; int G_sf_alg; size_t G_sf_sig; size_t G_sf_siglen; unsigned G_sf_calls;
size_t G_vi_key; size_t G_vi_id; size_t G_vi_idlen; int G_vi_ret; unsigned G_vi_calls;
size_t G_vu_data; size_t G_vu_len; int G_vu_ret; unsigned G_vu_calls;
size_t G_vf_sig; size_t G_vf_siglen; int G_vf_ret; unsigned G_vf_calls;
int G_ne_last; size_t G_ne_a; size_t G_ne_b; unsigned G_ne_calls;
int G_sv_last; size_t G_sv_a; size_t G_sv_ca; size_t G_sv_idlen; unsigned G_sv_calls;
size_t G_gs_of; size_t G_gs_name; unsigned G_gs_calls; size_t G_gi_of; size_t G_gi_name; unsigned G_gi_calls;
#endif
/* SEQUENCE { tbs ANY, signatureAlgorithm, signatureValue BIT STRING }: slices by position, content consumed entirely */
int x509_signed_from_der(const uint8_t **tbs, size_t *tbslen, int *sig_alg, const uint8_t **sig, size_t *siglen, const uint8_t **in, size_t *inlen)
REQUIRES(WR_OK(tbs, sizeof(*tbs)) && WR_OK(tbslen, sizeof(*tbslen)) && WR_OK(sig_alg, sizeof(int)) && WR_OK(sig, sizeof(*sig)) && WR_OK(siglen, sizeof(*siglen)) && DER_RD_REQ(in, inlen))
ASSIGNS(*tbs, *tbslen, *sig_alg, *sig, *siglen, *in, *inlen, G_sf_tbs, G_sf_tbslen, G_sf_alg, G_sf_sig, G_sf_siglen, G_sf_calls)
ENSURES(RET == 1 || RET == 0 || RET == -1)
ENSURES(RET == 0 IMPLIES DER_RD_SAME(in, inlen))
ENSURES(G_sf_calls == OLD(G_sf_calls) + 1)
ENSURES(RET == 1 IMPLIES DER_RD_ADV(in, inlen) && *tbslen >= 2 && *siglen >= 1 && SLICE_IN(*tbs, *tbslen, OLD(*in), OLD(*inlen)) && SLICE_IN(*sig, *siglen, OLD(*in), OLD(*inlen)))
ENSURES(RET == 1 IMPLIES G_sf_tbs == (size_t)*tbs && G_sf_tbslen == *tbslen && G_sf_alg == *sig_alg && G_sf_sig == (size_t)*sig && G_sf_siglen == *siglen)
;
int sm2_verify_init(SM2_VERIFY_CTX *ctx, const SM2_KEY *key, const char *id, size_t idlen)
REQUIRES(WR_OK(ctx, sizeof(*ctx)) && RD_OK(key, sizeof(*key)))
ASSIGNS(OBJ_UPTO((uint8_t *)ctx, sizeof(*ctx)), G_vi_key, G_vi_id, G_vi_idlen, G_vi_ret, G_vi_calls)
ENSURES((RET == 1 || RET == -1) && G_vi_key == (size_t)key && G_vi_id == (size_t)id && G_vi_idlen == idlen && G_vi_ret == RET && G_vi_calls == OLD(G_vi_calls) + 1)
;
int sm2_verify_update(SM2_VERIFY_CTX *ctx, const uint8_t *data, size_t datalen)
REQUIRES(RW_OK(ctx, sizeof(*ctx)) && (datalen == 0 || RD_OK(data, datalen)))
ASSIGNS(OBJ_UPTO((uint8_t *)ctx, sizeof(*ctx)), G_vu_data, G_vu_len, G_vu_ret, G_vu_calls)
ENSURES((RET == 1 || RET == -1) && G_vu_data == (size_t)data && G_vu_len == datalen && G_vu_ret == RET && G_vu_calls == OLD(G_vu_calls) + 1)
;
#ifdef CONTRACT_VERIFY_FINISH_RECORDING
int sm2_verify_finish(SM2_VERIFY_CTX *ctx, const uint8_t *sigbuf, size_t siglen)
REQUIRES(RW_OK(ctx, sizeof(*ctx)) && siglen <= (size_t)INT_MAX && (sigbuf == NULL || RD_OK(sigbuf, siglen)))
ASSIGNS(OBJ_UPTO((uint8_t *)ctx, sizeof(*ctx)), G_vf_sig, G_vf_siglen, G_vf_ret, G_vf_calls)
ENSURES((RET == 1 || RET == -1) && G_vf_sig == (size_t)sigbuf && G_vf_siglen == siglen && G_vf_ret == RET && G_vf_calls == OLD(G_vf_calls) + 1)
;
#endif
/* C15 / C07: a signed object verifies only if it is one SEQUENCE with nothing behind it, the outer algorithm is sm2sign-with-sm3,
   and the SM2 streaming verification — initialised with the GIVEN key and ID, fed EXACTLY the TBS bytes, finished on EXACTLY the
   signature bytes — returned 1 at every step */
int x509_signed_verify(const uint8_t *a, size_t alen, const SM2_KEY *pub_key, const char *signer_id, size_t signer_id_len)
REQUIRES(alen <= (size_t)INT_MAX && a != NULL && RD_OK(a, alen) && RD_OK(pub_key, sizeof(*pub_key)))
ASSIGNS(G_sf_tbs, G_sf_tbslen, G_sf_alg, G_sf_sig, G_sf_siglen, G_sf_calls, G_vi_key, G_vi_id, G_vi_idlen, G_vi_ret, G_vi_calls, G_vu_data, G_vu_len, G_vu_ret, G_vu_calls, G_vf_sig, G_vf_siglen, G_vf_ret, G_vf_calls)
ENSURES(RET == 1 || RET == -1)
ENSURES(RET == 1 IMPLIES G_sf_calls == OLD(G_sf_calls) + 1 && G_sf_alg == OID_sm2sign_with_sm3)
ENSURES(RET == 1 IMPLIES G_vi_calls == OLD(G_vi_calls) + 1 && G_vi_ret == 1 && G_vi_key == (size_t)pub_key && G_vi_id == (size_t)signer_id && G_vi_idlen == signer_id_len)
ENSURES(RET == 1 IMPLIES G_vu_calls == OLD(G_vu_calls) + 1 && G_vu_ret == 1 && G_vu_data == G_sf_tbs && G_vu_len == G_sf_tbslen)
ENSURES(RET == 1 IMPLIES G_vf_calls == OLD(G_vf_calls) + 1 && G_vf_ret == 1 && G_vf_sig == G_sf_sig && G_vf_siglen == G_sf_siglen)
;
#ifdef CONTRACT_LINK
int x509_cert_get_subject(const uint8_t *a, size_t alen, const uint8_t **d, size_t *dlen)
REQUIRES(alen <= (size_t)INT_MAX && RD_OK(a, alen) && WR_OK(d, sizeof(*d)) && WR_OK(dlen, sizeof(*dlen)))
ASSIGNS(*d, *dlen, G_gs_of, G_gs_name, G_gs_calls)
ENSURES(RET == 1 || RET == -1)
ENSURES(G_gs_calls == OLD(G_gs_calls) + 1 && G_gs_of == (size_t)a)
ENSURES(RET == 1 IMPLIES SLICE_IN(*d, *dlen, a, alen) && G_gs_name == (size_t)*d)
;
int x509_cert_get_issuer(const uint8_t *a, size_t alen, const uint8_t **name, size_t *namelen)
REQUIRES(alen <= (size_t)INT_MAX && RD_OK(a, alen) && WR_OK(name, sizeof(*name)) && WR_OK(namelen, sizeof(*namelen)))
ASSIGNS(*name, *namelen, G_gi_of, G_gi_name, G_gi_calls)
ENSURES(RET == 1 || RET == -1)
ENSURES(G_gi_calls == OLD(G_gi_calls) + 1 && G_gi_of == (size_t)a)
ENSURES(RET == 1 IMPLIES SLICE_IN(*name, *namelen, a, alen) && G_gi_name == (size_t)*name)
;
int x509_name_equ(const uint8_t *a, size_t alen, const uint8_t *b, size_t blen)
REQUIRES(alen <= (size_t)INT_MAX && blen <= (size_t)INT_MAX && (alen == 0 || RD_OK(a, alen)) && (blen == 0 || RD_OK(b, blen)))
ASSIGNS(G_ne_last, G_ne_a, G_ne_b, G_ne_calls)
ENSURES((RET == 1 || RET == 0) && G_ne_last == RET && G_ne_a == (size_t)a && G_ne_b == (size_t)b && G_ne_calls == OLD(G_ne_calls) + 1)
;
int x509_signed_verify_by_ca_cert(const uint8_t *a, size_t alen, const uint8_t *cacert, size_t cacertlen, const char *signer_id, size_t signer_id_len)
REQUIRES(alen <= (size_t)INT_MAX && RD_OK(a, alen) && cacertlen <= (size_t)INT_MAX && RD_OK(cacert, cacertlen))
ASSIGNS(G_sv_last, G_sv_a, G_sv_ca, G_sv_idlen, G_sv_calls)
ENSURES((RET == 1 || RET == 0 || RET == -1) && G_sv_last == RET && G_sv_a == (size_t)a && G_sv_ca == (size_t)cacert && G_sv_idlen == signer_id_len && G_sv_calls == OLD(G_sv_calls) + 1)
;
/* C07: "each certificate names the next one's subject as issuer and verifies under its public key" */
#ifndef CONTRACT_CHAIN
int x509_cert_verify_by_ca_cert(const uint8_t *a, size_t alen, const uint8_t *cacert, size_t cacertlen, const char *signer_id, size_t signer_id_len)
REQUIRES(alen <= (size_t)INT_MAX && RD_OK(a, alen) && cacertlen <= (size_t)INT_MAX && RD_OK(cacert, cacertlen))
ASSIGNS(G_gs_of, G_gs_name, G_gs_calls, G_gi_of, G_gi_name, G_gi_calls, G_ne_last, G_ne_a, G_ne_b, G_ne_calls, G_sv_last, G_sv_a, G_sv_ca, G_sv_idlen, G_sv_calls)
ENSURES(RET == 1 || RET == -1)
ENSURES(RET == 1 IMPLIES G_gi_calls == OLD(G_gi_calls) + 1 && G_gi_of == (size_t)a && G_gs_calls == OLD(G_gs_calls) + 1 && G_gs_of == (size_t)cacert)
ENSURES(RET == 1 IMPLIES G_ne_calls == OLD(G_ne_calls) + 1 && G_ne_last == 1 && ((G_ne_a == G_gi_name && G_ne_b == G_gs_name) || (G_ne_a == G_gs_name && G_ne_b == G_gi_name)))
ENSURES(RET == 1 IMPLIES G_sv_calls == OLD(G_sv_calls) + 1 && G_sv_last == 1 && G_sv_a == (size_t)a && G_sv_ca == (size_t)cacert && G_sv_idlen == signer_id_len)
;
#endif
#endif
#endif

/* ------------------------------------------------------------------ trust-store lookup by subject (C07) */
#ifdef CONTRACT_LOOKUP
int x509_cert_from_der(const uint8_t **a, size_t *alen, const uint8_t **in, size_t *inlen)
REQUIRES(WR_OK(a, sizeof(*a)) && WR_OK(alen, sizeof(*alen)) && DER_RD_REQ(in, inlen))
ASSIGNS(*a, *alen, *in, *inlen)
ENSURES(RET == 1 || RET == 0 || RET == -1)
ENSURES(RET == 0 IMPLIES DER_RD_SAME(in, inlen))
ENSURES(RET == 1 IMPLIES DER_RD_ADV(in, inlen) && DER_SLICE(*a, in, inlen, 0) && *alen == DER_CONSUMED(inlen) && *alen >= 2)
;
/* records the certificate whose subject was extracted, and (name_equ) that the comparison was made on that subject */
int x509_cert_get_subject(const uint8_t *a, size_t alen, const uint8_t **d, size_t *dlen)
REQUIRES(alen <= (size_t)INT_MAX && RD_OK(a, alen) && WR_OK(d, sizeof(*d)) && WR_OK(dlen, sizeof(*dlen)))
ASSIGNS(*d, *dlen, verif_l_gs_of)
ENSURES(RET == 1 || RET == -1)
ENSURES(RET == 1 IMPLIES SLICE_IN(*d, *dlen, a, alen) && verif_l_gs_of == (size_t)a)
;
int x509_name_equ(const uint8_t *a, size_t alen, const uint8_t *b, size_t blen)
REQUIRES(alen <= (size_t)INT_MAX && blen <= (size_t)INT_MAX && (alen == 0 || RD_OK(a, alen)) && (blen == 0 || RD_OK(b, blen)))
ASSIGNS(verif_l_ne_last, verif_l_ne_a_of, verif_l_calls)
ENSURES((RET == 1 || RET == 0) && verif_l_ne_last == RET && verif_l_ne_a_of == verif_l_gs_of && verif_l_calls == OLD(verif_l_calls) + 1)
;
/* RET == 1: the certificate returned is an element of the store [d, d+dlen) and the name comparison made on ITS subject said equal */
int x509_certs_get_cert_by_subject(const uint8_t *d, size_t dlen, const uint8_t *subject, size_t subject_len, const uint8_t **cert, size_t *certlen)
REQUIRES(dlen <= (size_t)INT_MAX && (dlen == 0 || (d != NULL && RD_OK(d, dlen))) && subject_len <= (size_t)INT_MAX && (subject_len == 0 || RD_OK(subject, subject_len)) && WR_OK(cert, sizeof(*cert)) && WR_OK(certlen, sizeof(*certlen)))
ASSIGNS(*cert, *certlen, verif_l_ne_last, verif_l_ne_a_of, verif_l_gs_of, verif_l_calls)
ENSURES(RET == 1 || RET == 0 || RET == -1)
ENSURES(RET == 1 IMPLIES *certlen >= 2 && SLICE_IN(*cert, *certlen, d, dlen) && verif_l_ne_last == 1 && verif_l_ne_a_of == (size_t)*cert)
ENSURES(RET == 0 IMPLIES *cert == NULL && *certlen == 0)
;
#endif
#endif
