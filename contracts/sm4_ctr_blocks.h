/* Contracts for the counter advance of src/sm4.c sm4_ctr_encrypt_blocks / sm4_ctr32_encrypt_blocks (C04 "counter
 * increment 128-bit vs 32-bit"): after n blocks the counter block, read as one big-endian integer, is the entry value + n
 * modulo 2^128 (CTR) resp. its last 32 bits + n modulo 2^32 with the first 96 bits untouched (CTR32, inc32 of SP 800-38D).
 * The key stream itself (SM4 of each counter value) is not stated here. */
#ifndef CONTRACTS_SM4_CTR_BLOCKS_H
#define CONTRACTS_SM4_CTR_BLOCKS_H
#include "verif.h"
#include <gmssl/sm4.h>
#ifdef VERIF_CBMC
typedef unsigned __CPROVER_bitvector[128] bv128;
#define CB_BE64(p, o) (((uint64_t)(p)[(o)+0] << 56) | ((uint64_t)(p)[(o)+1] << 48) | ((uint64_t)(p)[(o)+2] << 40) | ((uint64_t)(p)[(o)+3] << 32) | \
	((uint64_t)(p)[(o)+4] << 24) | ((uint64_t)(p)[(o)+5] << 16) | ((uint64_t)(p)[(o)+6] << 8) | (uint64_t)(p)[(o)+7])
#define CB_OLDBE64(p, o) (((uint64_t)OLD((p)[(o)+0]) << 56) | ((uint64_t)OLD((p)[(o)+1]) << 48) | ((uint64_t)OLD((p)[(o)+2]) << 40) | ((uint64_t)OLD((p)[(o)+3]) << 32) | \
	((uint64_t)OLD((p)[(o)+4]) << 24) | ((uint64_t)OLD((p)[(o)+5]) << 16) | ((uint64_t)OLD((p)[(o)+6]) << 8) | (uint64_t)OLD((p)[(o)+7]))
#define CB_BE128(p) ((((bv128)CB_BE64(p, 0)) << 64) | (bv128)CB_BE64(p, 8))
#define CB_OLDBE128(p) ((((bv128)CB_OLDBE64(p, 0)) << 64) | (bv128)CB_OLDBE64(p, 8))
#endif
#define CB_REQ \
REQUIRES(RD_OK(key, sizeof(SM4_KEY)) && RW_OK(ctr, 16) && nblocks <= 2) \
REQUIRES(nblocks == 0 || (RD_OK(in, 16 * nblocks) && WR_OK(out, 16 * nblocks) && SEPARATE(ctr, in) && SEPARATE(ctr, out))) \
ASSIGNS(OBJ_UPTO(ctr, 16); nblocks != 0: OBJ_UPTO(out, 16 * nblocks))
void sm4_ctr_encrypt_blocks(const SM4_KEY *key, uint8_t ctr[16], const uint8_t *in, size_t nblocks, uint8_t *out)
CB_REQ
ENSURES(CB_BE128(ctr) == (bv128)(CB_OLDBE128(ctr) + (bv128)nblocks))
;
void sm4_ctr32_encrypt_blocks(const SM4_KEY *key, uint8_t ctr[16], const uint8_t *in, size_t nblocks, uint8_t *out)
CB_REQ
ENSURES(CB_BE64(ctr, 0) == CB_OLDBE64(ctr, 0) && (CB_BE64(ctr, 8) >> 32) == (CB_OLDBE64(ctr, 8) >> 32))
ENSURES((uint32_t)CB_BE64(ctr, 8) == (uint32_t)((uint32_t)CB_OLDBE64(ctr, 8) + (uint32_t)nblocks))
;
#endif
