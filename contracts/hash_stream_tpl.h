/* Template: contracts for a Merkle–Damgård streaming hash with the GmSSL context layout
 *     { STATE_T state[..]; uint64_t nblocks; uint8_t block[BLK]; size_t num; }
 * Parameters (macros defined by the including job file BEFORE this header):
 *   HS_CTX  HS_UPDATE  HS_FINISH  HS_COMPRESS  HS_STATE_T  HS_STATE_FIELD  HS_NSTATE  HS_BLK (64|128)  HS_LENB (8|16)  HS_DGST
 * Same statements as sm3_real.h (see there): update appends exactly its input to the virtual stream, for every length and
 * state; finish compresses pending || 0x80 || 0* || big-endian bit length (HS_LENB bytes) and emits the state big-endian. */
#include "verif.h"
#ifdef VERIF_CBMC
typedef unsigned __CPROVER_bitvector[136] hs_len_t;
size_t G_tk; uint64_t G_cfed; uint8_t G_cbyte; uint8_t G_cseen; unsigned G_ccalls;
uint8_t G_blk0[HS_BLK]; uint64_t G_nb0; size_t G_num0;
#define HS_INV(c)     ((c)->num < HS_BLK && G_cfed == HS_BLK * (c)->nblocks && (G_tk >= G_cfed || G_cseen == 1))
#define VS_LEN(c)     (HS_BLK * (c)->nblocks + (c)->num)
#define OLD_VS_LEN(c) (HS_BLK * OLD((c)->nblocks) + OLD((c)->num))
#define FIN_L         (HS_BLK * G_nb0 + G_num0)
#define FIN_END       (HS_BLK * (G_nb0 + (G_num0 + 1 + HS_LENB <= HS_BLK ? 1 : 2)))
#endif

static void HS_COMPRESS(HS_STATE_T state[HS_NSTATE], const uint8_t *data, size_t blocks)
REQUIRES(RW_OK(state, HS_NSTATE * sizeof(HS_STATE_T)) && blocks <= ((size_t)1 << 50) && (blocks == 0 || RD_OK(data, HS_BLK * blocks)))
ASSIGNS(OBJ_UPTO((uint8_t *)state, HS_NSTATE * sizeof(HS_STATE_T)), G_cfed, G_cbyte, G_cseen, G_ccalls)
ENSURES(G_cfed == OLD(G_cfed) + HS_BLK * blocks && G_ccalls == OLD(G_ccalls) + 1)
ENSURES((OLD(G_cfed) <= G_tk && G_tk - OLD(G_cfed) < HS_BLK * blocks) ? (G_cseen == 1 && G_cbyte == data[G_tk - OLD(G_cfed)]) : (G_cseen == OLD(G_cseen) && G_cbyte == OLD(G_cbyte)))
;

void HS_UPDATE(HS_CTX *ctx, const uint8_t *data, size_t data_len)
REQUIRES(RW_OK(ctx, sizeof(*ctx)) && data_len <= ((size_t)1 << 50) && (data_len == 0 || RD_OK(data, data_len)) && HS_INV(ctx) && ctx->nblocks <= ((uint64_t)1 << 55))
ASSIGNS(OBJ_UPTO((uint8_t *)ctx, sizeof(*ctx)), G_cfed, G_cbyte, G_cseen, G_ccalls)
ENSURES(HS_INV(ctx))
ENSURES(VS_LEN(ctx) == OLD_VS_LEN(ctx) + data_len)
ENSURES((G_tk >= OLD_VS_LEN(ctx) && G_tk < VS_LEN(ctx)) IMPLIES (G_tk < G_cfed ? G_cbyte : ctx->block[G_tk - G_cfed]) == data[G_tk - OLD_VS_LEN(ctx)])
;

void HS_FINISH(HS_CTX *ctx, uint8_t *dgst)
REQUIRES(RW_OK(ctx, sizeof(*ctx)) && WR_OK(dgst, HS_NSTATE * sizeof(HS_STATE_T)) && SEPARATE(ctx, dgst) && HS_INV(ctx) && ctx->nblocks <= ((uint64_t)1 << 53)
	&& G_nb0 == ctx->nblocks && G_num0 == ctx->num)
ASSIGNS(OBJ_UPTO((uint8_t *)ctx, sizeof(*ctx)), OBJ_UPTO(dgst, HS_NSTATE * sizeof(HS_STATE_T)), G_cfed, G_cbyte, G_cseen, G_ccalls)
ENSURES(G_cfed == FIN_END)
ENSURES((G_tk >= HS_BLK * G_nb0 && G_tk < FIN_END) IMPLIES G_cseen == 1)
ENSURES((G_tk >= HS_BLK * G_nb0 && G_tk < FIN_L) IMPLIES G_cbyte == G_blk0[G_tk - HS_BLK * G_nb0])
ENSURES(G_tk == FIN_L IMPLIES G_cbyte == 0x80)
ENSURES((G_tk > FIN_L && G_tk < FIN_END - HS_LENB) IMPLIES G_cbyte == 0)
ENSURES((G_tk >= FIN_END - HS_LENB && G_tk < FIN_END) IMPLIES G_cbyte == (uint8_t)(((hs_len_t)FIN_L * 8) >> (8 * (FIN_END - 1 - G_tk))))
/* big-endian state words */
ENSURES(verif_gk < HS_NSTATE * sizeof(HS_STATE_T) IMPLIES dgst[verif_gk] == (uint8_t)(ctx->HS_STATE_FIELD[verif_gk / sizeof(HS_STATE_T)] >> (8 * (sizeof(HS_STATE_T) - 1 - verif_gk % sizeof(HS_STATE_T)))))
;
