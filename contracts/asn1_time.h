/* Contracts for the time conversion of src/asn1.c (C14 "all times in the representable range").
 * The specification is the proleptic Gregorian calendar, written here independently of the code:
 *   leap(y)  = y divisible by 4 and not by 100, or divisible by 400
 *   D(y)     = days from 1970-01-01 to y-01-01 = 365 (y - 1970) + (leap years in [1970, y))
 *   TS(Y,M,D,h,m,s) = (D(Y) + days before month M in year Y + (D - 1)) * 86400 + 3600 h + 60 m + s
 * UTCTime two-digit years follow the library's own documented window 1951..2050 (YY <= 50 -> 20YY), under which
 * the encoder and the decoder must agree; GeneralizedTime has four digits. */
#ifndef CONTRACTS_ASN1_TIME_H
#define CONTRACTS_ASN1_TIME_H
#include "verif.h"
#include <stdio.h>
#include <time.h>
#include <gmssl/asn1.h>

#define T_LEAP(y)        (((((y) % 4) == 0) && (((y) % 100) != 0)) || (((y) % 400) == 0))
#define T_LEAPS_BEFORE(y) ((((y) - 1) / 4) - (((y) - 1) / 100) + (((y) - 1) / 400))
#define T_DAYS_BEFORE_YEAR(y) ((int64_t)365 * ((y) - 1970) + (T_LEAPS_BEFORE(y) - 477))     /* 477 = leap years in [1, 1970) */
#define T_CUM(m, lp) ((m) == 1 ? 0 : (m) == 2 ? 31 : (m) == 3 ? 59 + (lp) : (m) == 4 ? 90 + (lp) : (m) == 5 ? 120 + (lp) : (m) == 6 ? 151 + (lp) : \
	(m) == 7 ? 181 + (lp) : (m) == 8 ? 212 + (lp) : (m) == 9 ? 243 + (lp) : (m) == 10 ? 273 + (lp) : (m) == 11 ? 304 + (lp) : 334 + (lp))
#define T_DIM(m, lp) ((m) == 2 ? 28 + (lp) : ((m) == 4 || (m) == 6 || (m) == 9 || (m) == 11) ? 30 : 31)
#define T_TS(Y, M, D, h, mi, s) ((T_DAYS_BEFORE_YEAR(Y) + T_CUM(M, (T_LEAP(Y) ? 1 : 0)) + ((D) - 1)) * (int64_t)86400 + (h) * 3600 + (mi) * 60 + (s))
/* the text: utc != 0 "YYMMDDHHMMSSZ" (13), else "YYYYMMDDHHMMSSZ" (15) */
#define T_LEN(utc)   (((utc) & 1) ? 13 : 15)
#define T_O(utc)     (((utc) & 1) ? 2 : 4)
#define T_DG(s, i)   ((int)(s)[i] - '0')
#define T_ISDG(s, i) ((s)[i] >= '0' && (s)[i] <= '9')
#define T_2(s, i)    (T_DG(s, i) * 10 + T_DG(s, (i) + 1))
#define T_YEAR(utc, s) (((utc) & 1) ? (T_2(s, 0) <= 50 ? 2000 + T_2(s, 0) : 1900 + T_2(s, 0)) : (T_2(s, 0) * 100 + T_2(s, 2)))
#define T_MON(utc, s)  T_2(s, T_O(utc))
#define T_DAY(utc, s)  T_2(s, T_O(utc) + 2)
#define T_HOUR(utc, s) T_2(s, T_O(utc) + 4)
#define T_MIN(utc, s)  T_2(s, T_O(utc) + 6)
#define T_SEC(utc, s)  T_2(s, T_O(utc) + 8)
#define T_ALLDG(utc, s) (T_ISDG(s, 0) && T_ISDG(s, 1) && T_ISDG(s, 2) && T_ISDG(s, 3) && T_ISDG(s, 4) && T_ISDG(s, 5) && T_ISDG(s, 6) && T_ISDG(s, 7) \
	&& T_ISDG(s, 8) && T_ISDG(s, 9) && T_ISDG(s, 10) && T_ISDG(s, 11) && (((utc) & 1) || (T_ISDG(s, 12) && T_ISDG(s, 13))))
#define T_WELLFORMED(utc, s) (T_ALLDG(utc, s) && (s)[T_LEN(utc) - 1] == 'Z' \
	&& T_YEAR(utc, s) >= 1970 && T_MON(utc, s) >= 1 && T_MON(utc, s) <= 12 \
	&& T_DAY(utc, s) >= 1 && T_DAY(utc, s) <= T_DIM(T_MON(utc, s), (T_LEAP(T_YEAR(utc, s)) ? 1 : 0)) \
	&& T_HOUR(utc, s) <= 23 && T_MIN(utc, s) <= 59 && T_SEC(utc, s) <= 59)
#define T_VALUE(utc, s) T_TS(T_YEAR(utc, s), T_MON(utc, s), T_DAY(utc, s), T_HOUR(utc, s), T_MIN(utc, s), T_SEC(utc, s))
/* the same value in two parts (day number, second of day): lets the proofs avoid comparing two 64-bit products */
#define T_DAYNUM(utc, s) (T_DAYS_BEFORE_YEAR(T_YEAR(utc, s)) + T_CUM(T_MON(utc, s), (T_LEAP(T_YEAR(utc, s)) ? 1 : 0)) + (T_DAY(utc, s) - 1))
#define T_SECS(utc, s)   (T_HOUR(utc, s) * 3600 + T_MIN(utc, s) * 60 + T_SEC(utc, s))
/* first instant NOT representable: 2051-01-01 (UTCTime), 10000-01-01 (GeneralizedTime) */
#define T_LIMIT(utc) (((utc) & 1) ? T_DAYS_BEFORE_YEAR(2051) * (int64_t)86400 : T_DAYS_BEFORE_YEAR(10000) * (int64_t)86400)

/* the two postconditions as predicates, used verbatim by the contracts below AND as assumptions by the round-trip lemma
   (jobs/c14_time.c), so that the lemma is about exactly what the enforce jobs prove */
#define T_FROM_STR_POST(ret, utc, ts, str) (((ret) == 1 || (ret) == -1) && (((ret) == 1) == T_WELLFORMED(utc, str)) \
	&& ((ret) != 1 || (int64_t)(ts) == T_DAYNUM(utc, str) * (int64_t)86400 + T_SECS(utc, str)))
#define T_TO_STR_POST(ret, utc, t, str) (((ret) == 1 || (ret) == -1) && (((ret) == 1) == ((int64_t)(t) >= 0 && (int64_t)(t) < T_LIMIT(utc))) \
	&& ((ret) != 1 || (T_WELLFORMED(utc, str) && T_DAYNUM(utc, str) == (int64_t)(t) / 86400 && T_SECS(utc, str) == (int64_t)(t) % 86400)))

/* decoder: accepts exactly the well-formed texts and returns their calendar value */
int asn1_time_from_str(int utc_time, time_t *timestamp, const char *str)
REQUIRES(RD_OK(str, T_LEN(utc_time)) && WR_OK(timestamp, sizeof(time_t)))
ASSIGNS(*timestamp)
ENSURES(T_FROM_STR_POST(RET, utc_time, *timestamp, str))
;

/* encoder: succeeds exactly on the representable range and writes the well-formed text of that instant */
int asn1_time_to_str(int utc_time, time_t timestamp, char *str)
REQUIRES(WR_OK(str, T_LEN(utc_time)))
ASSIGNS(OBJ_UPTO((uint8_t *)str, (size_t)15 - 2 * ((size_t)utc_time & 1)))
ENSURES(T_TO_STR_POST(RET, utc_time, timestamp, str))
;
#endif
