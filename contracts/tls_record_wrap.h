/* Contracts for the record wrappers of src/tls.c (C11): tls_record_encrypt / tls_record_decrypt pass the 5-byte header of the
 * input record as additional data, the bytes after it as data, write the result after a copied header whose length field is
 * the length of what follows.  tls_cbc_encrypt / tls_cbc_decrypt are replaced by recording contracts here (their own
 * contracts are enforced by jobs tls_cbc_encrypt / tls_cbc_decrypt). */
#ifndef CONTRACTS_TLS_RECORD_WRAP_H
#define CONTRACTS_TLS_RECORD_WRAP_H
#include "verif.h"
#include <gmssl/tls.h>
#ifdef VERIF_CBMC
unsigned G_w_calls; int G_w_ret; int G_w_dec; size_t G_w_mac; size_t G_w_key; size_t G_w_seq; size_t G_w_hdr; size_t G_w_in; size_t G_w_inlen; size_t G_w_out; size_t G_w_outlen_val;
#define W_GHOSTS G_w_calls, G_w_ret, G_w_dec, G_w_mac, G_w_key, G_w_seq, G_w_hdr, G_w_in, G_w_inlen, G_w_out, G_w_outlen_val
#endif
int tls_cbc_decrypt(const SM3_HMAC_CTX *hmac_ctx, const SM4_KEY *dec_key, const uint8_t seq_num[8], const uint8_t header[5],
	const uint8_t *in, size_t inlen, uint8_t *out, size_t *outlen)
REQUIRES(RD_OK(hmac_ctx, sizeof(*hmac_ctx)) && RD_OK(dec_key, sizeof(*dec_key)) && RD_OK(seq_num, 8) && RD_OK(header, 5) && inlen <= 65536 && (inlen == 0 || RD_OK(in, inlen)) && WR_OK(outlen, sizeof(size_t)))
REQUIRES(inlen < 16 || WR_OK(out, inlen - 16))
ASSIGNS(inlen >= 16: OBJ_UPTO(out, inlen - 16); *outlen, W_GHOSTS)
ENSURES((RET == 1 || RET == -1) && G_w_calls == OLD(G_w_calls) + 1 && G_w_ret == RET && G_w_dec == 1 && G_w_mac == (size_t)hmac_ctx && G_w_key == (size_t)dec_key && G_w_seq == (size_t)seq_num
	&& G_w_hdr == (size_t)header && G_w_in == (size_t)in && G_w_inlen == inlen && G_w_out == (size_t)out)
ENSURES(RET == 1 IMPLIES (inlen >= 64 && *outlen <= inlen - 49 && G_w_outlen_val == *outlen))
;
int tls_cbc_encrypt(const SM3_HMAC_CTX *hmac_ctx, const SM4_KEY *enc_key, const uint8_t seq_num[8], const uint8_t header[5],
	const uint8_t *in, size_t inlen, uint8_t *out, size_t *outlen)
REQUIRES(RD_OK(hmac_ctx, sizeof(*hmac_ctx)) && RD_OK(enc_key, sizeof(*enc_key)) && RD_OK(seq_num, 8) && RD_OK(header, 5) && inlen <= 70000 && (inlen == 0 || RD_OK(in, inlen)) && WR_OK(outlen, sizeof(size_t)))
REQUIRES(WR_OK(out, 16 + (inlen - inlen % 16) + 48))
ASSIGNS(OBJ_UPTO(out, 16 + (inlen - inlen % 16) + 48), *outlen, W_GHOSTS)
ENSURES((RET == 1 || RET == -1) && G_w_calls == OLD(G_w_calls) + 1 && G_w_ret == RET && G_w_dec == 0 && G_w_mac == (size_t)hmac_ctx && G_w_key == (size_t)enc_key && G_w_seq == (size_t)seq_num
	&& G_w_hdr == (size_t)header && G_w_in == (size_t)in && G_w_inlen == inlen && G_w_out == (size_t)out)
ENSURES(RET == 1 IMPLIES (inlen <= 16384 && *outlen == 16 + (inlen - inlen % 16) + 48 && G_w_outlen_val == *outlen))
;

#define W_COMMON(dec) (G_w_calls == 1 && G_w_ret == 1 && G_w_dec == (dec) && G_w_mac == (size_t)hmac_ctx && G_w_key == (size_t)cbc_key && G_w_seq == (size_t)seq_num \
	&& G_w_hdr == (size_t)in && G_w_in == (size_t)(in + 5) && G_w_inlen == inlen - 5 && G_w_out == (size_t)(out + 5) \
	&& out[0] == in[0] && out[1] == in[1] && out[2] == in[2] && *outlen == 5 + G_w_outlen_val && out[3] == (uint8_t)(G_w_outlen_val >> 8) && out[4] == (uint8_t)G_w_outlen_val)

int tls_record_decrypt(const SM3_HMAC_CTX *hmac_ctx, const SM4_KEY *cbc_key, const uint8_t seq_num[8], const uint8_t *in, size_t inlen, uint8_t *out, size_t *outlen)
REQUIRES(RD_OK(hmac_ctx, sizeof(*hmac_ctx)) && RD_OK(cbc_key, sizeof(*cbc_key)) && RD_OK(seq_num, 8) && inlen >= 5 && inlen <= TLS_MAX_RECORD_SIZE && RD_OK(in, inlen))
/* a plaintext record is never longer than the protected one */
REQUIRES(WR_OK(out, inlen) && WR_OK(outlen, sizeof(size_t)) && SEPARATE(in, out) && SEPARATE(outlen, out) && SEPARATE(outlen, in) && G_w_calls == 0)
ASSIGNS(OBJ_UPTO(out, inlen), *outlen, W_GHOSTS)
ENSURES(RET == 1 || RET == -1)
ENSURES(RET == 1 IMPLIES W_COMMON(1))
ENSURES(RET != 1 IMPLIES (G_w_calls == 1 && G_w_ret != 1))
;
int tls_record_encrypt(const SM3_HMAC_CTX *hmac_ctx, const SM4_KEY *cbc_key, const uint8_t seq_num[8], const uint8_t *in, size_t inlen, uint8_t *out, size_t *outlen)
REQUIRES(RD_OK(hmac_ctx, sizeof(*hmac_ctx)) && RD_OK(cbc_key, sizeof(*cbc_key)) && RD_OK(seq_num, 8) && inlen >= 5 && inlen <= 5 + 16384 && RD_OK(in, inlen))
REQUIRES(WR_OK(out, 5 + 16 + ((inlen - 5) - (inlen - 5) % 16) + 48) && WR_OK(outlen, sizeof(size_t)) && SEPARATE(in, out) && SEPARATE(outlen, out) && SEPARATE(outlen, in) && G_w_calls == 0)
ASSIGNS(OBJ_UPTO(out, 5 + 16 + ((inlen - 5) - (inlen - 5) % 16) + 48), *outlen, W_GHOSTS)
ENSURES(RET == 1 || RET == -1)
ENSURES(RET == 1 IMPLIES W_COMMON(0))
ENSURES(RET != 1 IMPLIES (G_w_calls == 1 && G_w_ret != 1))
;
#endif
