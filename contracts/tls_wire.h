/* Contracts for the TLS wire-format readers of src/tls.c (C06 level 4, C11). Same window convention as the DER readers. */
#ifndef CONTRACTS_TLS_WIRE_H
#define CONTRACTS_TLS_WIRE_H
#include "verif.h"
#include <gmssl/tls.h>
#ifdef VERIF_CBMC
#define PTR_IN(lo, p, hi)      __CPROVER_pointer_in_range_dfcc((lo), (p), (hi))
#define WIN_REQ(in, inlen)  (WR_OK(in, sizeof(*(in))) && WR_OK(inlen, sizeof(*(inlen))) && *(inlen) <= (size_t)1 << 24 && (*(inlen) == 0 || RD_OK(*(in), *(inlen))))
#define WIN_ADV(in, inlen, k) (*(inlen) == OLD(*(inlen)) - (k) && PTR_IN(OLD(*(in)), *(in), OLD(*(in)) + OLD(*(inlen))) && *(in) == OLD(*(in)) + (k))
#define BE_AT(p, i)  ((uint32_t)(p)[i])
#endif

int tls_uint8_from_bytes(uint8_t *a, const uint8_t **in, size_t *inlen)
REQUIRES(WR_OK(a, 1) && WIN_REQ(in, inlen))
ASSIGNS(*a, *in, *inlen)
ENSURES(RET == 1 || RET == -1)
ENSURES((RET == 1) == (OLD(*inlen) >= 1))
ENSURES(RET == 1 IMPLIES WIN_ADV(in, inlen, 1) && *a == OLD(*in)[0])
;
int tls_uint16_from_bytes(uint16_t *a, const uint8_t **in, size_t *inlen)
REQUIRES(WR_OK(a, 2) && WIN_REQ(in, inlen))
ASSIGNS(*a, *in, *inlen)
ENSURES(RET == 1 || RET == -1)
ENSURES((RET == 1) == (OLD(*inlen) >= 2))
ENSURES(RET == 1 IMPLIES WIN_ADV(in, inlen, 2) && *a == (uint16_t)((BE_AT(OLD(*in), 0) << 8) | BE_AT(OLD(*in), 1)))
;
int tls_uint24_from_bytes(uint24_t *a, const uint8_t **in, size_t *inlen)
REQUIRES(WR_OK(a, sizeof(*a)) && WIN_REQ(in, inlen))
ASSIGNS(*a, *in, *inlen)
ENSURES(RET == 1 || RET == -1)
ENSURES((RET == 1) == (OLD(*inlen) >= 3))
ENSURES(RET == 1 IMPLIES WIN_ADV(in, inlen, 3) && *a == ((BE_AT(OLD(*in), 0) << 16) | (BE_AT(OLD(*in), 1) << 8) | BE_AT(OLD(*in), 2)))
;
int tls_uint32_from_bytes(uint32_t *a, const uint8_t **in, size_t *inlen)
REQUIRES(WR_OK(a, 4) && WIN_REQ(in, inlen))
ASSIGNS(*a, *in, *inlen)
ENSURES(RET == 1 || RET == -1)
ENSURES((RET == 1) == (OLD(*inlen) >= 4))
ENSURES(RET == 1 IMPLIES WIN_ADV(in, inlen, 4) && *a == ((BE_AT(OLD(*in), 0) << 24) | (BE_AT(OLD(*in), 1) << 16) | (BE_AT(OLD(*in), 2) << 8) | BE_AT(OLD(*in), 3)))
;
int tls_array_from_bytes(const uint8_t **data, size_t datalen, const uint8_t **in, size_t *inlen)
REQUIRES(WR_OK(data, sizeof(*data)) && WIN_REQ(in, inlen))
ASSIGNS(*data, *in, *inlen)
ENSURES(RET == 1 || RET == -1)
ENSURES((RET == 1) == (OLD(*inlen) >= datalen))
ENSURES(RET == 1 IMPLIES WIN_ADV(in, inlen, datalen) && PTR_IN(OLD(*in), *data, OLD(*in) + OLD(*inlen)) && *data == OLD(*in))
;
#define TLS_LENARRAY_CONTRACT(fn, hdr) \
int fn(const uint8_t **data, size_t *datalen, const uint8_t **in, size_t *inlen) \
REQUIRES(WR_OK(data, sizeof(*data)) && WR_OK(datalen, sizeof(*datalen)) && WIN_REQ(in, inlen)) \
ASSIGNS(*data, *datalen, *in, *inlen) \
ENSURES(RET == 1 || RET == -1) \
/* the slice lies inside the window: header + *datalen bytes were available and consumed */ \
ENSURES(RET == 1 IMPLIES OLD(*inlen) >= (hdr) && *datalen <= OLD(*inlen) - (hdr) && WIN_ADV(in, inlen, (hdr) + *datalen)) \
ENSURES(RET == 1 IMPLIES (*datalen == 0 ? *data == NULL : (PTR_IN(OLD(*in), *data, OLD(*in) + OLD(*inlen)) && *data == OLD(*in) + (hdr))))
TLS_LENARRAY_CONTRACT(tls_uint8array_from_bytes, 1);
TLS_LENARRAY_CONTRACT(tls_uint16array_from_bytes, 2);
TLS_LENARRAY_CONTRACT(tls_uint24array_from_bytes, 3);

int tls_length_is_zero(size_t len)
ASSIGNS()
ENSURES(RET == (len == 0 ? 1 : -1))
;

/* C11: per-direction sequence number = 64-bit big-endian counter, advanced by exactly one */
int tls_seq_num_incr(uint8_t seq_num[8])
REQUIRES(RW_OK(seq_num, 8))
ASSIGNS(OBJ_UPTO(seq_num, 8))
ENSURES(RET == 1)
ENSURES((((uint64_t)seq_num[0] << 56) | ((uint64_t)seq_num[1] << 48) | ((uint64_t)seq_num[2] << 40) | ((uint64_t)seq_num[3] << 32)
	| ((uint64_t)seq_num[4] << 24) | ((uint64_t)seq_num[5] << 16) | ((uint64_t)seq_num[6] << 8) | (uint64_t)seq_num[7])
	== (uint64_t)((((uint64_t)OLD(seq_num[0]) << 56) | ((uint64_t)OLD(seq_num[1]) << 48) | ((uint64_t)OLD(seq_num[2]) << 40) | ((uint64_t)OLD(seq_num[3]) << 32)
	| ((uint64_t)OLD(seq_num[4]) << 24) | ((uint64_t)OLD(seq_num[5]) << 16) | ((uint64_t)OLD(seq_num[6]) << 8) | (uint64_t)OLD(seq_num[7])) + 1))
;
#endif
