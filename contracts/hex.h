/* Contracts for the hexadecimal decoder of src/hex.c (C14 "hex decoding inverts its encoder, refuses malformed text"):
 * a text is accepted only if its length is even and every character is one of 0-9 a-f A-F, and then byte k is
 * 16*value(in[2k]) + value(in[2k+1]); exactly inlen/2 bytes are written. */
#ifndef CONTRACTS_HEX_H
#define CONTRACTS_HEX_H
#include "verif.h"
#include <gmssl/hex.h>
#ifdef VERIF_CBMC
#define HEXV(ch) (((ch) >= '0' && (ch) <= '9') ? (ch) - '0' : ((ch) >= 'a' && (ch) <= 'f') ? (ch) - 'a' + 10 : ((ch) >= 'A' && (ch) <= 'F') ? (ch) - 'A' + 10 : -1)
#endif
static int hexchar2int(char c)
ASSIGNS()
ENSURES(RET == HEXV(c))
;
int hex2bin(const char *in, size_t inlen, uint8_t *out)
REQUIRES(inlen <= (size_t)1 << 20 && (inlen == 0 || (RD_OK(in, inlen) && WR_OK(out, inlen / 2) && SEPARATE(in, out))))
ASSIGNS(inlen != 0: OBJ_WHOLE(out))
ENSURES(RET == 1 || RET == -1)
ENSURES(RET == 1 IMPLIES inlen % 2 == 0)
ENSURES((RET == 1 && verif_gk < inlen / 2) IMPLIES (HEXV(in[2 * verif_gk]) >= 0 && HEXV(in[2 * verif_gk + 1]) >= 0
	&& out[verif_gk] == (uint8_t)(16 * HEXV(in[2 * verif_gk]) + HEXV(in[2 * verif_gk + 1]))))
;
int hex_to_bytes(const char *in, size_t inlen, uint8_t *out, size_t *outlen)
REQUIRES(inlen <= (size_t)1 << 20 && (inlen == 0 || (RD_OK(in, inlen) && WR_OK(out, inlen / 2) && SEPARATE(in, out))) && WR_OK(outlen, sizeof(size_t)) && SEPARATE(outlen, out))
ASSIGNS(*outlen; inlen != 0: OBJ_WHOLE(out))
ENSURES(RET == 1 || RET == -1)
ENSURES(RET == 1 IMPLIES (inlen % 2 == 0 && *outlen == inlen / 2))
ENSURES((RET == 1 && verif_gk < inlen / 2) IMPLIES (HEXV(in[2 * verif_gk]) >= 0 && HEXV(in[2 * verif_gk + 1]) >= 0
	&& out[verif_gk] == (uint8_t)(16 * HEXV(in[2 * verif_gk]) + HEXV(in[2 * verif_gk + 1]))))
;
#endif
