/* Contracts for the TLS 1.3 record protection of src/tls13.c (C11, C06): RFC 8446 section 5.2 / 5.3.
 *   nonce = iv xor (0^32 || seq_num);  additional data = 23 || 3 || 3 || length of the protected record
 *   TLSInnerPlaintext = content || type || zeros;  type = last non-zero byte, an all-zero plaintext is refused */
#ifndef CONTRACTS_TLS13_RECORD_H
#define CONTRACTS_TLS13_RECORD_H
#include "verif.h"
#include "libc.h"
#include <gmssl/tls.h>
#include "tls_names.h"

#ifdef VERIF_CBMC
unsigned G_gd_calls; int G_gd_ret; size_t G_gd_key; uint8_t G_gd_iv; size_t G_gd_ivlen; uint8_t G_gd_aad[5]; size_t G_gd_aadlen;
size_t G_gd_in; size_t G_gd_inlen; size_t G_gd_tag; size_t G_gd_taglen; size_t G_gd_out;
const uint8_t G_zero13 = 0;
#define T13_NONCE(k, iv, seq) ((uint8_t)((iv)[k] ^ ((k) < 4 ? 0 : (seq)[(k) - 4])))
#endif

int gcm_decrypt(const BLOCK_CIPHER_KEY *key, const uint8_t *iv, size_t ivlen, const uint8_t *aad, size_t aadlen,
	const uint8_t *in, size_t inlen, const uint8_t *tag, size_t taglen, uint8_t *out)
REQUIRES(RD_OK(key, sizeof(*key)) && ivlen == 12 && RD_OK(iv, 12) && aadlen == 5 && RD_OK(aad, 5) && taglen == 16 && RD_OK(tag, 16))
REQUIRES(inlen == 0 || (RD_OK(in, inlen) && WR_OK(out, inlen)))
ASSIGNS(inlen != 0: OBJ_UPTO(out, inlen); G_gd_calls, G_gd_ret, G_gd_key, G_gd_iv, G_gd_ivlen, OBJ_WHOLE(G_gd_aad), G_gd_aadlen, G_gd_in, G_gd_inlen, G_gd_tag, G_gd_taglen, G_gd_out)
ENSURES((RET == 1 || RET == -1) && G_gd_calls == OLD(G_gd_calls) + 1 && G_gd_ret == RET && G_gd_key == (size_t)key && G_gd_iv == iv[verif_gk < 12 ? verif_gk : 0] && G_gd_ivlen == ivlen
	&& G_gd_aad[0] == aad[0] && G_gd_aad[1] == aad[1] && G_gd_aad[2] == aad[2] && G_gd_aad[3] == aad[3] && G_gd_aad[4] == aad[4] && G_gd_aadlen == aadlen
	&& G_gd_in == (size_t)in && G_gd_inlen == inlen && G_gd_tag == (size_t)tag && G_gd_taglen == taglen && G_gd_out == (size_t)out)
;

int tls13_gcm_decrypt(const BLOCK_CIPHER_KEY *key, const uint8_t iv[12], const uint8_t seq_num[8], const uint8_t *in, size_t inlen,
	int *record_type, uint8_t *out, size_t *outlen)
REQUIRES(RD_OK(key, sizeof(*key)) && RD_OK(iv, 12) && RD_OK(seq_num, 8) && WR_OK(record_type, sizeof(int)) && WR_OK(outlen, sizeof(size_t)))
REQUIRES(inlen <= 65535 + 256 && (inlen == 0 || RD_OK(in, inlen)))
/* the plaintext buffer holds the protected length minus the tag */
REQUIRES(inlen <= 16 || WR_OK(out, inlen - 16))
REQUIRES(SEPARATE(out, in) && SEPARATE(out, record_type) && SEPARATE(out, outlen) && SEPARATE(outlen, record_type) && verif_gk < 65536 && G_gd_calls == 0)
ASSIGNS(inlen > 16: OBJ_UPTO(out, inlen - 16); *record_type, *outlen, G_x_r, G_x_calls, G_x_len, G_x_rp,
	G_gd_calls, G_gd_ret, G_gd_key, G_gd_iv, G_gd_ivlen, OBJ_WHOLE(G_gd_aad), G_gd_aadlen, G_gd_in, G_gd_inlen, G_gd_tag, G_gd_taglen, G_gd_out)
ENSURES(RET == 1 || RET == -1)
/* authenticated first: the AEAD returned 1 on exactly (nonce, header, ciphertext, trailing 16-byte tag) with the caller's key */
ENSURES(RET == 1 IMPLIES (inlen >= 16 && G_gd_calls == 1 && G_gd_ret == 1 && G_gd_key == (size_t)key
	&& (verif_gk < 12 IMPLIES G_gd_iv == T13_NONCE(verif_gk < 12 ? verif_gk : 0, iv, seq_num))
	&& G_gd_aad[0] == 23 && G_gd_aad[1] == 3 && G_gd_aad[2] == 3 && G_gd_aad[3] == (uint8_t)(inlen >> 8) && G_gd_aad[4] == (uint8_t)inlen
	&& G_gd_in == (size_t)in && G_gd_inlen == inlen - 16 && G_gd_tag == (size_t)(in + (inlen - 16)) && G_gd_out == (size_t)out))
/* inner plaintext: content || type || zeros, type a real record type, content length reported */
ENSURES(RET == 1 IMPLIES (*outlen < inlen - 16 && *record_type == out[*outlen] && *record_type != 0
	&& ((verif_gk > *outlen && verif_gk < inlen - 16) IMPLIES out[verif_gk] == 0)
	&& (*record_type == 20 || *record_type == 21 || *record_type == 22 || *record_type == 23)))
;
#endif

#ifdef CONTRACT_TLS13_ENCRYPT
/* sender side */
#ifdef VERIF_CBMC
unsigned G_ge_calls; int G_ge_ret; size_t G_ge_key; uint8_t G_ge_iv; size_t G_ge_ivlen; uint8_t G_ge_aad[5]; size_t G_ge_aadlen;
uint8_t G_ge_inbyte; size_t G_ge_inlen; size_t G_ge_out; size_t G_ge_taglen; size_t G_ge_tag;
#endif
int gcm_encrypt(const BLOCK_CIPHER_KEY *key, const uint8_t *iv, size_t ivlen, const uint8_t *aad, size_t aadlen,
	const uint8_t *in, size_t inlen, uint8_t *out, size_t taglen, uint8_t *tag)
REQUIRES(RD_OK(key, sizeof(*key)) && ivlen == 12 && RD_OK(iv, 12) && aadlen == 5 && RD_OK(aad, 5) && taglen == 16 && WR_OK(tag, 16))
REQUIRES(inlen >= 1 && RD_OK(in, inlen) && WR_OK(out, inlen))
ASSIGNS(OBJ_WHOLE(out), G_ge_calls, G_ge_ret, G_ge_key, G_ge_iv, G_ge_ivlen, OBJ_WHOLE(G_ge_aad), G_ge_aadlen, G_ge_inbyte, G_ge_inlen, G_ge_out, G_ge_taglen, G_ge_tag)
ENSURES((RET == 1 || RET == -1) && G_ge_calls == OLD(G_ge_calls) + 1 && G_ge_ret == RET && G_ge_key == (size_t)key && G_ge_iv == iv[verif_gk < 12 ? verif_gk : 0] && G_ge_ivlen == ivlen
	&& G_ge_aad[0] == aad[0] && G_ge_aad[1] == aad[1] && G_ge_aad[2] == aad[2] && G_ge_aad[3] == aad[3] && G_ge_aad[4] == aad[4] && G_ge_aadlen == aadlen
	&& G_ge_inlen == inlen && G_ge_out == (size_t)out && G_ge_taglen == taglen && G_ge_tag == (size_t)tag)
ENSURES(verif_gk < inlen IMPLIES G_ge_inbyte == OLD(*((verif_gk < inlen) ? (in + verif_gk) : &G_zero13)))
;

int tls13_gcm_encrypt(const BLOCK_CIPHER_KEY *key, const uint8_t iv[12], const uint8_t seq_num[8], int record_type,
	const uint8_t *in, size_t inlen, size_t padding_len, uint8_t *out, size_t *outlen)
REQUIRES(RD_OK(key, sizeof(*key)) && RD_OK(iv, 12) && RD_OK(seq_num, 8) && WR_OK(outlen, sizeof(size_t)))
REQUIRES(inlen <= 16384 + 256 && (inlen == 0 || RD_OK(in, inlen)))
/* the staging buffer is inlen + 256 bytes: content type byte plus at most 255 bytes of padding (callers draw 0..127) */
REQUIRES(padding_len <= 255)
REQUIRES(WR_OK(out, inlen + 1 + padding_len + 16) && SEPARATE(out, in) && SEPARATE(out, outlen) && verif_gk < 20000 && G_ge_calls == 0)
#ifdef CONTRACT_TLS13_ENCRYPT_CONST_FRAME
/* replaced inside the 63 KB connection object (tls13_send): a constant-size frame, the callers' record + 5 has exactly this room */
REQUIRES(WR_OK(out, TLS_MAX_RECORD_SIZE - 5))
ASSIGNS(OBJ_UPTO(out, TLS_MAX_RECORD_SIZE - 5), *outlen,
#else
ASSIGNS(OBJ_WHOLE(out), *outlen,
#endif
	G_ge_calls, G_ge_ret, G_ge_key, G_ge_iv, G_ge_ivlen, OBJ_WHOLE(G_ge_aad), G_ge_aadlen, G_ge_inbyte, G_ge_inlen, G_ge_out, G_ge_taglen, G_ge_tag,
	G_x_r, G_x_calls, G_x_len, G_x_rp)
ENSURES(RET == 1 || RET == -1)
ENSURES(RET == 1 IMPLIES (G_ge_calls == 1 && G_ge_ret == 1 && G_ge_key == (size_t)key
	&& (verif_gk < 12 IMPLIES G_ge_iv == T13_NONCE(verif_gk < 12 ? verif_gk : 0, iv, seq_num))
	&& G_ge_inlen == inlen + 1 + padding_len && *outlen == G_ge_inlen + 16
	&& G_ge_aad[0] == 23 && G_ge_aad[1] == 3 && G_ge_aad[2] == 3 && G_ge_aad[3] == (uint8_t)(*outlen >> 8) && G_ge_aad[4] == (uint8_t)*outlen
	&& G_ge_out == (size_t)out && G_ge_tag == (size_t)(out + G_ge_inlen)))
/* TLSInnerPlaintext = content || type || zeros */
ENSURES((RET == 1 && verif_gk < inlen) IMPLIES G_ge_inbyte == in[verif_gk])
ENSURES((RET == 1 && verif_gk == inlen) IMPLIES G_ge_inbyte == (uint8_t)record_type)
ENSURES((RET == 1 && verif_gk > inlen && verif_gk < inlen + 1 + padding_len) IMPLIES G_ge_inbyte == 0)
;
#endif
