/* Contracts for the Jacobian group operations of src/sm2_z256.c (C13 layer 2), relative to an UNINTERPRETED
 * Montgomery product M(x, y) (P-UF): the field multiplication is replaced by its UF contract, the linear field
 * operations by their integer contracts of layer 0, and the postconditions are the textbook a = -3 Jacobian
 * formulas over M plus the special cases the group law demands:
 *   O + Q = Q,  P + O = P,  P + P = 2P (doubling),  P + (-P) = O (encoded 0:0:0).
 * What this does NOT show: that M is multiplication modulo p (assumed), hence not the group law itself. */
#ifndef CONTRACTS_SM2_GROUP_H
#define CONTRACTS_SM2_GROUP_H
#include "sm2_point.h"

#ifdef VERIF_CBMC
#define GM(x, y)   __CPROVER_uninterpreted_montmul((bv256)(x), (bv256)(y))
#define G257(x)    ((bv257)(x))
#define GADD(x, y) ((bv256)((G257(x) + G257(y)) >= BV_P ? (G257(x) + G257(y)) - BV_P : (G257(x) + G257(y))))
#define GSUB(x, y) ((bv256)(G257(x) >= G257(y) ? G257(x) - G257(y) : (G257(x) + BV_P) - G257(y)))
#define GDBL(x)    GADD(x, x)
#define GTRI(x)    GADD(GADD(x, x), x)
#define GHAF(x)    ((bv256)((G257(x) & 1) == 0 ? G257(x) >> 1 : (G257(x) + BV_P) >> 1))
#define PX(P) V256((P)->X)
#define PY(P) V256((P)->Y)
#define PZ(P) V256((P)->Z)
#define OPX(P) ((bv256)OLDVAL4((P)->X))
#define OPY(P) ((bv256)OLDVAL4((P)->Y))
#define OPZ(P) ((bv256)OLDVAL4((P)->Z))
#define COORDS_OK(P) (VAL4((P)->X) < BV_P && VAL4((P)->Y) < BV_P && VAL4((P)->Z) < BV_P)
/* doubling formulas (a = -3): M = 3(X - Z^2)(X + Z^2), S = 4XY^2, X3 = M^2 - 2S, Y3 = M(S - X3) - 8Y^4, Z3 = 2YZ */
#define D_ZZ(X, Y, Z)  GM(Z, Z)
#define D_YY4(X, Y, Z) GM(GDBL(Y), GDBL(Y))
#define D_M(X, Y, Z)   GTRI(GM(GADD(X, D_ZZ(X, Y, Z)), GSUB(X, D_ZZ(X, Y, Z))))
#define D_S(X, Y, Z)   GM(D_YY4(X, Y, Z), X)
#define D_X3(X, Y, Z)  GSUB(GM(D_M(X, Y, Z), D_M(X, Y, Z)), GDBL(D_S(X, Y, Z)))
#define D_Y3(X, Y, Z)  GSUB(GM(GSUB(D_S(X, Y, Z), D_X3(X, Y, Z)), D_M(X, Y, Z)), GHAF(GM(D_YY4(X, Y, Z), D_YY4(X, Y, Z))))
#define D_Z3(X, Y, Z)  GDBL(GM(Z, Y))
/* addition formulas */
#define A_Z1S(a, b) GM(OPZ(a), OPZ(a))
#define A_Z2S(a, b) GM(OPZ(b), OPZ(b))
#define A_U1(a, b)  GM(OPX(a), A_Z2S(a, b))
#define A_U2(a, b)  GM(OPX(b), A_Z1S(a, b))
#define A_S1(a, b)  GM(GM(A_Z2S(a, b), OPZ(b)), OPY(a))
#define A_S2(a, b)  GM(GM(A_Z1S(a, b), OPZ(a)), OPY(b))
#define A_H(a, b)   GSUB(A_U2(a, b), A_U1(a, b))
#define A_R(a, b)   GSUB(A_S2(a, b), A_S1(a, b))
#define A_HH(a, b)  GM(A_H(a, b), A_H(a, b))
#define A_HHH(a, b) GM(A_HH(a, b), A_H(a, b))
#define A_V(a, b)   GM(A_U1(a, b), A_HH(a, b))
#define A_X3(a, b)  GSUB(GSUB(GM(A_R(a, b), A_R(a, b)), GDBL(A_V(a, b))), A_HHH(a, b))
#define A_Y3(a, b)  GSUB(GM(A_R(a, b), GSUB(A_V(a, b), A_X3(a, b))), GM(A_S1(a, b), A_HHH(a, b)))
#define A_Z3(a, b)  GM(GM(A_H(a, b), OPZ(a)), OPZ(b))
size_t G_dbl_R, G_dbl_A; unsigned G_dbl_calls;
#endif

#ifdef CONTRACT_POINT_DBL_RECORDING
void sm2_z256_point_dbl(SM2_Z256_POINT *R, const SM2_Z256_POINT *A)
REQUIRES(WR_OK(R, sizeof(*R)) && RD_OK(A, sizeof(*A)) && COORDS_OK(A))
ASSIGNS(OBJ_UPTO((uint8_t *)R, sizeof(*R)), G_dbl_R, G_dbl_A, G_dbl_calls)
ENSURES(G_dbl_calls == OLD(G_dbl_calls) + 1 && G_dbl_R == (size_t)R && G_dbl_A == (size_t)A && COORDS_OK(R))
;
#else
void sm2_z256_point_dbl(SM2_Z256_POINT *R, const SM2_Z256_POINT *A)
REQUIRES(WR_OK(R, sizeof(*R)) && RD_OK(A, sizeof(*A)) && COORDS_OK(A))
ASSIGNS(OBJ_UPTO((uint8_t *)R, sizeof(*R)))
ENSURES(COORDS_OK(R))
ENSURES(PZ(R) == D_Z3(OPX(A), OPY(A), OPZ(A)))
#ifdef CONTRACT_DBL_FULL_FORMULAS
ENSURES(PX(R) == D_X3(OPX(A), OPY(A), OPZ(A)))
ENSURES(PY(R) == D_Y3(OPX(A), OPY(A), OPZ(A)))
#endif
;
#endif

void sm2_z256_point_add(SM2_Z256_POINT *r, const SM2_Z256_POINT *a, const SM2_Z256_POINT *b)
REQUIRES(WR_OK(r, sizeof(*r)) && RD_OK(a, sizeof(*a)) && RD_OK(b, sizeof(*b)) && COORDS_OK(a) && COORDS_OK(b))
ASSIGNS(OBJ_UPTO((uint8_t *)r, sizeof(*r)), G_dbl_R, G_dbl_A, G_dbl_calls)
/* identity: O + Q = Q and P + O = P (infinity is any point with Z == 0) */
ENSURES(OPZ(b) == 0 IMPLIES (PX(r) == OPX(a) && PY(r) == OPY(a) && PZ(r) == OPZ(a) && G_dbl_calls == OLD(G_dbl_calls)))
ENSURES((OPZ(a) == 0 && OPZ(b) != 0) IMPLIES (PX(r) == OPX(b) && PY(r) == OPY(b) && PZ(r) == OPZ(b) && G_dbl_calls == OLD(G_dbl_calls)))
/* same x: doubling when the points are equal, the point at infinity (0:0:0) when they are opposite */
ENSURES((OPZ(a) != 0 && OPZ(b) != 0 && A_U1(a, b) == A_U2(a, b) && A_S1(a, b) == A_S2(a, b)) IMPLIES (G_dbl_calls == OLD(G_dbl_calls) + 1 && G_dbl_R == (size_t)r && G_dbl_A == (size_t)a))
ENSURES((OPZ(a) != 0 && OPZ(b) != 0 && A_U1(a, b) == A_U2(a, b) && A_S1(a, b) != A_S2(a, b)) IMPLIES (PX(r) == 0 && PY(r) == 0 && PZ(r) == 0 && G_dbl_calls == OLD(G_dbl_calls)))
/* general case */
#ifdef CONTRACT_ADD_FULL_FORMULAS
/* measured: the nested UF terms of X3/Y3 exhaust 12 GB in propositional reduction; only Z3 = H Z1 Z2 is kept by default */
ENSURES((OPZ(a) != 0 && OPZ(b) != 0 && A_U1(a, b) != A_U2(a, b)) IMPLIES (G_dbl_calls == OLD(G_dbl_calls)
	&& PX(r) == A_X3(a, b) && PY(r) == A_Y3(a, b) && PZ(r) == A_Z3(a, b)))
#else
ENSURES((OPZ(a) != 0 && OPZ(b) != 0 && A_U1(a, b) != A_U2(a, b)) IMPLIES (G_dbl_calls == OLD(G_dbl_calls) && PZ(r) == A_Z3(a, b)))
#endif
ENSURES(COORDS_OK(r))
;

/* -P = (X : -Y : Z) */
void sm2_z256_point_neg(SM2_Z256_POINT *R, const SM2_Z256_POINT *P)
REQUIRES(WR_OK(R, sizeof(*R)) && RD_OK(P, sizeof(*P)) && COORDS_OK(P))
ASSIGNS(OBJ_UPTO((uint8_t *)R, sizeof(*R)))
ENSURES(PX(R) == OPX(P) && PZ(R) == OPZ(P) && PY(R) == GSUB(0, OPY(P)) && COORDS_OK(R))
;
#endif
