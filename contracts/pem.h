/* Contract for pem_read of src/pem.c (C14 "never write more than the capacity the caller declared", C06).
 * stdio and string functions and the base64 decoder are replaced by contracts:
 *   fgets    yields NULL or a NUL-terminated line inside the buffer;  strlen/strcmp are pure;  snprintf writes inside its buffer;
 *   base64_decode_update / _finish write at most 106 / 48 bytes to the buffer they are given and report how many (or fail). */
#ifndef CONTRACTS_PEM_H
#define CONTRACTS_PEM_H
#include "verif.h"
#include <stdio.h>
#include <gmssl/pem.h>
#include <gmssl/base64.h>
#ifdef VERIF_CBMC
size_t __CPROVER_uninterpreted_strlen_of(size_t, size_t);
int __CPROVER_uninterpreted_strcmp_of(size_t, size_t);
unsigned G_b64_calls; size_t G_b64_last_out;
#endif
char *fgets(char *s, int n, FILE *fp)
REQUIRES(n >= 2 && WR_OK(s, n))
ASSIGNS(OBJ_UPTO((uint8_t *)s, n))
ENSURES(RET == NULL || (RET == s && s[n - 1] == 0))
;
int feof(FILE *fp)
ASSIGNS()
ENSURES(1)
;
/* assumed: the length of the NUL-terminated string at s, below the size of the 80-byte line buffers used here */
size_t strlen(const char *s)
REQUIRES(RD_OK(s, 1))
ASSIGNS()
ENSURES(RET <= 79)
;
int strcmp(const char *a, const char *b)
REQUIRES(RD_OK(a, 1) && RD_OK(b, 1))
ASSIGNS()
ENSURES(1)
;
static int remove_newline(char *line)
REQUIRES(RW_OK(line, 80))
ASSIGNS(OBJ_UPTO((uint8_t *)line, 80))
ENSURES(line[79] == OLD(line[79]))
;
void base64_decode_init(BASE64_CTX *ctx)
REQUIRES(WR_OK(ctx, sizeof(BASE64_CTX)))
ASSIGNS(OBJ_UPTO((uint8_t *)ctx, sizeof(BASE64_CTX)))
ENSURES(1)
;
int base64_decode_update(BASE64_CTX *ctx, const uint8_t *in, int inl, uint8_t *out, int *outl)
REQUIRES(RW_OK(ctx, sizeof(BASE64_CTX)) && inl >= 0 && inl <= 79 && (inl == 0 || RD_OK(in, inl)) && WR_OK(out, 106) && WR_OK(outl, sizeof(int)))
ASSIGNS(OBJ_UPTO((uint8_t *)ctx, sizeof(BASE64_CTX)), OBJ_UPTO(out, 106), *outl, G_b64_calls, G_b64_last_out)
ENSURES(RET >= -1 && RET <= 1 && *outl >= 0 && *outl <= 106 && G_b64_calls == OLD(G_b64_calls) + 1 && G_b64_last_out == (size_t)out)
;
int base64_decode_finish(BASE64_CTX *ctx, uint8_t *out, int *outl)
REQUIRES(RW_OK(ctx, sizeof(BASE64_CTX)) && WR_OK(out, 48) && WR_OK(outl, sizeof(int)))
ASSIGNS(OBJ_UPTO((uint8_t *)ctx, sizeof(BASE64_CTX)), OBJ_UPTO(out, 48), *outl, G_b64_calls, G_b64_last_out)
ENSURES((RET == 1 || RET == -1) && *outl >= 0 && *outl <= 48 && G_b64_calls == OLD(G_b64_calls) + 1 && G_b64_last_out == (size_t)out)
;

int pem_read(FILE *fp, const char *name, uint8_t *data, size_t *datalen, size_t maxlen)
REQUIRES(RD_OK(name, 1) && maxlen <= 4096 && (maxlen == 0 || WR_OK(data, maxlen)) && WR_OK(datalen, sizeof(size_t)) && SEPARATE(data, datalen))
ASSIGNS(*datalen; maxlen != 0: OBJ_WHOLE(data); G_b64_calls, G_b64_last_out)
ENSURES(RET == 1 || RET == 0 || RET == -1)
ENSURES(RET == 1 IMPLIES *datalen <= maxlen)
;
#endif
