/* Template: contracts for the buffered streaming layer of a counter-type mode (src/sm4_ctr.c: sm4_ctr_encrypt_update/finish and
 * sm4_ctr32_encrypt_update/finish) — C04 "any chunking yields the same bytes", per call:
 *   S = (bytes buffered before the call) || (input of the call)
 *   the block function is given exactly the first 16*floor(|S|/16) bytes of S, in order, writing to consecutive output
 *   positions starting at `out`; the remaining |S| mod 16 bytes are the new buffer; *outlen is that multiple of 16 and never
 *   exceeds what a query with out == NULL reports; finish emits the buffered bytes only.
 * Instantiate with ST_CTX_T, ST_UPDATE, ST_FINISH, ST_BLOCKS.  The block function is replaced by a recording contract
 * (stream observed at ghost position G_sk). */
#include "verif.h"
#include "libc.h"
#include <gmssl/sm4.h>
#ifdef VERIF_CBMC
size_t G_sk;
size_t G_bf_fed; uint8_t G_bf_byte; unsigned G_bf_calls; size_t G_bf_key; size_t G_bf_ctr; size_t G_bf_out0; size_t G_bf_out_next; int G_bf_chain_ok;
uint8_t G_blk0[16];    /* harness snapshot of ctx->block before the call */
#define ST_B0(c)     OLD((c)->block_nbytes)
#define ST_TOTAL(c)  (OLD((c)->block_nbytes) + inlen)
#if ST_HOLDBACK
/* a decryptor that must see the end of the data before it can remove the padding keeps the last 1..16 bytes */
#define ST_EMIT(c)   (ST_TOTAL(c) == 0 ? (size_t)0 : ((ST_TOTAL(c) - 1) / 16) * 16)
#define ST_NB_OK(n)  ((n) <= 16)
#else
#define ST_EMIT(c)   ((ST_TOTAL(c) / 16) * 16)
#define ST_NB_OK(n)  ((n) < 16)
#endif
/* S[j] with the input part read in the PRE-state (in place, the input is overwritten by the output) */
#define ST_S_SK(c)   (G_sk < ST_B0(c) ? G_blk0[G_sk < 16 ? G_sk : 0] : OLD(*((in != NULL && (c) != NULL && G_sk >= (c)->block_nbytes && G_sk - (c)->block_nbytes < inlen) ? (in + (G_sk - (c)->block_nbytes)) : &G_zero_byte)))
#if ST_HOLDBACK
#define ST_TAILIDX(c) (((c)->block_nbytes + inlen == 0 ? (size_t)0 : (((c)->block_nbytes + inlen - 1) / 16) * 16) + verif_gk)
#else
#define ST_TAILIDX(c) ((((c)->block_nbytes + inlen) / 16) * 16 + verif_gk)
#endif
#define ST_S_TAIL(c) (ST_EMIT(c) + verif_gk < ST_B0(c) ? G_blk0[(ST_EMIT(c) + verif_gk) < 16 ? (ST_EMIT(c) + verif_gk) : 0] : OLD(*((in != NULL && (c) != NULL && ST_TAILIDX(c) >= (c)->block_nbytes && ST_TAILIDX(c) - (c)->block_nbytes < inlen) ? (in + (ST_TAILIDX(c) - (c)->block_nbytes)) : &G_zero_byte)))
#define ST_GHOSTS G_bf_fed, G_bf_byte, G_bf_calls, G_bf_key, G_bf_ctr, G_bf_out0, G_bf_out_next, G_bf_chain_ok
#define ST_ZERO (G_bf_fed == 0 && G_bf_calls == 0 && G_bf_chain_ok == 1)
#define ST_SNAP(c) ((c) == NULL || (G_blk0[0] == (c)->block[0] && G_blk0[1] == (c)->block[1] && G_blk0[2] == (c)->block[2] && G_blk0[3] == (c)->block[3] \
	&& G_blk0[4] == (c)->block[4] && G_blk0[5] == (c)->block[5] && G_blk0[6] == (c)->block[6] && G_blk0[7] == (c)->block[7] \
	&& G_blk0[8] == (c)->block[8] && G_blk0[9] == (c)->block[9] && G_blk0[10] == (c)->block[10] && G_blk0[11] == (c)->block[11] \
	&& G_blk0[12] == (c)->block[12] && G_blk0[13] == (c)->block[13] && G_blk0[14] == (c)->block[14] && G_blk0[15] == (c)->block[15]))
#endif

void ST_BLOCKS(const SM4_KEY *key, uint8_t ctr[16], const uint8_t *in, size_t nblocks, uint8_t *out)
REQUIRES(RD_OK(key, sizeof(SM4_KEY)) && RW_OK(ctr, 16) && nblocks >= 1 && nblocks <= ((size_t)1 << 40))
REQUIRES(RD_OK(in, 16 * nblocks) && WR_OK(out, 16 * nblocks))
/* block-wise in place is fine; any other overlap is not */
REQUIRES(in == out || !__CPROVER_same_object(in, out) || __CPROVER_POINTER_OFFSET(in) + 16 * nblocks <= __CPROVER_POINTER_OFFSET(out)
	|| __CPROVER_POINTER_OFFSET(out) + 16 * nblocks <= __CPROVER_POINTER_OFFSET(in))
#ifdef ST_EXACT_FRAME
/* exact frame (symbolic-size havoc, slower): needed when in == out, where the unwritten tail of the buffer is still input */
ASSIGNS(OBJ_UPTO(ctr, 16), OBJ_UPTO(out, 16 * nblocks), ST_GHOSTS)
#else
ASSIGNS(OBJ_UPTO(ctr, 16); nblocks == 1: OBJ_UPTO(out, 16); nblocks != 1: OBJ_WHOLE(out); ST_GHOSTS)
#endif
ENSURES(G_bf_fed == OLD(G_bf_fed) + 16 * nblocks && G_bf_calls == OLD(G_bf_calls) + 1 && G_bf_key == (size_t)key && G_bf_ctr == (size_t)ctr)
ENSURES((G_sk >= OLD(G_bf_fed) && G_sk - OLD(G_bf_fed) < 16 * nblocks)
	? G_bf_byte == OLD(*((G_sk >= G_bf_fed && G_sk - G_bf_fed < 16 * nblocks) ? (in + (G_sk - G_bf_fed)) : &G_zero_byte)) : G_bf_byte == OLD(G_bf_byte))
ENSURES(G_bf_out0 == (OLD(G_bf_calls) == 0 ? (size_t)out : OLD(G_bf_out0)))
ENSURES(G_bf_chain_ok == ((OLD(G_bf_calls) == 0 || (OLD(G_bf_chain_ok) == 1 && (size_t)out == OLD(G_bf_out_next))) ? 1 : 0))
ENSURES(G_bf_out_next == (size_t)out + 16 * nblocks)
;

int ST_UPDATE(ST_CTX_T *ctx, const uint8_t *in, size_t inlen, uint8_t *out, size_t *outlen)
REQUIRES(ctx == NULL || RW_OK(ctx, sizeof(ST_CTX_T)))
REQUIRES(in == NULL || inlen == 0 || RD_OK(in, inlen))
REQUIRES(outlen == NULL || WR_OK(outlen, sizeof(size_t)))
REQUIRES(inlen <= ((size_t)1 << 40) && G_sk < ((size_t)1 << 41) && verif_gk < 16)
/* capacity: what the size query reports */
REQUIRES(out == NULL || inlen == 0 || WR_OK(out, 16 * ((inlen + 15) / 16)))
/* in place only when nothing is buffered; otherwise disjoint */
REQUIRES(out == NULL || in == NULL || inlen == 0 || SEPARATE(in, out) || (in == out && ctx != NULL && ctx->block_nbytes == 0))
REQUIRES(ctx == NULL || (SEPARATE(ctx, in) && SEPARATE(ctx, out) && SEPARATE(ctx, outlen)))
REQUIRES(SEPARATE(outlen, out) && SEPARATE(outlen, in) && ST_ZERO && ST_SNAP(ctx))
ASSIGNS(ctx != NULL: OBJ_UPTO((uint8_t *)ctx, sizeof(ST_CTX_T)); outlen != NULL: OBJ_UPTO((uint8_t *)outlen, sizeof(size_t));
	out != NULL && inlen != 0: OBJ_WHOLE(out); ST_GHOSTS)
ENSURES(RET == 1 || RET == -1)
ENSURES((ctx == NULL || in == NULL || outlen == NULL) IMPLIES RET == -1)
ENSURES((RET == 1 && out == NULL) IMPLIES (*outlen == 16 * ((inlen + 15) / 16) && G_bf_calls == 0))
ENSURES((RET == 1 && out != NULL) IMPLIES ST_NB_OK(OLD(ctx->block_nbytes)))
ENSURES((ctx != NULL && in != NULL && outlen != NULL && out != NULL && ST_NB_OK(OLD(ctx->block_nbytes))) IMPLIES RET == 1)
ENSURES((RET == 1 && out != NULL) IMPLIES (*outlen == ST_EMIT(ctx) && *outlen <= 16 * ((inlen + 15) / 16) && ctx->block_nbytes == ST_TOTAL(ctx) - ST_EMIT(ctx)
	&& G_bf_fed == ST_EMIT(ctx) && (G_bf_calls == 0 || (G_bf_out0 == (size_t)out && G_bf_chain_ok == 1 && G_bf_key == (size_t)&ctx->sm4_key && G_bf_ctr == (size_t)ctx->ST_IVFIELD))))
/* the block function saw S[0 .. emit) and the buffer holds S[emit ..) */
ENSURES((RET == 1 && out != NULL && G_sk < ST_EMIT(ctx)) IMPLIES G_bf_byte == ST_S_SK(ctx))
ENSURES((RET == 1 && out != NULL && verif_gk < ctx->block_nbytes) IMPLIES ctx->block[verif_gk] == ST_S_TAIL(ctx))
;

#ifdef ST_FINISH
int ST_FINISH(ST_CTX_T *ctx, uint8_t *out, size_t *outlen)
REQUIRES(ctx == NULL || RW_OK(ctx, sizeof(ST_CTX_T)))
REQUIRES(outlen == NULL || WR_OK(outlen, sizeof(size_t)))
REQUIRES(out == NULL || WR_OK(out, 16))
REQUIRES(ctx == NULL || (SEPARATE(ctx, out) && SEPARATE(ctx, outlen)))
REQUIRES(SEPARATE(outlen, out) && ST_ZERO && verif_gk < 16)
ASSIGNS(ctx != NULL: OBJ_UPTO((uint8_t *)ctx, sizeof(ST_CTX_T)); outlen != NULL: OBJ_UPTO((uint8_t *)outlen, sizeof(size_t)); out != NULL: OBJ_UPTO(out, 16); ST_GHOSTS)
ENSURES(RET == 1 || RET == -1)
ENSURES((ctx == NULL || outlen == NULL) IMPLIES RET == -1)
ENSURES((RET == 1 && out == NULL) IMPLIES *outlen == 16)
ENSURES((RET == 1 && out != NULL) IMPLIES (OLD(ctx->block_nbytes) < 16 && *outlen == OLD(ctx->block_nbytes) && G_bf_calls == 1 && G_bf_fed == 16
	&& G_bf_key == (size_t)&ctx->sm4_key && G_bf_ctr == (size_t)ctx->ST_IVFIELD
	&& (verif_gk < *outlen IMPLIES out[verif_gk] == ctx->block[verif_gk])))
;
#endif
