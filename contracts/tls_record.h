/* Contracts for the TLCP / TLS 1.2 record protection of src/tls.c (C11, C06, C18). */
#ifndef CONTRACTS_TLS_RECORD_H
#define CONTRACTS_TLS_RECORD_H
#include "verif.h"
#include "sm3_hmac_transcript.h"
#include "rand.h"
#include <gmssl/sm4.h>
#include <gmssl/tls.h>

#ifdef VERIF_CBMC
/* constant-time comparison record */
int G_scmp_last; size_t G_scmp_n; size_t G_scmp_a; size_t G_scmp_b; unsigned G_scmp_calls;
unsigned G_cbcd_calls; size_t G_cbcd_nblocks; size_t G_cbcd_in; size_t G_cbcd_out;
unsigned G_cbce_calls;
#endif

int gmssl_secure_memcmp(const volatile void * volatile in_a, const volatile void * volatile in_b, size_t len)
REQUIRES(len == 0 || (RD_OK((const void *)in_a, len) && RD_OK((const void *)in_b, len)))
ASSIGNS(G_scmp_last, G_scmp_n, G_scmp_a, G_scmp_b, G_scmp_calls)
ENSURES(G_scmp_last == RET && G_scmp_n == len && G_scmp_a == (size_t)in_a && G_scmp_b == (size_t)in_b && G_scmp_calls == OLD(G_scmp_calls) + 1)
;

void sm4_cbc_decrypt_blocks(const SM4_KEY *key, uint8_t iv[16], const uint8_t *in, size_t nblocks, uint8_t *out)
REQUIRES(RD_OK(key, sizeof(*key)) && RW_OK(iv, 16) && nblocks <= 4096 && (nblocks == 0 || (RD_OK(in, 16 * nblocks) && WR_OK(out, 16 * nblocks))))
ASSIGNS(OBJ_UPTO(iv, 16); nblocks != 0: OBJ_UPTO(out, 16 * nblocks); G_cbcd_calls, G_cbcd_nblocks, G_cbcd_in, G_cbcd_out)
ENSURES(G_cbcd_calls == OLD(G_cbcd_calls) + 1 && G_cbcd_nblocks == nblocks && G_cbcd_in == (size_t)in && G_cbcd_out == (size_t)out)
;

#ifdef CONTRACT_CBCE_RECORDING
/* recording variant: the plaintext stream given to CBC encryption (observed at ghost position G_ek), which iv / key object
   chains the calls, and where the output goes */
#ifdef VERIF_CBMC
size_t G_ek; size_t G_cbce_fed; uint8_t G_cbce_byte; size_t G_cbce_iv; size_t G_cbce_key; size_t G_cbce_out0; size_t G_cbce_out_next; int G_cbce_chain_ok;
size_t G_cbce_last_in;
const uint8_t G_zero_byte = 0;
#endif
void sm4_cbc_encrypt_blocks(const SM4_KEY *key, uint8_t iv[16], const uint8_t *in, size_t nblocks, uint8_t *out)
REQUIRES(RD_OK(key, sizeof(*key)) && RW_OK(iv, 16) && nblocks >= 1 && nblocks <= 4096 && RD_OK(in, 16 * nblocks) && WR_OK(out, 16 * nblocks))
ASSIGNS(OBJ_UPTO(iv, 16), OBJ_WHOLE(out), G_cbce_calls, G_cbce_fed, G_cbce_byte, G_cbce_iv, G_cbce_key, G_cbce_out0, G_cbce_out_next, G_cbce_chain_ok, G_cbce_last_in)
ENSURES(G_cbce_calls == OLD(G_cbce_calls) + 1 && G_cbce_fed == OLD(G_cbce_fed) + 16 * nblocks && G_cbce_last_in == (size_t)in)
ENSURES((G_ek >= OLD(G_cbce_fed) && G_ek - OLD(G_cbce_fed) < 16 * nblocks)
	? G_cbce_byte == OLD(*((G_ek >= G_cbce_fed && G_ek - G_cbce_fed < 16 * nblocks) ? (in + (G_ek - G_cbce_fed)) : &G_zero_byte)) : G_cbce_byte == OLD(G_cbce_byte))
ENSURES(G_cbce_out0 == (OLD(G_cbce_calls) == 0 ? (size_t)out : OLD(G_cbce_out0)))
ENSURES(G_cbce_chain_ok == ((OLD(G_cbce_calls) == 0 || (OLD(G_cbce_chain_ok) == 1 && (size_t)out == OLD(G_cbce_out_next) && (size_t)iv == OLD(G_cbce_iv) && (size_t)key == OLD(G_cbce_key))) ? 1 : 0))
ENSURES(G_cbce_out_next == (size_t)out + 16 * nblocks && G_cbce_iv == (size_t)iv && G_cbce_key == (size_t)key)
;

/* C11: protect.  MAC-then-encrypt of RFC 5246 6.2.3.2 / GB/T 38636: MAC over seq_num || header || data, then
   data || MAC || padding (padding_len + 1 bytes, each equal to padding_len, total a multiple of 16) CBC-encrypted under a
   freshly drawn 16-byte IV that is sent first. */
int tls_cbc_encrypt(const SM3_HMAC_CTX *inited_hmac_ctx, const SM4_KEY *enc_key, const uint8_t seq_num[8], const uint8_t header[5],
	const uint8_t *in, size_t inlen, uint8_t *out, size_t *outlen)
REQUIRES(inited_hmac_ctx == NULL || RD_OK(inited_hmac_ctx, sizeof(*inited_hmac_ctx)))
REQUIRES(enc_key == NULL || RD_OK(enc_key, sizeof(*enc_key)))
REQUIRES((seq_num == NULL || RD_OK(seq_num, 8)) && (header == NULL || RD_OK(header, 5)) && (outlen == NULL || WR_OK(outlen, sizeof(size_t))))
REQUIRES(inlen <= 70000 && (in == NULL || inlen == 0 || RD_OK(in, inlen)))
/* capacity: iv + data rounded down to blocks + three blocks */
REQUIRES(out == NULL || WR_OK(out, 16 + (inlen - inlen % 16) + 48))
REQUIRES(inited_hmac_ctx == NULL || (HM_FED(inited_hmac_ctx) == 0 && HM_TSEEN(inited_hmac_ctx) == 0))
REQUIRES(G_cbce_calls == 0 && G_cbce_fed == 0 && G_cbce_chain_ok == 1 && G_ek < 70000 && G_tk < 70000 && SEPARATE(out, in) && SEPARATE(out, outlen))
ASSIGNS(out != NULL: OBJ_WHOLE(out); outlen != NULL: *outlen; G_hfin_fed, G_hfin_tbyte, G_hfin_tseen, G_hfin_calls, G_hfin_mac,
	G_rb_fail, G_rb_calls, G_rb_buf, G_rb_len,
	G_cbce_calls, G_cbce_fed, G_cbce_byte, G_cbce_iv, G_cbce_key, G_cbce_out0, G_cbce_out_next, G_cbce_chain_ok, G_cbce_last_in)
ENSURES(RET == 1 || RET == -1)
ENSURES(RET == 1 IMPLIES (inited_hmac_ctx != NULL && enc_key != NULL && seq_num != NULL && header != NULL && out != NULL && outlen != NULL && (in != NULL || inlen == 0)
	&& inlen <= 16384 && ((((size_t)header[3]) << 8) | header[4]) == inlen))
/* the MAC covers seq_num || header || data */
ENSURES(RET == 1 IMPLIES (G_hfin_calls == OLD(G_hfin_calls) + 1 && G_hfin_fed == 13 + inlen))
ENSURES((RET == 1 && G_tk < 8) IMPLIES (G_hfin_tseen == 1 && G_hfin_tbyte == seq_num[G_tk]))
ENSURES((RET == 1 && G_tk >= 8 && G_tk < 13) IMPLIES (G_hfin_tseen == 1 && G_hfin_tbyte == header[G_tk - 8]))
ENSURES((RET == 1 && G_tk >= 13 && G_tk < 13 + inlen) IMPLIES (G_hfin_tseen == 1 && G_hfin_tbyte == in[G_tk - 13]))
/* a fresh IV: one successful 16-byte draw, and that object is the chaining value of every CBC call */
ENSURES(RET == 1 IMPLIES (G_rb_calls == OLD(G_rb_calls) + 1 && G_rb_len == 16 && G_rb_fail == OLD(G_rb_fail) && G_cbce_iv == G_rb_buf && G_cbce_key == (size_t)enc_key))
ENSURES((G_rb_calls != OLD(G_rb_calls) && G_rb_fail != OLD(G_rb_fail)) IMPLIES (RET == -1 && G_cbce_calls == 0))
/* encrypted stream = data || MAC(32) || padding, to out + 16 onwards, in one chain */
ENSURES(RET == 1 IMPLIES (G_cbce_fed == (inlen - inlen % 16) + 48 && *outlen == 16 + G_cbce_fed && G_cbce_out0 == (size_t)(out + 16) && G_cbce_chain_ok == 1
	&& G_hfin_mac == G_cbce_last_in + inlen % 16))
ENSURES((RET == 1 && G_ek < inlen) IMPLIES G_cbce_byte == in[G_ek])
ENSURES((RET == 1 && G_ek >= inlen + 32 && G_ek < G_cbce_fed) IMPLIES G_cbce_byte == (uint8_t)(15 - inlen % 16))
;
#else
void sm4_cbc_encrypt_blocks(const SM4_KEY *key, uint8_t iv[16], const uint8_t *in, size_t nblocks, uint8_t *out)
REQUIRES(RD_OK(key, sizeof(*key)) && RW_OK(iv, 16) && nblocks <= 4096 && (nblocks == 0 || (RD_OK(in, 16 * nblocks) && WR_OK(out, 16 * nblocks))))
ASSIGNS(OBJ_UPTO(iv, 16); nblocks != 0: OBJ_UPTO(out, 16 * nblocks); G_cbce_calls)
ENSURES(G_cbce_calls == OLD(G_cbce_calls) + 1)
;
#endif

/* C11: unprotect.  RET == 1 only if: the whole padding (padding_len bytes + the length byte) lies behind a 32-byte MAC inside
   the decrypted body; every padding byte equals padding_len; the MAC was recomputed over
   seq_num(8) || type || version(2) || BE16(*outlen) || out[0..*outlen) and compared, over all 32 bytes, with the bytes that follow
   the payload; *outlen is smaller than the ciphertext.  No write outside out[0 .. inlen-16). */
int tls_cbc_decrypt(const SM3_HMAC_CTX *inited_hmac_ctx, const SM4_KEY *dec_key, const uint8_t seq_num[8], const uint8_t enced_header[5],
	const uint8_t *in, size_t inlen, uint8_t *out, size_t *outlen)
REQUIRES(RD_OK(inited_hmac_ctx, sizeof(*inited_hmac_ctx)) && RD_OK(dec_key, sizeof(*dec_key)) && RD_OK(seq_num, 8) && RD_OK(enced_header, 5))
REQUIRES(inlen <= 65536 && (in == NULL || RD_OK(in, inlen)) && WR_OK(outlen, sizeof(*outlen)))
/* capacity the callers provide: the record buffer minus header, at least the decrypted body */
REQUIRES(inlen < 16 || WR_OK(out, inlen - 16))
REQUIRES(HM_FED(inited_hmac_ctx) == 0 && HM_TSEEN(inited_hmac_ctx) == 0)
ASSIGNS(inlen >= 16: OBJ_UPTO(out, inlen - 16); *outlen, G_scmp_last, G_scmp_n, G_scmp_a, G_scmp_b, G_scmp_calls,
	G_cbcd_calls, G_cbcd_nblocks, G_cbcd_in, G_cbcd_out, G_hfin_fed, G_hfin_tbyte, G_hfin_tseen, G_hfin_calls, G_hfin_mac)
ENSURES(RET == 1 || RET == -1)
ENSURES(RET == 1 IMPLIES inlen % 16 == 0 && inlen >= 64 && inlen <= 16 + 16384 + 32 + 256)
ENSURES(RET == 1 IMPLIES G_cbcd_calls == OLD(G_cbcd_calls) + 1 && G_cbcd_nblocks == (inlen - 16) / 16 && G_cbcd_in == (size_t)(in + 16) && G_cbcd_out == (size_t)out)
/* padding_len = out[inlen-17]; body = payload || mac(32) || padding(padding_len) || padding_len */
ENSURES(RET == 1 IMPLIES (size_t)out[inlen - 17] + 1 + 32 <= inlen - 16 && *outlen == inlen - 16 - 33 - out[inlen - 17])
ENSURES((RET == 1 && verif_gk < (size_t)out[inlen - 17]) IMPLIES out[(inlen - 16) - out[inlen - 17] - 1 + verif_gk] == out[inlen - 17])
ENSURES(RET == 1 IMPLIES G_hfin_calls == OLD(G_hfin_calls) + 1 && G_hfin_fed == 13 + *outlen)
ENSURES((RET == 1 && G_tk < 8) IMPLIES (G_hfin_tseen == 1 && G_hfin_tbyte == seq_num[G_tk]))
ENSURES((RET == 1 && G_tk >= 8 && G_tk < 11) IMPLIES (G_hfin_tseen == 1 && G_hfin_tbyte == enced_header[G_tk - 8]))
ENSURES((RET == 1 && G_tk == 11) IMPLIES (G_hfin_tseen == 1 && G_hfin_tbyte == (uint8_t)(*outlen >> 8)))
ENSURES((RET == 1 && G_tk == 12) IMPLIES (G_hfin_tseen == 1 && G_hfin_tbyte == (uint8_t)(*outlen)))
ENSURES((RET == 1 && G_tk >= 13 && G_tk < 13 + *outlen) IMPLIES (G_hfin_tseen == 1 && G_hfin_tbyte == out[G_tk - 13]))
ENSURES(RET == 1 IMPLIES G_scmp_calls == OLD(G_scmp_calls) + 1 && G_scmp_last == 0 && G_scmp_n == 32
	&& ((G_scmp_a == (size_t)(out + *outlen) && G_scmp_b == G_hfin_mac) || (G_scmp_b == (size_t)(out + *outlen) && G_scmp_a == G_hfin_mac)))
;

#endif
