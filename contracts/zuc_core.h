/* Contracts for src/zuc.c zuc_encrypt (C04 "ZUC ... compute exactly the function in their standards", C06 memory safety of
 * the byte-stream interface).  Stated here: bounds (exactly inlen bytes read and written), frame, and the LFSR work-mode
 * step of GB/T 33133.1 5.3.2 / ETSI ZUC spec 3.2:  s16 = 2^15 s15 + 2^17 s13 + 2^21 s10 + 2^20 s4 + (1 + 2^8) s0
 * mod (2^31 - 1), with 0 represented as 2^31 - 1; then (s1..s16) -> (s0..s15).  One step per started 32-bit word.
 * NOT stated: the key-stream word (bit reorganisation, F, S-boxes) and R1/R2 — those stay with the known-answer tests. */
#ifndef CONTRACTS_ZUC_CORE_H
#define CONTRACTS_ZUC_CORE_H
#include "verif.h"
#include <gmssl/zuc.h>
#ifdef VERIF_CBMC
typedef unsigned __CPROVER_bitvector[56] bv56;
#define ZUC_M ((bv56)0x7fffffff)
#define ZUC_SUM(s0, s4, s10, s13, s15) ((bv56)(s0) + ((bv56)(s0) << 8) + ((bv56)(s4) << 20) + ((bv56)(s10) << 21) + ((bv56)(s13) << 17) + ((bv56)(s15) << 15))
#define ZUC_STEP_OK(v, s0, s4, s10, s13, s15) ((v) <= 0x7fffffffu && (bv56)(v) % ZUC_M == ZUC_SUM(s0, s4, s10, s13, s15) % ZUC_M \
	&& (ZUC_SUM(s0, s4, s10, s13, s15) != 0 IMPLIES (v) != 0))
#define ZUC_NW(inlen) (((inlen) + 3) / 4)
#endif
void zuc_encrypt(ZUC_STATE *state, const uint8_t *in, size_t inlen, uint8_t *out)
REQUIRES(RW_OK(state, sizeof(ZUC_STATE)) && inlen <= 8 && verif_gk < 16)
/* the input may live next to the state in one object (zuc_modes.c passes ctx->block with &ctx->zuc_state): ranges disjoint */
REQUIRES(inlen == 0 || (RD_OK(in, inlen) && WR_OK(out, inlen) && SEPARATE(state, out)
	&& (SEPARATE(state, in) || __CPROVER_POINTER_OFFSET(in) >= __CPROVER_POINTER_OFFSET(state) + sizeof(ZUC_STATE)
		|| __CPROVER_POINTER_OFFSET(in) + inlen <= __CPROVER_POINTER_OFFSET(state))))
REQUIRES(state->LFSR[0] <= 0x7fffffffu && state->LFSR[1] <= 0x7fffffffu && state->LFSR[4] <= 0x7fffffffu && state->LFSR[5] <= 0x7fffffffu
	&& state->LFSR[10] <= 0x7fffffffu && state->LFSR[11] <= 0x7fffffffu && state->LFSR[13] <= 0x7fffffffu && state->LFSR[14] <= 0x7fffffffu && state->LFSR[15] <= 0x7fffffffu)
ASSIGNS(OBJ_UPTO((uint8_t *)state, sizeof(ZUC_STATE)); inlen != 0: OBJ_UPTO(out, inlen))
ENSURES(ZUC_NW(inlen) == 0 IMPLIES state->LFSR[verif_gk] == OLD(state->LFSR[verif_gk < 16 ? verif_gk : 0]))
ENSURES(ZUC_NW(inlen) == 1 IMPLIES ((verif_gk < 15 IMPLIES state->LFSR[verif_gk] == OLD(state->LFSR[verif_gk < 15 ? verif_gk + 1 : 0]))
	&& ZUC_STEP_OK(state->LFSR[15], OLD(state->LFSR[0]), OLD(state->LFSR[4]), OLD(state->LFSR[10]), OLD(state->LFSR[13]), OLD(state->LFSR[15]))))
ENSURES(ZUC_NW(inlen) == 2 IMPLIES ((verif_gk < 14 IMPLIES state->LFSR[verif_gk] == OLD(state->LFSR[verif_gk < 14 ? verif_gk + 2 : 0]))
	&& ZUC_STEP_OK(state->LFSR[14], OLD(state->LFSR[0]), OLD(state->LFSR[4]), OLD(state->LFSR[10]), OLD(state->LFSR[13]), OLD(state->LFSR[15]))
	&& ZUC_STEP_OK(state->LFSR[15], OLD(state->LFSR[1]), OLD(state->LFSR[5]), OLD(state->LFSR[11]), OLD(state->LFSR[14]), state->LFSR[14])))
;
#endif
