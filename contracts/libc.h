/* Contracts for libc functions whose CBMC models are too expensive with symbolic lengths
 * (memcpy of a symbolic length from a loop-havocked pointer ran the SAT back end out of 12 GB).
 * A job opts in with replace=memcpy; the content is described at one ghost index G_mc (P-GIDX). */
#ifndef CONTRACTS_LIBC_H
#define CONTRACTS_LIBC_H
#include "verif.h"
#ifdef VERIF_CBMC
#ifdef G_MC_EXPR
/* a job may align the libc ghost index with its own ghost stream index (the clauses below hold for EVERY index value) */
#define G_mc ((size_t)(G_MC_EXPR))
#else
size_t G_mc;   /* ghost index: never assigned by code under proof */
#endif
#endif
/* a job may give memcpy its own index expression over the parameters (dst, src, n) and the job's ghosts */
#ifdef G_MC_MEMCPY_EXPR
#define MEMCPY_IDX ((size_t)(G_MC_MEMCPY_EXPR))
#else
#define MEMCPY_IDX G_mc
#endif
#ifdef G_MC_MEMSET_EXPR
#define MEMSET_IDX ((size_t)(G_MC_MEMSET_EXPR))
#else
#define MEMSET_IDX G_mc
#endif
void *memcpy(void *dst, const void *src, size_t n)
REQUIRES(n == 0 || (WR_OK(dst, n) && RD_OK(src, n)))
/* no overlap (C11 7.24.2.1) */
REQUIRES(n == 0 || !__CPROVER_same_object(dst, src) ||
	__CPROVER_POINTER_OFFSET(dst) + n <= __CPROVER_POINTER_OFFSET(src) || __CPROVER_POINTER_OFFSET(src) + n <= __CPROVER_POINTER_OFFSET(dst))
#ifdef CONTRACT_MEMCPY_WHOLE_OBJECT
/* coarser frame (the whole destination object), constant-size havoc: for callers whose postcondition does not read the copy */
ASSIGNS(n != 0: OBJ_WHOLE((uint8_t *)dst))
#else
ASSIGNS(n != 0: OBJ_UPTO((uint8_t *)dst, n))
#endif
ENSURES(RET == dst)
ENSURES(MEMCPY_IDX < n IMPLIES ((const uint8_t *)dst)[MEMCPY_IDX] == ((const uint8_t *)src)[MEMCPY_IDX])
#ifdef CONTRACT_MEMCPY_SMALL16
/* copies of at most 16 bytes are described completely (jobs that follow bytes through offset-shifting staging copies) */
#define MC16_(k) ((k) < n IMPLIES ((const uint8_t *)dst)[k] == ((const uint8_t *)src)[k])
ENSURES(n <= 16 IMPLIES (MC16_(0) && MC16_(1) && MC16_(2) && MC16_(3) && MC16_(4) && MC16_(5) && MC16_(6) && MC16_(7)
	&& MC16_(8) && MC16_(9) && MC16_(10) && MC16_(11) && MC16_(12) && MC16_(13) && MC16_(14) && MC16_(15)))
#endif
#ifdef G_MC_MEMCPY_EXPR2
/* a second, independently chosen index (a job that follows two positions through the same copy) */
ENSURES(((size_t)(G_MC_MEMCPY_EXPR2)) < n IMPLIES ((const uint8_t *)dst)[(size_t)(G_MC_MEMCPY_EXPR2)] == ((const uint8_t *)src)[(size_t)(G_MC_MEMCPY_EXPR2)])
#endif
;
/* memcmp as an arbitrary total order test over readable ranges (result unconstrained).
   Recording variant: what was compared, over how many bytes, and the answer (P-TAINT). */
#ifdef CONTRACT_MEMCMP_RECORDING
#ifdef VERIF_CBMC
int G_mcmp_last; size_t G_mcmp_n; size_t G_mcmp_a; size_t G_mcmp_b; unsigned G_mcmp_calls;
#endif
#ifdef CONTRACT_MEMCMP_SEQ
/* additionally: the compared bytes at the ghost index, and the position in the job's global event order */
#ifdef VERIF_CBMC
uint8_t G_mcmp_ak; uint8_t G_mcmp_bk; unsigned G_seq; unsigned G_mcmp_seq;
#endif
int memcmp(const void *a, const void *b, size_t n)
REQUIRES(n == 0 || (RD_OK(a, n) && RD_OK(b, n)))
ASSIGNS(G_mcmp_last, G_mcmp_n, G_mcmp_a, G_mcmp_b, G_mcmp_calls, G_mcmp_ak, G_mcmp_bk, G_seq, G_mcmp_seq)
ENSURES(G_mcmp_last == RET && G_mcmp_n == n && G_mcmp_a == (size_t)a && G_mcmp_b == (size_t)b && G_mcmp_calls == OLD(G_mcmp_calls) + 1)
ENSURES(G_seq == OLD(G_seq) + 1 && G_mcmp_seq == G_seq)
ENSURES(G_mc < n IMPLIES (G_mcmp_ak == ((const uint8_t *)a)[G_mc] && G_mcmp_bk == ((const uint8_t *)b)[G_mc]))
/* equal ranges agree at every index */
ENSURES((RET == 0 && G_mc < n) IMPLIES ((const uint8_t *)a)[G_mc] == ((const uint8_t *)b)[G_mc])
;
#ifdef CONTRACT_SECURE_MEMCMP_RECORDING
/* the library's constant-time comparison is an equally acceptable way to compare a tag: same record */
int gmssl_secure_memcmp(const volatile void *a, const volatile void *b, size_t n)
REQUIRES(n == 0 || (RD_OK((const void *)a, n) && RD_OK((const void *)b, n)))
ASSIGNS(G_mcmp_last, G_mcmp_n, G_mcmp_a, G_mcmp_b, G_mcmp_calls, G_mcmp_ak, G_mcmp_bk, G_seq, G_mcmp_seq)
ENSURES(G_mcmp_last == RET && G_mcmp_n == n && G_mcmp_a == (size_t)a && G_mcmp_b == (size_t)b && G_mcmp_calls == OLD(G_mcmp_calls) + 1)
ENSURES(G_seq == OLD(G_seq) + 1 && G_mcmp_seq == G_seq)
ENSURES(G_mc < n IMPLIES (G_mcmp_ak == ((const uint8_t *)a)[G_mc] && G_mcmp_bk == ((const uint8_t *)b)[G_mc]))
ENSURES((RET == 0 && G_mc < n) IMPLIES ((const uint8_t *)a)[G_mc] == ((const uint8_t *)b)[G_mc])
;
#endif
#else
int memcmp(const void *a, const void *b, size_t n)
REQUIRES(n == 0 || (RD_OK(a, n) && RD_OK(b, n)))
ASSIGNS(G_mcmp_last, G_mcmp_n, G_mcmp_a, G_mcmp_b, G_mcmp_calls)
ENSURES(G_mcmp_last == RET && G_mcmp_n == n && G_mcmp_a == a && G_mcmp_b == b && G_mcmp_calls == OLD(G_mcmp_calls) + 1)
;
#endif
#else
int memcmp(const void *a, const void *b, size_t n)
REQUIRES(n == 0 || (RD_OK(a, n) && RD_OK(b, n)))
ASSIGNS()
/* equal ranges agree at every index, in particular at the ghost index */
ENSURES((RET == 0 && G_mc < n) IMPLIES ((const uint8_t *)a)[G_mc] == ((const uint8_t *)b)[G_mc])
;
#endif
void *memset(void *dst, int c, size_t n)
REQUIRES(n == 0 || WR_OK(dst, n))
ASSIGNS(n != 0: OBJ_UPTO((uint8_t *)dst, n))
ENSURES(RET == dst)
ENSURES(MEMSET_IDX < n IMPLIES ((const uint8_t *)dst)[MEMSET_IDX] == (uint8_t)c)
;
/* src/hex.c helpers */
void gmssl_secure_clear(void *ptr, size_t len)
REQUIRES(len == 0 || WR_OK(ptr, len))
ASSIGNS(len != 0: OBJ_UPTO((uint8_t *)ptr, len))
ENSURES(G_mc < len IMPLIES ((const uint8_t *)ptr)[G_mc] == 0)
;
#ifdef CONTRACT_MEMXOR_RECORDING
#ifdef VERIF_CBMC
uint8_t G_x_r; unsigned G_x_calls; size_t G_x_len; size_t G_x_rp;
#endif
void gmssl_memxor(void *r, const void *a, const void *b, size_t len)
REQUIRES(len == 0 || (WR_OK(r, len) && RD_OK(a, len) && RD_OK(b, len)))
ASSIGNS(len != 0: OBJ_UPTO((uint8_t *)r, len); G_x_r, G_x_calls, G_x_len, G_x_rp)
ENSURES(G_x_calls == OLD(G_x_calls) + 1 && G_x_len == len && G_x_rp == (size_t)r)
ENSURES(G_mc < len IMPLIES (((const uint8_t *)r)[G_mc] == (uint8_t)(OLD(((const uint8_t *)a)[G_mc < len ? G_mc : 0]) ^ OLD(((const uint8_t *)b)[G_mc < len ? G_mc : 0])) && G_x_r == ((const uint8_t *)r)[G_mc]))
;
#elif !defined(CONTRACT_MEMXOR_CUSTOM)
void gmssl_memxor(void *r, const void *a, const void *b, size_t len)
REQUIRES(len == 0 || (WR_OK(r, len) && RD_OK(a, len) && RD_OK(b, len)))
ASSIGNS(len != 0: OBJ_UPTO((uint8_t *)r, len))
;
#endif
#endif
