/* Contracts for src/sm4_ecb.c (C04): streaming interface vs. the size it reports (the two-mode contract of sm4_cfb.h,
 * 16-byte blocks) plus: the block function is called on whole blocks only, with room for them (its precondition). */
#ifndef CONTRACTS_SM4_ECB_H
#define CONTRACTS_SM4_ECB_H
#include "sm4_ofb.h"
#ifdef VERIF_CBMC
#define ECB_CTX_OK(ctx) (RW_OK(ctx, sizeof(SM4_ECB_CTX)) && (ctx)->block_nbytes < 16)
#endif
void sm4_encrypt_blocks(const SM4_KEY *key, const uint8_t *in, size_t nblocks, uint8_t *out)
REQUIRES(RD_OK(key, sizeof(SM4_KEY)) && nblocks >= 1 && nblocks <= 4097 && RD_OK(in, 16 * nblocks) && WR_OK(out, 16 * nblocks))
ASSIGNS(OBJ_UPTO(out, 16 * nblocks))
;
#define ECB_UPDATE_CONTRACT(fn) \
int fn(SM4_ECB_CTX *ctx, const uint8_t *in, size_t inlen, uint8_t *out, size_t *outlen) \
REQUIRES(ECB_CTX_OK(ctx) && inlen <= 65536 && RD_OK(in, inlen ? inlen : 1) && WR_OK(outlen, sizeof(size_t))) \
REQUIRES(out == NULL || (G_cfb_cap >= OFB_W(ctx->block_nbytes, inlen) && (G_cfb_cap == 0 || WR_OK(out, G_cfb_cap)))) \
ASSIGNS(*outlen; out != NULL: OBJ_UPTO((uint8_t *)ctx, sizeof(SM4_ECB_CTX)); out != NULL && G_cfb_cap != 0: OBJ_UPTO(out, G_cfb_cap)) \
ENSURES(RET == 1 || RET == -1) \
ENSURES((RET == 1 && out != NULL) IMPLIES (*outlen <= G_cfb_cap && ECB_CTX_OK(ctx) && *outlen + ctx->block_nbytes == OLD(ctx->block_nbytes) + inlen)) \
ENSURES((RET == 1 && out == NULL) IMPLIES *outlen >= OFB_W(ctx->block_nbytes, inlen))
ECB_UPDATE_CONTRACT(sm4_ecb_encrypt_update);
ECB_UPDATE_CONTRACT(sm4_ecb_decrypt_update);
/* finish writes nothing; it succeeds only when no partial block is left */
#define ECB_FINISH_CONTRACT(fn) \
int fn(SM4_ECB_CTX *ctx, uint8_t *out, size_t *outlen) \
REQUIRES(ECB_CTX_OK(ctx) && WR_OK(outlen, sizeof(size_t)) && (out == NULL || WR_OK(out, 1))) \
ASSIGNS(*outlen) \
ENSURES(RET == 1 || RET == -1) \
ENSURES((RET == 1 && out != NULL) IMPLIES (*outlen == 0 && ctx->block_nbytes == 0))
ECB_FINISH_CONTRACT(sm4_ecb_encrypt_finish);
ECB_FINISH_CONTRACT(sm4_ecb_decrypt_finish);
#endif
