/* Contract for the SignedData verifier of src/cms.c (C16 "a signed message without any valid signer information never
 * verifies"): RET == 1 only if the SignedData parsed (the parser refuses an empty signerInfos SET), at least one SignerInfo
 * was verified, and every SignerInfo verification returned 1 — over the hash of (ContentInfo header || content).
 * The SignedData parser, the header encoder, SM3 and the per-signer verifier are replaced by contracts. */
#ifndef CONTRACTS_CMS_H
#define CONTRACTS_CMS_H
#include "verif.h"
#include "sm3_transcript.h"
#include <gmssl/cms.h>
#ifdef VERIF_CBMC
#define PTR_IN(lo, p, hi)      __CPROVER_pointer_in_range_dfcc((lo), (p), (hi))
#define G_cms_vfy_ctx verif_cms_vfy_ctx
#define G_cms_vfy_certs verif_cms_vfy_certs
#endif
/* SignedData parser: non-empty signerInfos (asn1_set_from_der is the non-empty form), content and certs are slices (assumed) */
int cms_signed_data_from_der(int *version, int *digest_algors, size_t *digest_algors_cnt, size_t max_digest_algors,
	int *content_type, const uint8_t **content, size_t *content_len, const uint8_t **certs, size_t *certs_len,
	const uint8_t **crls, size_t *crls_len, const uint8_t **signer_infos, size_t *signer_infos_len, const uint8_t **in, size_t *inlen)
REQUIRES(WR_OK(version, sizeof(int)) && max_digest_algors >= 1 && WR_OK(digest_algors, max_digest_algors * sizeof(int)) && WR_OK(digest_algors_cnt, sizeof(size_t)))
REQUIRES(WR_OK(content_type, sizeof(int)) && WR_OK(content, sizeof(*content)) && WR_OK(content_len, sizeof(size_t)) && WR_OK(certs, sizeof(*certs)) && WR_OK(certs_len, sizeof(size_t)))
REQUIRES(WR_OK(crls, sizeof(*crls)) && WR_OK(crls_len, sizeof(size_t)) && WR_OK(signer_infos, sizeof(*signer_infos)) && WR_OK(signer_infos_len, sizeof(size_t)))
REQUIRES(WR_OK(in, sizeof(*in)) && WR_OK(inlen, sizeof(size_t)) && *inlen >= 1 && *inlen <= (size_t)1 << 24 && RD_OK(*in, *inlen))
ASSIGNS(*version, OBJ_UPTO((uint8_t *)digest_algors, max_digest_algors * sizeof(int)), *digest_algors_cnt, *content_type, *content, *content_len, *certs, *certs_len,
	*crls, *crls_len, *signer_infos, *signer_infos_len, *in, *inlen)
ENSURES(RET == 1 || RET == 0 || RET == -1)
ENSURES(RET == 1 IMPLIES (*digest_algors_cnt >= 1 && *digest_algors_cnt <= max_digest_algors && *inlen < OLD(*inlen)
	&& *signer_infos_len >= 1 && *signer_infos_len <= OLD(*inlen) && PTR_IN(OLD(*in), *signer_infos, OLD(*in) + OLD(*inlen))
	&& (size_t)(__CPROVER_POINTER_OFFSET(*signer_infos) - __CPROVER_POINTER_OFFSET(OLD(*in))) + *signer_infos_len <= OLD(*inlen)
	&& *content_len <= OLD(*inlen) && (*content_len == 0 || (PTR_IN(OLD(*in), *content, OLD(*in) + OLD(*inlen))
		&& (size_t)(__CPROVER_POINTER_OFFSET(*content) - __CPROVER_POINTER_OFFSET(OLD(*in))) + *content_len <= OLD(*inlen)))
	&& *certs_len <= OLD(*inlen) && (*certs_len == 0 || (PTR_IN(OLD(*in), *certs, OLD(*in) + OLD(*inlen))
		&& (size_t)(__CPROVER_POINTER_OFFSET(*certs) - __CPROVER_POINTER_OFFSET(OLD(*in))) + *certs_len <= OLD(*inlen)))))
;
int asn1_check(int expr)
ASSIGNS()
ENSURES(RET == (expr ? 1 : -1))
;
int cms_content_info_header_to_der(int content_type, size_t content_len, uint8_t **out, size_t *outlen)
REQUIRES(WR_OK(outlen, sizeof(size_t)) && WR_OK(out, sizeof(*out)) && *out != NULL && WR_OK(*out, 128) && *outlen == 0)
ASSIGNS(OBJ_WHOLE(*out), *out, *outlen)
ENSURES(RET == 1 || RET == -1)
ENSURES(RET == 1 IMPLIES *outlen <= 64)
;
/* one SignerInfo off the front of the window, verified against the running hash and the certificates of the message */
int cms_signer_info_verify_from_der(const SM3_CTX *ctx, const uint8_t *certs, size_t certslen, const uint8_t **cert, size_t *certlen,
	const uint8_t **issuer, size_t *issuer_len, const uint8_t **serial, size_t *serial_len, const uint8_t **authed_attrs, size_t *authed_attrs_len,
	const uint8_t **unauthed_attrs, size_t *unauthed_attrs_len, const uint8_t **in, size_t *inlen)
REQUIRES(RD_OK(ctx, sizeof(SM3_CTX)) && (certslen == 0 || RD_OK(certs, certslen)) && WR_OK(in, sizeof(*in)) && WR_OK(inlen, sizeof(size_t)) && *inlen >= 1 && RD_OK(*in, *inlen))
ASSIGNS(*cert, *certlen, *issuer, *issuer_len, *serial, *serial_len, *authed_attrs, *authed_attrs_len, *unauthed_attrs, *unauthed_attrs_len, *in, *inlen,
	verif_cms_vfy_calls, verif_cms_vfy_bad, G_cms_vfy_ctx, G_cms_vfy_certs)
ENSURES(RET == 1 || RET == 0 || RET == -1)
ENSURES(verif_cms_vfy_calls == OLD(verif_cms_vfy_calls) + 1 && G_cms_vfy_ctx == (size_t)ctx && G_cms_vfy_certs == (size_t)certs)
ENSURES(verif_cms_vfy_bad == ((OLD(verif_cms_vfy_bad) != 0 || RET != 1) ? 1 : 0))
ENSURES(RET == 1 IMPLIES (*inlen < OLD(*inlen) && PTR_IN(OLD(*in), *in, OLD(*in) + OLD(*inlen)) && *in == OLD(*in) + (OLD(*inlen) - *inlen)))
;

int cms_signed_data_verify_from_der(const uint8_t *extra_certs, size_t extra_certs_len, const uint8_t *extra_crls, size_t extra_crls_len,
	int *content_type, const uint8_t **content, size_t *content_len, const uint8_t **certs, size_t *certs_len, const uint8_t **crls, size_t *crls_len,
	const uint8_t **psigner_infos, size_t *psigner_infos_len, const uint8_t **in, size_t *inlen)
REQUIRES(WR_OK(content_type, sizeof(int)) && WR_OK(content, sizeof(*content)) && WR_OK(content_len, sizeof(size_t)) && WR_OK(certs, sizeof(*certs)) && WR_OK(certs_len, sizeof(size_t)))
REQUIRES(WR_OK(crls, sizeof(*crls)) && WR_OK(crls_len, sizeof(size_t)) && WR_OK(psigner_infos, sizeof(*psigner_infos)) && WR_OK(psigner_infos_len, sizeof(size_t)))
REQUIRES(WR_OK(in, sizeof(*in)) && WR_OK(inlen, sizeof(size_t)) && *inlen >= 1 && *inlen <= (size_t)1 << 24 && RD_OK(*in, *inlen) && verif_cms_vfy_calls == 0 && verif_cms_vfy_bad == 0 && G_tk < ((size_t)1 << 25))
ASSIGNS(*content_type, *content, *content_len, *certs, *certs_len, *crls, *crls_len, *psigner_infos, *psigner_infos_len, *in, *inlen,
	verif_cms_vfy_calls, verif_cms_vfy_bad, G_cms_vfy_ctx, G_cms_vfy_certs)
ENSURES(RET == 1 || RET == -1)
/* verified only with at least one SignerInfo, all of them verified, against the certificates carried by the message */
ENSURES(RET == 1 IMPLIES (verif_cms_vfy_calls >= 1 && verif_cms_vfy_bad == 0 && *psigner_infos_len >= 1 && G_cms_vfy_certs == (size_t)*certs))
;
#endif
