/* Contracts for the G1 point import of src/sm9_z256.c (C12), relative to uninterpreted field operations exactly as
 * contracts/sm2_point.h does for SM2: to_mont and the curve test are UF terms; what is proved is the control structure —
 * the format byte, BOTH coordinate range checks on the value that was read, which value is converted and stored where,
 * Z = mont(1), and that success implies the curve test ran on exactly the stored coordinates and passed. */
#ifndef CONTRACTS_SM9_POINT_H
#define CONTRACTS_SM9_POINT_H
#include "sm9_z256.h"
#ifdef VERIF_CBMC
bv256 __CPROVER_uninterpreted_sm9_tomont(bv256);
int __CPROVER_uninterpreted_sm9_oncurve(bv256, bv256, bv256);
#define V256(a)      ((bv256)VAL4(a))
#define TOMONT9(x)   __CPROVER_uninterpreted_sm9_tomont(x)
#define ONCURVE9(P)  (__CPROVER_uninterpreted_sm9_oncurve(V256((P)->X), V256((P)->Y), V256((P)->Z)) != 0)
#define BV_MONT_ONE9 ((bv256)(BV_2_256 - BV_P))
#define BEVAL32(p)   ((bv256)MK4(BE64(p), BE64((p) + 8), BE64((p) + 16), BE64((p) + 24)))
#endif
void sm9_z256_modp_to_mont(sm9_z256_t r, const sm9_z256_t a)
REQUIRES(RD_OK(a, 32) && WR_OK(r, 32))
ASSIGNS(OBJ_UPTO(r, 32))
ENSURES(V256(r) == TOMONT9((bv256)MK4(OLD(a[3]), OLD(a[2]), OLD(a[1]), OLD(a[0]))))
;
int sm9_z256_point_is_on_curve(const SM9_Z256_POINT *P)
REQUIRES(RD_OK(P, sizeof(*P)))
ASSIGNS()
ENSURES(RET == (ONCURVE9(P) ? 1 : 0))
;
int sm9_z256_point_from_uncompressed_octets(SM9_Z256_POINT *P, const uint8_t octets[65])
REQUIRES(WR_OK(P, sizeof(*P)) && RD_OK(octets, 65) && SEPARATE(P, octets))
ASSIGNS(OBJ_UPTO((uint8_t *)P, sizeof(*P)))
ENSURES(RET == 1 || RET == -1)
ENSURES(RET == 1 IMPLIES octets[0] == 0x04 && BEVAL32(octets + 1) < (bv256)BV_P && BEVAL32(octets + 33) < (bv256)BV_P)
ENSURES(RET == 1 IMPLIES V256(P->X) == TOMONT9(BEVAL32(octets + 1)) && V256(P->Y) == TOMONT9(BEVAL32(octets + 33))
	&& V256(P->Z) == BV_MONT_ONE9 && ONCURVE9(P))
;
/* ---- G2 (twist) import: four base-field coordinates, each range-checked on the value read; order on the wire is
 * X.c1 || X.c0 || Y.c1 || Y.c0 (GM/T 0044 7.2.7: the high-degree coefficient first) ---- */
#ifdef VERIF_CBMC
int __CPROVER_uninterpreted_sm9_tw_oncurve(bv256, bv256, bv256, bv256, bv256, bv256);
#define ONCURVE9_TW(P) (__CPROVER_uninterpreted_sm9_tw_oncurve(V256((P)->X[0]), V256((P)->X[1]), V256((P)->Y[0]), V256((P)->Y[1]), V256((P)->Z[0]), V256((P)->Z[1])) != 0)
#endif
int sm9_z256_fp2_from_bytes(sm9_z256_fp2_t r, const uint8_t buf[64])
REQUIRES(WR_OK(r, 64) && RD_OK(buf, 64) && SEPARATE(r, buf))
ASSIGNS(OBJ_UPTO((uint8_t *)r, 64))
ENSURES(RET == 1 || RET == -1)
ENSURES(RET == 1 IMPLIES BEVAL32(buf) < (bv256)BV_P && BEVAL32(buf + 32) < (bv256)BV_P
	&& V256(r[1]) == TOMONT9(BEVAL32(buf)) && V256(r[0]) == TOMONT9(BEVAL32(buf + 32)))
;
int sm9_z256_twist_point_is_on_curve(const SM9_Z256_TWIST_POINT *P)
REQUIRES(RD_OK(P, sizeof(*P)))
ASSIGNS()
ENSURES(RET == (ONCURVE9_TW(P) ? 1 : 0))
;
int sm9_z256_twist_point_from_uncompressed_octets(SM9_Z256_TWIST_POINT *P, const uint8_t octets[129])
REQUIRES(WR_OK(P, sizeof(*P)) && RD_OK(octets, 129) && SEPARATE(P, octets))
ASSIGNS(OBJ_UPTO((uint8_t *)P, sizeof(*P)))
ENSURES(RET == 1 || RET == -1)
ENSURES(RET == 1 IMPLIES octets[0] == 0x04 && BEVAL32(octets + 1) < (bv256)BV_P && BEVAL32(octets + 33) < (bv256)BV_P
	&& BEVAL32(octets + 65) < (bv256)BV_P && BEVAL32(octets + 97) < (bv256)BV_P)
ENSURES(RET == 1 IMPLIES V256(P->X[1]) == TOMONT9(BEVAL32(octets + 1)) && V256(P->X[0]) == TOMONT9(BEVAL32(octets + 33))
	&& V256(P->Y[1]) == TOMONT9(BEVAL32(octets + 65)) && V256(P->Y[0]) == TOMONT9(BEVAL32(octets + 97))
	&& V256(P->Z[0]) == BV_MONT_ONE9 && V256(P->Z[1]) == 0 && ONCURVE9_TW(P))
;
#endif
