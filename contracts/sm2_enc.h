/* Contracts for src/sm2_enc.c (C02, C06, C14). */
#ifndef CONTRACTS_SM2_ENC_H
#define CONTRACTS_SM2_ENC_H
#define CONTRACT_MEMCMP_RECORDING
#include "asn1.h"
#include <gmssl/sm2_z256.h>
#include "sm3_transcript.h"
#include "libc.h"
#include <gmssl/sm2.h>

#ifdef VERIF_CBMC
int G_fb_last; unsigned G_fb_calls; size_t G_fb_in;                     /* C1 import: answer, source bytes */
int G_az_last; unsigned G_az_calls; size_t G_az_buf; size_t G_az_len;   /* all-zero test of the KDF output */
unsigned G_kdf_calls; size_t G_kdf_outlen; size_t G_kdf_out; size_t G_kdf_in; size_t G_kdf_inlen;
unsigned G_pmul_calls; size_t G_pmul_k; size_t G_pmul_P; size_t G_pmul_R;
unsigned G_tb_calls; size_t G_tb_P; size_t G_tb_out;
int G_dd_last; unsigned G_dd_calls; size_t G_dd_key; size_t G_dd_out;
#endif

#ifdef CONTRACT_ENC_RECORDING
int sm2_z256_point_from_bytes(SM2_Z256_POINT *P, const uint8_t in[64])
REQUIRES(WR_OK(P, sizeof(*P)) && RD_OK(in, 64))
ASSIGNS(OBJ_UPTO((uint8_t *)P, sizeof(*P)), G_fb_last, G_fb_calls, G_fb_in)
ENSURES(RET == 1 || RET == 0 || RET == -1)
ENSURES(G_fb_last == RET && G_fb_calls == OLD(G_fb_calls) + 1 && G_fb_in == (size_t)in)
;
void sm2_z256_point_mul(SM2_Z256_POINT *R, const sm2_z256_t k, const SM2_Z256_POINT *P)
REQUIRES(WR_OK(R, sizeof(*R)) && RD_OK(k, 32) && RD_OK(P, sizeof(*P)))
ASSIGNS(OBJ_UPTO((uint8_t *)R, sizeof(*R)), G_pmul_calls, G_pmul_k, G_pmul_P, G_pmul_R)
ENSURES(G_pmul_calls == OLD(G_pmul_calls) + 1 && G_pmul_k == (size_t)k && G_pmul_P == (size_t)P && G_pmul_R == (size_t)R)
;
int sm2_z256_point_to_bytes(const SM2_Z256_POINT *P, uint8_t out[64])
REQUIRES(RD_OK(P, sizeof(*P)) && WR_OK(out, 64))
ASSIGNS(OBJ_UPTO(out, 64), G_tb_calls, G_tb_P, G_tb_out)
ENSURES(G_tb_calls == OLD(G_tb_calls) + 1 && G_tb_P == (size_t)P && G_tb_out == (size_t)out)
;
#endif

/* RET == 1 iff every byte is zero (RET == 1 side by ghost index; len == 0 gives 1) */
static int all_zero(const uint8_t *buf, size_t len)
REQUIRES(len <= 65536 && (len == 0 || RD_OK(buf, len)))
#ifdef CONTRACT_ENC_RECORDING
ASSIGNS(G_az_last, G_az_calls, G_az_buf, G_az_len)
ENSURES(RET == 1 || RET == 0)
ENSURES(len == 0 IMPLIES RET == 1)
ENSURES(G_az_last == RET && G_az_calls == OLD(G_az_calls) + 1 && G_az_buf == (size_t)buf && G_az_len == len)
#else
ASSIGNS()
ENSURES(RET == 1 || RET == 0)
ENSURES(len == 0 IMPLIES RET == 1)
ENSURES((RET == 1 && verif_gk < len) IMPLIES buf[verif_gk] == 0)
#endif
;

/* counter-mode KDF: exactly outlen bytes written, nothing else */
int sm2_kdf(const uint8_t *in, size_t inlen, size_t outlen, uint8_t *out)
REQUIRES(inlen <= 4096 && RD_OK(in, inlen) && outlen <= 65536 && (outlen == 0 || WR_OK(out, outlen)))
#ifdef CONTRACT_ENC_RECORDING
ASSIGNS(outlen != 0: OBJ_UPTO(out, outlen); G_kdf_calls, G_kdf_outlen, G_kdf_out, G_kdf_in, G_kdf_inlen)
ENSURES(RET == 1)
ENSURES(G_kdf_calls == OLD(G_kdf_calls) + 1 && G_kdf_outlen == outlen && G_kdf_out == (size_t)out && G_kdf_in == (size_t)in && G_kdf_inlen == inlen)
#else
ASSIGNS(outlen != 0: OBJ_UPTO(out, outlen); G_fin_fed, G_fin_tbyte, G_fin_tseen, G_fin_calls)
ENSURES(RET == 1)
/* one hash per 32-byte block, each over in || 4-byte counter */
ENSURES(G_fin_calls == OLD(G_fin_calls) + (unsigned)((outlen + 31) / 32))
ENSURES(outlen != 0 IMPLIES G_fin_fed == inlen + 4)
#endif
;

/* SM2Cipher ::= SEQUENCE { x INTEGER, y INTEGER, hash OCTET STRING(32), ct OCTET STRING(<=255) }, content consumed entirely */
int sm2_ciphertext_from_der(SM2_CIPHERTEXT *C, const uint8_t **in, size_t *inlen)
REQUIRES(WR_OK(C, sizeof(*C)) && DER_RD_REQ(in, inlen))
ASSIGNS(OBJ_UPTO((uint8_t *)C, sizeof(*C)), *in, *inlen)
ENSURES(RET == 1 || RET == 0 || RET == -1)
ENSURES(RET == 0 IMPLIES DER_RD_SAME(in, inlen))
ENSURES(RET == 1 IMPLIES DER_RD_ADV(in, inlen) && DER_CONSUMED(inlen) >= 44 && DER_CONSUMED(inlen) <= SM2_MAX_CIPHERTEXT_SIZE)
;

int sm2_ciphertext_to_der(const SM2_CIPHERTEXT *C, uint8_t **out, size_t *outlen)
REQUIRES((C == NULL || RD_OK(C, sizeof(*C))) && DER_WR_REQ(out, outlen, SM2_MAX_CIPHERTEXT_SIZE))
ASSIGNS(*outlen; out != NULL: *out; out != NULL && *out != NULL: OBJ_UPTO(*out, SM2_MAX_CIPHERTEXT_SIZE))
ENSURES(RET == 1 || RET == 0 || RET == -1)
ENSURES((RET == 1) == (C != NULL))
ENSURES(RET == 1 IMPLIES *outlen - OLD(*outlen) >= 44 && *outlen - OLD(*outlen) <= SM2_MAX_CIPHERTEXT_SIZE)
ENSURES(RET == 1 IMPLIES DER_WR_ADV_VAR(out, outlen, SM2_MAX_CIPHERTEXT_SIZE))
;

/* decryption core, C02: an error for every ciphertext whose C1 is not a finite point of the curve (import result must be
   exactly 1), whose KDF stream is all zero (which covers the empty ciphertext), or whose C3 does not match over all
   32 bytes of SM3(x2 || M || y2); at most ciphertext_size bytes are written */
int sm2_do_decrypt(const SM2_KEY *key, const SM2_CIPHERTEXT *in, uint8_t *out, size_t *outlen)
REQUIRES(RD_OK(key, sizeof(*key)) && RD_OK(in, sizeof(*in)) && WR_OK(out, in->ciphertext_size) && WR_OK(outlen, sizeof(*outlen)) && SEPARATE(out, in))
#ifdef CONTRACT_DECRYPT_RECORDING
ASSIGNS(OBJ_UPTO(out, in->ciphertext_size), *outlen, G_dd_last, G_dd_calls, G_dd_key, G_dd_out)
ENSURES(RET == 1 || RET == -1)
ENSURES(G_dd_last == RET && G_dd_calls == OLD(G_dd_calls) + 1 && G_dd_key == (size_t)key && G_dd_out == (size_t)out)
ENSURES(RET == 1 IMPLIES *outlen == in->ciphertext_size)
#else
ASSIGNS(OBJ_UPTO(out, in->ciphertext_size), *outlen, G_fb_last, G_fb_calls, G_fb_in, G_az_last, G_az_calls, G_az_buf, G_az_len,
	G_kdf_calls, G_kdf_outlen, G_kdf_out, G_kdf_in, G_kdf_inlen, G_pmul_calls, G_pmul_k, G_pmul_P, G_pmul_R, G_tb_calls, G_tb_P, G_tb_out,
	G_mcmp_last, G_mcmp_n, G_mcmp_a, G_mcmp_b, G_mcmp_calls, G_fin_fed, G_fin_tbyte, G_fin_tseen, G_fin_calls)
ENSURES(RET == 1 || RET == -1)
ENSURES(RET == 1 IMPLIES G_fb_calls == OLD(G_fb_calls) + 1 && G_fb_last == 1 && G_fb_in == (size_t)&in->point)
ENSURES(RET == 1 IMPLIES G_pmul_calls == OLD(G_pmul_calls) + 1 && G_pmul_k == (size_t)key->private_key && G_tb_P == G_pmul_R)
ENSURES(RET == 1 IMPLIES G_kdf_calls == OLD(G_kdf_calls) + 1 && G_kdf_outlen == in->ciphertext_size && G_kdf_in == G_tb_out && G_kdf_inlen == 64 && G_kdf_out == (size_t)out)
ENSURES(RET == 1 IMPLIES G_az_calls == OLD(G_az_calls) + 1 && G_az_last == 0 && G_az_buf == (size_t)out && G_az_len == in->ciphertext_size)
ENSURES(RET == 1 IMPLIES in->ciphertext_size >= 1 && *outlen == in->ciphertext_size)
ENSURES(RET == 1 IMPLIES G_fin_calls == OLD(G_fin_calls) + 1 && G_fin_fed == (uint64_t)64 + in->ciphertext_size)
ENSURES(RET == 1 IMPLIES G_mcmp_calls == OLD(G_mcmp_calls) + 1 && G_mcmp_last == 0 && G_mcmp_n == 32 && (G_mcmp_a == (size_t)in->hash || G_mcmp_b == (size_t)in->hash))
/* M is in the middle of the C3 stream: position 32 + j is out[j] */
ENSURES((RET == 1 && G_tk >= 32 && G_tk < (size_t)32 + in->ciphertext_size) IMPLIES (G_fin_tseen == 1 && G_fin_tbyte == out[G_tk - 32]))
#endif
;

/* DER-level decryption: strict DER, no trailing bytes, and the core decryption returned 1 with the caller's key and buffer */
int sm2_decrypt(const SM2_KEY *key, const uint8_t *in, size_t inlen, uint8_t *out, size_t *outlen)
REQUIRES((key == NULL || RD_OK(key, sizeof(*key))) && inlen <= 4096 && (in == NULL || RD_OK(in, inlen)) && (out == NULL || WR_OK(out, SM2_MAX_PLAINTEXT_SIZE)) && (outlen == NULL || WR_OK(outlen, sizeof(*outlen))))
ASSIGNS(out != NULL: OBJ_UPTO(out, SM2_MAX_PLAINTEXT_SIZE); outlen != NULL: *outlen; G_dd_last, G_dd_calls, G_dd_key, G_dd_out)
ENSURES(RET == 1 || RET == -1)
ENSURES(RET == 1 IMPLIES G_dd_calls == OLD(G_dd_calls) + 1 && G_dd_last == 1 && G_dd_key == (size_t)key && G_dd_out == (size_t)out && *outlen <= SM2_MAX_PLAINTEXT_SIZE)
;

#endif
