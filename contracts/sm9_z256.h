/* Contracts for src/sm9_z256.c — linear layer (C17), generated from contracts/sm2_z256.h by renaming; moduli of GM/T 0044-2016 (linear limb arithmetic), stated against the integers.
 * Post-conditions come from the property text (C13: "returns exactly the mathematically
 * defined result for all operands in its domain"); preconditions/frames from the code and its
 * call sites.  Pointer clauses use r_ok/w_ok (not is_fresh) so that one contract serves the
 * aliased call patterns the library really uses (r==a, r==b, a==b); the harness enumerates them.
 */
#ifndef CONTRACTS_SM9_Z256_H
#define CONTRACTS_SM9_Z256_H
#include "verif.h"
#include <gmssl/sm9_z256.h>

#ifdef VERIF_CBMC
#define L64(x)   ((bv257)(uint64_t)(x))
#define VAL4(a)  ((L64((a)[3]) << 192) | (L64((a)[2]) << 128) | (L64((a)[1]) << 64) | L64((a)[0]))
#define OLDVAL4(a) MK4(OLD((a)[3]), OLD((a)[2]), OLD((a)[1]), OLD((a)[0]))
#define MK4(w3, w2, w1, w0) ((L64(w3) << 192) | (L64(w2) << 128) | (L64(w1) << 64) | L64(w0))
#define X64(x)   ((bv513)(uint64_t)(x))
#define VAL8(a)  ((X64((a)[7]) << 448) | (X64((a)[6]) << 384) | (X64((a)[5]) << 320) | (X64((a)[4]) << 256) | \
                  (X64((a)[3]) << 192) | (X64((a)[2]) << 128) | (X64((a)[1]) << 64) | X64((a)[0]))
/* GM/T 0044 (SM9) base field prime p and group order N, written from the standard (NOT read from the code) */
#define BV_P  MK4(0xb640000002a3a6f1ULL, 0xd603ab4ff58ec745ULL, 0x21f2934b1a7aeedbULL, 0xe56f9b27e351457dULL)
#define BV_N  MK4(0xb640000002a3a6f1ULL, 0xd603ab4ff58ec744ULL, 0x49f2934b18ea8beeULL, 0xe56ee19cd69ecf25ULL)
#define BV_2_256 (((bv257)1) << 256)
#define BE64(p)  (((uint64_t)(p)[0] << 56) | ((uint64_t)(p)[1] << 48) | ((uint64_t)(p)[2] << 40) | ((uint64_t)(p)[3] << 32) | \
                  ((uint64_t)(p)[4] << 24) | ((uint64_t)(p)[5] << 16) | ((uint64_t)(p)[6] << 8) | (uint64_t)(p)[7])
#endif

void sm9_z256_set_one(sm9_z256_t r)
REQUIRES(WR_OK(r, 32))
ASSIGNS(OBJ_UPTO(r, 32))
ENSURES(VAL4(r) == 1)
;

void sm9_z256_set_zero(sm9_z256_t r)
REQUIRES(WR_OK(r, 32))
ASSIGNS(OBJ_UPTO(r, 32))
ENSURES(VAL4(r) == 0)
;

void sm9_z256_from_bytes(sm9_z256_t r, const uint8_t in[32])
REQUIRES(WR_OK(r, 32) && RD_OK(in, 32) && SEPARATE(r, in))
ASSIGNS(OBJ_UPTO(r, 32))
ENSURES(r[3] == BE64(in) && r[2] == BE64(in + 8) && r[1] == BE64(in + 16) && r[0] == BE64(in + 24))
;

void sm9_z256_to_bytes(const sm9_z256_t a, uint8_t out[32])
REQUIRES(RD_OK(a, 32) && WR_OK(out, 32) && SEPARATE(a, out))
ASSIGNS(OBJ_UPTO(out, 32))
ENSURES(a[3] == BE64(out) && a[2] == BE64(out + 8) && a[1] == BE64(out + 16) && a[0] == BE64(out + 24))
;

void sm9_z256_copy(sm9_z256_t r, const sm9_z256_t a)
REQUIRES(WR_OK(r, 32) && RD_OK(a, 32))
ASSIGNS(OBJ_UPTO(r, 32))
ENSURES(VAL4(r) == OLDVAL4(a))
;

void sm9_z256_copy_conditional(sm9_z256_t dst, const sm9_z256_t src, uint64_t move)
REQUIRES(WR_OK(dst, 32) && RD_OK(src, 32) && move <= 1)
ASSIGNS(OBJ_UPTO(dst, 32))
ENSURES(VAL4(dst) == (move ? OLDVAL4(src) : OLDVAL4(dst)))
;

uint64_t sm9_z256_equ(const sm9_z256_t a, const sm9_z256_t b)
REQUIRES(RD_OK(a, 32) && RD_OK(b, 32))
ASSIGNS()
ENSURES(RET == (uint64_t)(VAL4(a) == VAL4(b)))
;

int sm9_z256_cmp(const sm9_z256_t a, const sm9_z256_t b)
REQUIRES(RD_OK(a, 32) && RD_OK(b, 32))
ASSIGNS()
ENSURES(RET == (VAL4(a) > VAL4(b) ? 1 : (VAL4(a) < VAL4(b) ? -1 : 0)))
;

uint64_t sm9_z256_is_zero(const sm9_z256_t a)
REQUIRES(RD_OK(a, 32))
ASSIGNS()
ENSURES(RET == (uint64_t)(VAL4(a) == 0))
;



uint64_t sm9_z256_add(sm9_z256_t r, const sm9_z256_t a, const sm9_z256_t b)
REQUIRES(WR_OK(r, 32) && RD_OK(a, 32) && RD_OK(b, 32))
ASSIGNS(OBJ_UPTO(r, 32))
ENSURES(RET <= 1)
ENSURES(VAL4(r) + (L64(RET) << 256) == OLDVAL4(a) + OLDVAL4(b))
;

uint64_t sm9_z256_sub(sm9_z256_t r, const sm9_z256_t a, const sm9_z256_t b)
REQUIRES(WR_OK(r, 32) && RD_OK(a, 32) && RD_OK(b, 32))
ASSIGNS(OBJ_UPTO(r, 32))
ENSURES(RET <= 1)
/* r - borrow*2^256 == a - b, written without negative numbers */
ENSURES(VAL4(r) + OLDVAL4(b) == OLDVAL4(a) + (L64(RET) << 256))
;

/* ---- GF(p): domain a,b < p; result canonical (< p) and congruent ---- */
void sm9_z256_modp_add(sm9_z256_t r, const sm9_z256_t a, const sm9_z256_t b)
REQUIRES(WR_OK(r, 32) && RD_OK(a, 32) && RD_OK(b, 32) && VAL4(a) < BV_P && VAL4(b) < BV_P)
ASSIGNS(OBJ_UPTO(r, 32))
ENSURES(VAL4(r) < BV_P)
ENSURES(VAL4(r) == OLDVAL4(a) + OLDVAL4(b) || VAL4(r) + BV_P == OLDVAL4(a) + OLDVAL4(b))
;

void sm9_z256_modp_sub(sm9_z256_t r, const sm9_z256_t a, const sm9_z256_t b)
REQUIRES(WR_OK(r, 32) && RD_OK(a, 32) && RD_OK(b, 32) && VAL4(a) < BV_P && VAL4(b) < BV_P)
ASSIGNS(OBJ_UPTO(r, 32))
ENSURES(VAL4(r) < BV_P)
ENSURES(VAL4(r) + OLDVAL4(b) == OLDVAL4(a) || VAL4(r) + OLDVAL4(b) == OLDVAL4(a) + BV_P)
;

void sm9_z256_modp_dbl(sm9_z256_t r, const sm9_z256_t a)
REQUIRES(WR_OK(r, 32) && RD_OK(a, 32) && VAL4(a) < BV_P)
ASSIGNS(OBJ_UPTO(r, 32))
ENSURES(VAL4(r) < BV_P)
ENSURES(VAL4(r) == 2 * OLDVAL4(a) || VAL4(r) + BV_P == 2 * OLDVAL4(a))
;

void sm9_z256_modp_tri(sm9_z256_t r, const sm9_z256_t a)
REQUIRES(WR_OK(r, 32) && RD_OK(a, 32) && VAL4(a) < BV_P)
ASSIGNS(OBJ_UPTO(r, 32))
ENSURES(VAL4(r) < BV_P)
ENSURES((bv258)VAL4(r) == 3 * (bv258)OLDVAL4(a) || (bv258)VAL4(r) + (bv258)BV_P == 3 * (bv258)OLDVAL4(a)
     || (bv258)VAL4(r) + 2 * (bv258)BV_P == 3 * (bv258)OLDVAL4(a))
;

/* -a mod p: canonical, including -0 == 0 */
void sm9_z256_modp_neg(sm9_z256_t r, const sm9_z256_t a)
REQUIRES(WR_OK(r, 32) && RD_OK(a, 32) && VAL4(a) < BV_P)
ASSIGNS(OBJ_UPTO(r, 32))
ENSURES(VAL4(r) < BV_P)
ENSURES((VAL4(r) + OLDVAL4(a) == BV_P) || (VAL4(r) == 0 && OLDVAL4(a) == 0))
;

void sm9_z256_modp_haf(sm9_z256_t r, const sm9_z256_t a)
REQUIRES(WR_OK(r, 32) && RD_OK(a, 32) && VAL4(a) < BV_P)
ASSIGNS(OBJ_UPTO(r, 32))
ENSURES(VAL4(r) < BV_P)
ENSURES(2 * VAL4(r) == OLDVAL4(a) || 2 * VAL4(r) == OLDVAL4(a) + BV_P)
;

/* ---- Z_n ---- */
void sm9_z256_modn_add(sm9_z256_t r, const sm9_z256_t a, const sm9_z256_t b)
REQUIRES(WR_OK(r, 32) && RD_OK(a, 32) && RD_OK(b, 32) && VAL4(a) < BV_N && VAL4(b) < BV_N)
ASSIGNS(OBJ_UPTO(r, 32))
ENSURES(VAL4(r) < BV_N)
ENSURES(VAL4(r) == OLDVAL4(a) + OLDVAL4(b) || VAL4(r) + BV_N == OLDVAL4(a) + OLDVAL4(b))
/* the same fact in if-then-else form (cheaper for callers' proofs) */
ENSURES(VAL4(r) == ((OLDVAL4(a) + OLDVAL4(b)) >= BV_N ? (OLDVAL4(a) + OLDVAL4(b)) - BV_N : (OLDVAL4(a) + OLDVAL4(b))))
;

void sm9_z256_modn_sub(sm9_z256_t r, const sm9_z256_t a, const sm9_z256_t b)
REQUIRES(WR_OK(r, 32) && RD_OK(a, 32) && RD_OK(b, 32) && VAL4(a) < BV_N && VAL4(b) < BV_N)
ASSIGNS(OBJ_UPTO(r, 32))
ENSURES(VAL4(r) < BV_N)
ENSURES(VAL4(r) + OLDVAL4(b) == OLDVAL4(a) || VAL4(r) + OLDVAL4(b) == OLDVAL4(a) + BV_N)
;


#endif
