/* Contracts for src/sm4_cfb.c (C04): streaming interface vs. the size it reports — "never writes more than the size the
 * interface itself reports when queried with a null output buffer".  DFCC admits one top-level call of the enforced
 * function per harness, so the sentence is split over the same contract used in two modes:
 *   write mode (out != NULL): given ANY capacity G_cfb_cap >= CFB_W (the whole segments contained in buffered + new
 *     bytes), the call stays inside OBJ_UPTO(out, G_cfb_cap), returns *outlen <= G_cfb_cap and accounts for every byte
 *     (*outlen + block_nbytes' == block_nbytes + inlen, block_nbytes' < sbytes);
 *   query mode (out == NULL): the reported size is >= CFB_W for every context state, and nothing but *outlen changes.
 * Together: a buffer of the reported size satisfies the write-mode precondition.  The formula the code uses for the
 * reported size is not part of the contract (any sufficient size passes).
 * The one-shot functions are replaced by their frame contract (capacity = inlen). */
#ifndef CONTRACTS_SM4_CFB_H
#define CONTRACTS_SM4_CFB_H
#include "verif.h"
#include "libc.h"
#include <gmssl/sm4.h>
#ifdef VERIF_CBMC
size_t G_cfb_cap;
typedef unsigned __CPROVER_bitvector[20] bv20;
/* bytes written by an update: the whole sbytes-segments in block_nbytes + inlen (inlen <= 65536 keeps it inside 20 bits) */
#define CFB_W(bn, inlen, s) ((size_t)((bv20)((bn) + (inlen)) - (bv20)((bv20)((bn) + (inlen)) % (bv20)(s))))
#define CFB_CTX_OK(ctx) (RW_OK(ctx, sizeof(SM4_CFB_CTX)) && (ctx)->sbytes >= 1 && (ctx)->sbytes <= 16 && (ctx)->block_nbytes < (ctx)->sbytes)
#endif

#ifdef CONTRACT_CFB_ONESHOT_FRAME
#define CFB_ONESHOT_FRAME(fn) \
void fn(const SM4_KEY *key, size_t sbytes, uint8_t iv[16], const uint8_t *in, size_t inlen, uint8_t *out) \
REQUIRES(RD_OK(key, sizeof(SM4_KEY)) && sbytes >= 1 && sbytes <= 16 && RW_OK(iv, 16)) \
REQUIRES(inlen == 0 || (RD_OK(in, inlen) && WR_OK(out, inlen))) \
ASSIGNS(OBJ_UPTO(iv, 16); inlen != 0: OBJ_UPTO(out, inlen))
CFB_ONESHOT_FRAME(sm4_cfb_encrypt);
CFB_ONESHOT_FRAME(sm4_cfb_decrypt);
#endif

/* ---- one-shot CFB-s (GB/T 17964 / NIST SP 800-38A 6.3) against the recorded history of block-cipher calls ----
 * Segment k (k = G_fe_sel, chosen by the harness), segment size s = sbytes, I_k = input block of the k-th sm4_encrypt call,
 * O_k its output:   I_0 = IV;   out-segment_k = in-segment_k xor MSB_len(O_k);   I_{k+1} = LSB_{16-s}(I_k) || C_k
 * where C_k is the CIPHERTEXT segment: the produced bytes when encrypting, the bytes `in` held ON ENTRY when decrypting
 * (so that decrypting in place, out == in, is held to the same bytes).  After the last full segment iv holds I_{k+1}.
 * Ghost byte positions: verif_gk in the segment, G_fe_j2 in I_{k+1}, G_fe_j3 in I_k (== G_fe_j2 + s when that is < 16);
 * G_mc (index of the memcpy contract in libc.h) is G_fe_j2's position inside the refilled part, G_fe_j2 + s - 16. */
#ifdef CONTRACT_CFB_ONESHOT
#ifdef VERIF_CBMC
unsigned G_fe_calls, G_fe_sel; size_t G_fe_nseg, G_fe_j2, G_fe_j3; uint8_t G_fe_A, G_fe_B, G_fe_out; size_t G_fe_key;
#ifndef G_ZERO_BYTE_DEFINED
#define G_ZERO_BYTE_DEFINED
const uint8_t G_zero_byte = 0;
#endif
#define CFB_LEN(k, s, inlen) (((size_t)(k) + 1) * (s) <= (inlen) ? (s) : (inlen) - (size_t)(k) * (s))
#define CFB_IN_SEG(k, s, inlen, j) ((size_t)(k) < G_fe_nseg && (j) < CFB_LEN(k, s, inlen))
#endif
void sm4_encrypt(const SM4_KEY *key, const uint8_t in[16], uint8_t out[16])
REQUIRES(RD_OK(key, sizeof(SM4_KEY)) && RD_OK(in, 16) && WR_OK(out, 16) && verif_gk < 16 && G_fe_j2 < 16 && G_fe_j3 < 16)
ASSIGNS(OBJ_UPTO(out, 16), G_fe_calls, G_fe_A, G_fe_B, G_fe_out, G_fe_key)
ENSURES(G_fe_calls == OLD(G_fe_calls) + 1 && G_fe_key == (size_t)key)
ENSURES(OLD(G_fe_calls) == G_fe_sel ? (G_fe_A == OLD(in[G_fe_j3 < 16 ? G_fe_j3 : 0]) && G_fe_out == out[verif_gk]) : (G_fe_A == OLD(G_fe_A) && G_fe_out == OLD(G_fe_out)))
ENSURES(OLD(G_fe_calls) == G_fe_sel + 1 ? G_fe_B == OLD(in[G_fe_j2 < 16 ? G_fe_j2 : 0]) : G_fe_B == OLD(G_fe_B))
;
void gmssl_memxor(void *r, const void *a, const void *b, size_t len)
REQUIRES(len == 0 || (WR_OK(r, len) && RD_OK(a, len) && RD_OK(b, len) && (r == a || SEPARATE(r, a)) && (r == b || SEPARATE(r, b))))
ASSIGNS(len != 0: OBJ_UPTO((uint8_t *)r, len))
ENSURES(verif_gk < len IMPLIES ((const uint8_t *)r)[verif_gk] == (uint8_t)(OLD(((const uint8_t *)a)[verif_gk < len ? verif_gk : 0]) ^ OLD(((const uint8_t *)b)[verif_gk < len ? verif_gk : 0])))
;
#define CFB_ONESHOT_REQ \
REQUIRES(RD_OK(key, sizeof(SM4_KEY)) && sbytes >= 1 && sbytes <= 16 && RW_OK(iv, 16) && inlen <= 48) \
REQUIRES(inlen == 0 || (RD_OK(in, inlen) && WR_OK(out, inlen) && (out == in || SEPARATE(in, out)) && SEPARATE(iv, in) && SEPARATE(iv, out))) \
REQUIRES(G_fe_calls == 0 && verif_gk < 16 && G_fe_j2 < 16 && G_fe_j3 < 16 && (G_fe_j2 + sbytes < 16 ? G_fe_j3 == G_fe_j2 + sbytes : G_mc == G_fe_j2 + sbytes - 16)) \
REQUIRES(G_fe_nseg <= 48 && G_fe_sel <= 48 && (G_fe_nseg == 0 ? inlen == 0 : ((G_fe_nseg - 1) * sbytes < inlen && inlen <= G_fe_nseg * sbytes))) \
ASSIGNS(OBJ_UPTO(iv, 16); inlen != 0: OBJ_UPTO(out, inlen); G_fe_calls, G_fe_A, G_fe_B, G_fe_out, G_fe_key) \
ENSURES(G_fe_calls == G_fe_nseg && (G_fe_nseg > 0 IMPLIES G_fe_key == (size_t)key)) \
ENSURES(CFB_IN_SEG(G_fe_sel, sbytes, inlen, verif_gk) IMPLIES out[(size_t)G_fe_sel * sbytes + verif_gk] == (uint8_t)(G_fe_out ^ \
	OLD(*(CFB_IN_SEG(G_fe_sel, sbytes, inlen, verif_gk) ? in + ((size_t)G_fe_sel * sbytes + verif_gk) : &G_zero_byte)))) \
ENSURES((G_fe_sel == 0 && G_fe_nseg > 0) IMPLIES G_fe_A == OLD(iv[G_fe_j3 < 16 ? G_fe_j3 : 0]))
/* the shift register after segment k: next block-cipher input, or the iv handed back after the last full segment */
#define CFB_NEXT(ct) (G_fe_j2 + sbytes < 16 ? G_fe_A : (ct))
#define CFB_CT_IDX ((size_t)G_fe_sel * sbytes + (G_fe_j2 + sbytes - 16))
#define CFB_FULL_K ((size_t)G_fe_sel < G_fe_nseg && ((size_t)G_fe_sel + 1) * sbytes <= inlen)
void sm4_cfb_encrypt(const SM4_KEY *key, size_t sbytes, uint8_t iv[16], const uint8_t *in, size_t inlen, uint8_t *out)
CFB_ONESHOT_REQ
ENSURES(((size_t)G_fe_sel + 1 < G_fe_nseg) IMPLIES G_fe_B == CFB_NEXT(out[G_fe_j2 + sbytes >= 16 ? CFB_CT_IDX : 0]))
ENSURES((CFB_FULL_K && (size_t)G_fe_sel + 1 == G_fe_nseg) IMPLIES iv[G_fe_j2] == CFB_NEXT(out[G_fe_j2 + sbytes >= 16 ? CFB_CT_IDX : 0]))
;
void sm4_cfb_decrypt(const SM4_KEY *key, size_t sbytes, uint8_t iv[16], const uint8_t *in, size_t inlen, uint8_t *out)
CFB_ONESHOT_REQ
ENSURES(((size_t)G_fe_sel + 1 < G_fe_nseg) IMPLIES G_fe_B == CFB_NEXT(OLD(*((CFB_FULL_K && G_fe_j2 + sbytes >= 16) ? in + CFB_CT_IDX : &G_zero_byte))))
ENSURES((CFB_FULL_K && (size_t)G_fe_sel + 1 == G_fe_nseg) IMPLIES iv[G_fe_j2] == CFB_NEXT(OLD(*((CFB_FULL_K && G_fe_j2 + sbytes >= 16) ? in + CFB_CT_IDX : &G_zero_byte))))
;
#endif

#define CFB_UPDATE_CONTRACT(fn) \
int fn(SM4_CFB_CTX *ctx, const uint8_t *in, size_t inlen, uint8_t *out, size_t *outlen) \
REQUIRES(CFB_CTX_OK(ctx) && inlen <= 65536 && RD_OK(in, inlen ? inlen : 1) && WR_OK(outlen, sizeof(size_t))) \
REQUIRES(out == NULL || (G_cfb_cap >= CFB_W(ctx->block_nbytes, inlen, ctx->sbytes) && (G_cfb_cap == 0 || WR_OK(out, G_cfb_cap)))) \
ASSIGNS(*outlen; out != NULL: OBJ_UPTO((uint8_t *)ctx, sizeof(SM4_CFB_CTX)); out != NULL && G_cfb_cap != 0: OBJ_UPTO(out, G_cfb_cap)) \
ENSURES(RET == 1 || RET == -1) \
ENSURES((RET == 1 && out != NULL) IMPLIES (*outlen <= G_cfb_cap && CFB_CTX_OK(ctx) && ctx->sbytes == OLD(ctx->sbytes) \
	&& *outlen + ctx->block_nbytes == OLD(ctx->block_nbytes) + inlen)) \
ENSURES((RET == 1 && out == NULL) IMPLIES *outlen >= CFB_W(ctx->block_nbytes, inlen, ctx->sbytes))
CFB_UPDATE_CONTRACT(sm4_cfb_encrypt_update);
CFB_UPDATE_CONTRACT(sm4_cfb_decrypt_update);

/* finish writes the buffered bytes (fewer than sbytes <= 16) */
#define CFB_FINISH_CONTRACT(fn) \
int fn(SM4_CFB_CTX *ctx, uint8_t *out, size_t *outlen) \
REQUIRES(CFB_CTX_OK(ctx) && WR_OK(outlen, sizeof(size_t))) \
REQUIRES(out == NULL || (G_cfb_cap >= ctx->block_nbytes && (G_cfb_cap == 0 || WR_OK(out, G_cfb_cap)))) \
ASSIGNS(*outlen; out != NULL: OBJ_UPTO((uint8_t *)ctx, sizeof(SM4_CFB_CTX)); out != NULL && G_cfb_cap != 0: OBJ_UPTO(out, G_cfb_cap)) \
ENSURES(RET == 1 || RET == -1) \
ENSURES((RET == 1 && out != NULL) IMPLIES (*outlen <= G_cfb_cap && *outlen == OLD(ctx->block_nbytes))) \
ENSURES((RET == 1 && out == NULL) IMPLIES *outlen >= ctx->block_nbytes)
CFB_FINISH_CONTRACT(sm4_cfb_encrypt_finish);
CFB_FINISH_CONTRACT(sm4_cfb_decrypt_finish);
#endif
