/* Contracts for src/sm4_cfb.c (C04): streaming interface vs. the size it reports — "never writes more than the size the
 * interface itself reports when queried with a null output buffer".  DFCC admits one top-level call of the enforced
 * function per harness, so the sentence is split over the same contract used in two modes:
 *   write mode (out != NULL): given ANY capacity G_cfb_cap >= CFB_W (the whole segments contained in buffered + new
 *     bytes), the call stays inside OBJ_UPTO(out, G_cfb_cap), returns *outlen <= G_cfb_cap and accounts for every byte
 *     (*outlen + block_nbytes' == block_nbytes + inlen, block_nbytes' < sbytes);
 *   query mode (out == NULL): the reported size is >= CFB_W for every context state, and nothing but *outlen changes.
 * Together: a buffer of the reported size satisfies the write-mode precondition.  The formula the code uses for the
 * reported size is not part of the contract (any sufficient size passes).
 * The one-shot functions are replaced by their frame contract (capacity = inlen). */
#ifndef CONTRACTS_SM4_CFB_H
#define CONTRACTS_SM4_CFB_H
#include "verif.h"
#include "libc.h"
#include <gmssl/sm4.h>
#ifdef VERIF_CBMC
size_t G_cfb_cap;
typedef unsigned __CPROVER_bitvector[20] bv20;
/* bytes written by an update: the whole sbytes-segments in block_nbytes + inlen (inlen <= 65536 keeps it inside 20 bits) */
#define CFB_W(bn, inlen, s) ((size_t)((bv20)((bn) + (inlen)) - (bv20)((bv20)((bn) + (inlen)) % (bv20)(s))))
#define CFB_CTX_OK(ctx) (RW_OK(ctx, sizeof(SM4_CFB_CTX)) && (ctx)->sbytes >= 1 && (ctx)->sbytes <= 16 && (ctx)->block_nbytes < (ctx)->sbytes)
#endif

#ifdef CONTRACT_CFB_ONESHOT_FRAME
#define CFB_ONESHOT_FRAME(fn) \
void fn(const SM4_KEY *key, size_t sbytes, uint8_t iv[16], const uint8_t *in, size_t inlen, uint8_t *out) \
REQUIRES(RD_OK(key, sizeof(SM4_KEY)) && sbytes >= 1 && sbytes <= 16 && RW_OK(iv, 16)) \
REQUIRES(inlen == 0 || (RD_OK(in, inlen) && WR_OK(out, inlen))) \
ASSIGNS(OBJ_UPTO(iv, 16); inlen != 0: OBJ_UPTO(out, inlen))
CFB_ONESHOT_FRAME(sm4_cfb_encrypt);
CFB_ONESHOT_FRAME(sm4_cfb_decrypt);
#endif

#define CFB_UPDATE_CONTRACT(fn) \
int fn(SM4_CFB_CTX *ctx, const uint8_t *in, size_t inlen, uint8_t *out, size_t *outlen) \
REQUIRES(CFB_CTX_OK(ctx) && inlen <= 65536 && RD_OK(in, inlen ? inlen : 1) && WR_OK(outlen, sizeof(size_t))) \
REQUIRES(out == NULL || (G_cfb_cap >= CFB_W(ctx->block_nbytes, inlen, ctx->sbytes) && (G_cfb_cap == 0 || WR_OK(out, G_cfb_cap)))) \
ASSIGNS(*outlen; out != NULL: OBJ_UPTO((uint8_t *)ctx, sizeof(SM4_CFB_CTX)); out != NULL && G_cfb_cap != 0: OBJ_UPTO(out, G_cfb_cap)) \
ENSURES(RET == 1 || RET == -1) \
ENSURES((RET == 1 && out != NULL) IMPLIES (*outlen <= G_cfb_cap && CFB_CTX_OK(ctx) && ctx->sbytes == OLD(ctx->sbytes) \
	&& *outlen + ctx->block_nbytes == OLD(ctx->block_nbytes) + inlen)) \
ENSURES((RET == 1 && out == NULL) IMPLIES *outlen >= CFB_W(ctx->block_nbytes, inlen, ctx->sbytes))
CFB_UPDATE_CONTRACT(sm4_cfb_encrypt_update);
CFB_UPDATE_CONTRACT(sm4_cfb_decrypt_update);

/* finish writes the buffered bytes (fewer than sbytes <= 16) */
#define CFB_FINISH_CONTRACT(fn) \
int fn(SM4_CFB_CTX *ctx, uint8_t *out, size_t *outlen) \
REQUIRES(CFB_CTX_OK(ctx) && WR_OK(outlen, sizeof(size_t))) \
REQUIRES(out == NULL || (G_cfb_cap >= ctx->block_nbytes && (G_cfb_cap == 0 || WR_OK(out, G_cfb_cap)))) \
ASSIGNS(*outlen; out != NULL: OBJ_UPTO((uint8_t *)ctx, sizeof(SM4_CFB_CTX)); out != NULL && G_cfb_cap != 0: OBJ_UPTO(out, G_cfb_cap)) \
ENSURES(RET == 1 || RET == -1) \
ENSURES((RET == 1 && out != NULL) IMPLIES (*outlen <= G_cfb_cap && *outlen == OLD(ctx->block_nbytes))) \
ENSURES((RET == 1 && out == NULL) IMPLIES *outlen >= ctx->block_nbytes)
CFB_FINISH_CONTRACT(sm4_cfb_encrypt_finish);
CFB_FINISH_CONTRACT(sm4_cfb_decrypt_finish);
#endif
