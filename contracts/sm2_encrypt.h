/* Contract for the SM2 encryption core (src/sm2_enc.c sm2_do_encrypt), C02 sender side and C18 (GB/T 32918.4 6.1):
 *   k from the nonce source (never zero, fail closed), C1 = [k]G, (x2,y2) = [k]P with the caller's public key,
 *   t = KDF(x2||y2, |M|) not all zero, C2 = M xor t, C3 = SM3(x2 || M || y2), and k is wiped.
 * The point operations, the KDF, the zero test, SM3 and the nonce source are replaced by recording contracts. */
#ifndef CONTRACTS_SM2_ENCRYPT_H
#define CONTRACTS_SM2_ENCRYPT_H
#define CONTRACT_ENC_RECORDING
#define CONTRACT_MEMXOR_RECORDING
#include "sm2_enc.h"
#include "sm2_z256.h"
#ifdef VERIF_CBMC
unsigned G_e_rr_calls; int G_e_rr_fail; uint64_t G_e_k[4]; size_t G_e_rr_ptr;     /* nonce source: last value handed out, where */
unsigned G_e_mg_calls; uint64_t G_e_mg_k[4]; size_t G_e_mg_R;                      /* [k]G: scalar value, result object */
uint64_t G_e_pm_k[4];                                                              /* [k]P: scalar value (pointers are in G_pmul_*) */
size_t G_e_tb_P0, G_e_tb_out0;                                                     /* first to_bytes call (C1) */
unsigned G_e_clr_calls; size_t G_e_clr_first;
#define E_EQ4(a, b) ((a)[0] == (b)[0] && (a)[1] == (b)[1] && (a)[2] == (b)[2] && (a)[3] == (b)[3])
#endif
/* src/sm2_z256.c: address of the (constant) group order */
const uint64_t *sm2_z256_order(void)
ASSIGNS()
ENSURES(__CPROVER_is_fresh(RET, 32))
;
int sm2_z256_rand_range(sm2_z256_t r, const sm2_z256_t range)
REQUIRES(WR_OK(r, 32) && RD_OK(range, 32))
ASSIGNS(OBJ_UPTO((uint8_t *)r, 32), G_e_rr_calls, G_e_rr_fail, OBJ_WHOLE(G_e_k), G_e_rr_ptr)
ENSURES((RET == 1 || RET == 0 || RET == -1) && G_e_rr_calls == OLD(G_e_rr_calls) + 1 && G_e_rr_ptr == (size_t)r)
ENSURES(RET == 1 ? (E_EQ4(G_e_k, r) && G_e_rr_fail == OLD(G_e_rr_fail)) : G_e_rr_fail == 1)
;
void sm2_z256_point_mul_generator(SM2_Z256_POINT *R, const sm2_z256_t k)
REQUIRES(WR_OK(R, sizeof(*R)) && RD_OK(k, 32))
ASSIGNS(OBJ_UPTO((uint8_t *)R, sizeof(*R)), G_e_mg_calls, OBJ_WHOLE(G_e_mg_k), G_e_mg_R)
ENSURES(G_e_mg_calls == OLD(G_e_mg_calls) + 1 && E_EQ4(G_e_mg_k, k) && G_e_mg_R == (size_t)R)
;

int sm2_do_encrypt(const SM2_KEY *key, const uint8_t *in, size_t inlen, SM2_CIPHERTEXT *out)
REQUIRES(RD_OK(key, sizeof(*key)) && inlen <= 4096 && (inlen == 0 || RD_OK(in, inlen)) && WR_OK(out, sizeof(*out)) && SEPARATE(in, out) && SEPARATE(key, out))
REQUIRES(G_tk < 4096 && verif_gk < 256)
ASSIGNS(OBJ_UPTO((uint8_t *)out, sizeof(*out)), G_e_rr_calls, G_e_rr_fail, OBJ_WHOLE(G_e_k), G_e_rr_ptr, G_e_mg_calls, OBJ_WHOLE(G_e_mg_k), G_e_mg_R,
	G_pmul_calls, G_pmul_k, G_pmul_P, G_pmul_R, G_tb_calls, G_tb_P, G_tb_out, G_kdf_calls, G_kdf_outlen, G_kdf_out, G_kdf_in, G_kdf_inlen,
	G_az_last, G_az_calls, G_az_buf, G_az_len, G_x_r, G_x_calls, G_x_len, G_x_rp, G_fin_fed, G_fin_tbyte, G_fin_tseen, G_fin_calls)
ENSURES(RET == 1 || RET == -1)
ENSURES(RET == 1 IMPLIES (inlen >= 1 && inlen <= SM2_MAX_PLAINTEXT_SIZE && out->ciphertext_size == inlen))
/* nonce: the last value drawn, non-zero, source never failed; a failed draw is reported */
ENSURES(RET == 1 IMPLIES (G_e_rr_fail == OLD(G_e_rr_fail) && (G_e_k[0] | G_e_k[1] | G_e_k[2] | G_e_k[3]) != 0))
ENSURES(G_e_rr_fail != OLD(G_e_rr_fail) IMPLIES RET == -1)
/* C1 = [k]G and (x2, y2) = [k]P_B with that same k and the caller's key; both serialised; the last serialisation (x2||y2) feeds the KDF */
ENSURES(RET == 1 IMPLIES (E_EQ4(G_e_mg_k, G_e_k) && G_pmul_P == (size_t)&key->public_key && G_pmul_k == G_e_rr_ptr && G_tb_P == G_pmul_R
	&& G_kdf_in == G_tb_out && G_kdf_inlen == 64 && G_kdf_outlen == inlen && G_kdf_out == (size_t)out->ciphertext))
/* t is not all zero; C2 = M xor t written in place */
ENSURES(RET == 1 IMPLIES (G_az_last == 0 && G_az_buf == (size_t)out->ciphertext && G_az_len == inlen && G_x_len == inlen && G_x_rp == (size_t)out->ciphertext))
/* C3 = SM3(x2 || M || y2): 64 + |M| bytes, M in the middle */
ENSURES(RET == 1 IMPLIES (G_fin_fed == (uint64_t)64 + inlen))
ENSURES((RET == 1 && G_tk >= 32 && G_tk < 32 + inlen) IMPLIES (G_fin_tseen == 1 && G_fin_tbyte == in[G_tk - 32]))
;
#endif
