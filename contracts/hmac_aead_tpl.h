/* Template: contracts for the encrypt-then-MAC streaming AEADs src/sm4_ctr_sm3_hmac.c and src/sm4_cbc_sm3_hmac.c (C05).
 * Instantiate with AE_CTX_T, AE_ENC_CTX_T, AE(name) (prefix the public names), AE_DEC_INIT / AE_DEC_UPDATE / AE_DEC_FINISH
 * (the inner cipher's streaming functions used for DECRYPTION) and AE_DEC_FINISH_MAXOUT.
 * HMAC is observed as a byte stream at ghost position G_sk; the tag is 32 bytes (SM3_HMAC_SIZE). */
#include "verif.h"
#include "libc.h"
#include <gmssl/sm3.h>

#ifdef VERIF_CBMC
size_t G_sk; unsigned G_seq;
size_t G_hu_fed; uint8_t G_hu_byte; unsigned G_hu_calls; size_t G_hu_ctx; unsigned G_hu_seq;
int G_hu_iv_seen;                                              /* some update call was given exactly the 16 iv bytes */
size_t G_iv_ptr;                                               /* set by the harness: address of the iv argument */
unsigned G_hi_calls; size_t G_hi_key; size_t G_hi_keylen; size_t G_hi_ctx;
unsigned G_hf_calls; uint8_t G_hf_out; size_t G_hf_ctx; unsigned G_hf_seq;
unsigned G_di_calls; size_t G_di_key; size_t G_di_iv; size_t G_di_ctx;
size_t G_du_fed; uint8_t G_du_byte; unsigned G_du_calls; size_t G_du_ctx; size_t G_du_out0; size_t G_du_out_next; int G_du_chain_ok; size_t G_du_written;
unsigned G_df_calls; size_t G_df_out; size_t G_df_len; int G_df_ret; unsigned G_df_seq;
const uint8_t G_zero_byte = 0;
#endif

void sm3_hmac_init(SM3_HMAC_CTX *ctx, const uint8_t *key, size_t keylen)
REQUIRES(WR_OK(ctx, sizeof(SM3_HMAC_CTX)) && (keylen == 0 || RD_OK(key, keylen)))
ASSIGNS(OBJ_UPTO((uint8_t *)ctx, sizeof(SM3_HMAC_CTX)), G_hi_calls, G_hi_key, G_hi_keylen, G_hi_ctx)
ENSURES(G_hi_calls == OLD(G_hi_calls) + 1 && G_hi_key == (size_t)key && G_hi_keylen == keylen && G_hi_ctx == (size_t)ctx)
;
void sm3_hmac_update(SM3_HMAC_CTX *ctx, const uint8_t *data, size_t datalen)
REQUIRES(RW_OK(ctx, sizeof(SM3_HMAC_CTX)) && (datalen == 0 || RD_OK(data, datalen)))
ASSIGNS(OBJ_UPTO((uint8_t *)ctx, sizeof(SM3_HMAC_CTX)), G_hu_fed, G_hu_byte, G_hu_calls, G_hu_ctx, G_hu_seq, G_hu_iv_seen, G_seq)
ENSURES(G_hu_fed == OLD(G_hu_fed) + datalen && G_hu_calls == OLD(G_hu_calls) + 1 && G_hu_ctx == (size_t)ctx && G_seq == OLD(G_seq) + 1 && G_hu_seq == G_seq)
ENSURES((G_sk >= OLD(G_hu_fed) && G_sk - OLD(G_hu_fed) < datalen) ? G_hu_byte == data[G_sk - OLD(G_hu_fed)] : G_hu_byte == OLD(G_hu_byte))
ENSURES(G_hu_iv_seen == ((OLD(G_hu_iv_seen) != 0 || ((size_t)data == G_iv_ptr && datalen == 16)) ? 1 : 0))
;
void sm3_hmac_finish(SM3_HMAC_CTX *ctx, uint8_t mac[32])
REQUIRES(RW_OK(ctx, sizeof(SM3_HMAC_CTX)) && WR_OK(mac, 32) && verif_gk < 32)
ASSIGNS(OBJ_UPTO((uint8_t *)ctx, sizeof(SM3_HMAC_CTX)), OBJ_UPTO(mac, 32), G_hf_calls, G_hf_out, G_hf_ctx, G_hf_seq, G_seq)
ENSURES(G_hf_calls == OLD(G_hf_calls) + 1 && G_hf_out == mac[verif_gk] && G_hf_ctx == (size_t)ctx && G_seq == OLD(G_seq) + 1 && G_hf_seq == G_seq)
;

#ifndef AE_ENC_ONLY
int AE_DEC_INIT(AE_ENC_CTX_T *ctx, const uint8_t key[16], const uint8_t iv[16])
REQUIRES(WR_OK(ctx, sizeof(AE_ENC_CTX_T)) && RD_OK(key, 16) && RD_OK(iv, 16))
ASSIGNS(OBJ_UPTO((uint8_t *)ctx, sizeof(AE_ENC_CTX_T)), G_di_calls, G_di_key, G_di_iv, G_di_ctx)
ENSURES(RET == 1 && G_di_calls == OLD(G_di_calls) + 1 && G_di_key == (size_t)key && G_di_iv == (size_t)iv && G_di_ctx == (size_t)ctx)
;

/* the inner cipher's final step: at most AE_DEC_FINISH_MAXOUT bytes, may fail (CBC padding) */
int AE_DEC_FINISH(AE_ENC_CTX_T *ctx, uint8_t *out, size_t *outlen)
REQUIRES(RW_OK(ctx, sizeof(AE_ENC_CTX_T)) && WR_OK(out, AE_DEC_FINISH_MAXOUT) && WR_OK(outlen, sizeof(size_t)))
ASSIGNS(OBJ_UPTO((uint8_t *)ctx, sizeof(AE_ENC_CTX_T)), OBJ_UPTO(out, AE_DEC_FINISH_MAXOUT), OBJ_UPTO((uint8_t *)outlen, sizeof(size_t)),
	G_df_calls, G_df_out, G_df_len, G_df_ret, G_df_seq, G_seq)
ENSURES((RET == 1 || RET == -1) && G_df_calls == OLD(G_df_calls) + 1 && G_df_out == (size_t)out && G_df_ret == RET && G_seq == OLD(G_seq) + 1 && G_df_seq == G_seq)
ENSURES(RET == 1 IMPLIES (*outlen <= AE_DEC_FINISH_MAXOUT && G_df_len == *outlen))
;

/* ---------- the functions under contract ---------- */

/* C05: the tag must bind the key halves, the AAD and the NONCE: a decryption context whose MAC stream does not contain the
   iv accepts the same (ciphertext, tag) under a different iv */
int AE(decrypt_init)(AE_CTX_T *ctx, const uint8_t key[48], const uint8_t iv[16], const uint8_t *aad, size_t aadlen)
REQUIRES(ctx == NULL || WR_OK(ctx, sizeof(AE_CTX_T)))
REQUIRES(key == NULL || RD_OK(key, 48))
REQUIRES(iv == NULL || RD_OK(iv, 16))
REQUIRES(aad == NULL || aadlen == 0 || RD_OK(aad, aadlen))
REQUIRES(G_seq == 0 && G_hu_fed == 0 && G_hu_calls == 0 && G_hu_iv_seen == 0 && G_hi_calls == 0 && G_di_calls == 0 && G_iv_ptr == (size_t)iv && G_sk < ((size_t)1 << 40))
ASSIGNS(ctx != NULL: OBJ_UPTO((uint8_t *)ctx, sizeof(AE_CTX_T)); G_seq, G_hu_fed, G_hu_byte, G_hu_calls, G_hu_ctx, G_hu_seq, G_hu_iv_seen,
	G_hi_calls, G_hi_key, G_hi_keylen, G_hi_ctx, G_di_calls, G_di_key, G_di_iv, G_di_ctx)
ENSURES(RET == 1 || RET == -1)
ENSURES((RET == 1) == (ctx != NULL && key != NULL && iv != NULL && (aad != NULL || aadlen == 0)))
/* cipher keyed with key[0..16) and the caller's iv; HMAC keyed with key[16..48); nothing held back yet */
ENSURES(RET == 1 IMPLIES (G_di_calls == 1 && G_di_key == (size_t)key && G_di_iv == (size_t)iv && G_di_ctx == (size_t)&ctx->enc_ctx
	&& G_hi_calls == 1 && G_hi_key == (size_t)(key + 16) && G_hi_keylen == 32 && G_hi_ctx == (size_t)&ctx->mac_ctx && ctx->maclen == 0))
/* the AAD is authenticated, in full, (after the nonce, when that is bound) */
ENSURES(RET == 1 IMPLIES (G_hu_fed >= aadlen && (G_sk < aadlen IMPLIES G_hu_fed - aadlen + G_sk < G_hu_fed)))
#ifdef AE_IV_CLAUSE_ONLY
/* the nonce is part of the authenticated stream */
ENSURES(RET == 1 IMPLIES G_hu_iv_seen == 1)
#endif
;

int AE(decrypt_finish)(AE_CTX_T *ctx, uint8_t *out, size_t *outlen)
REQUIRES(ctx == NULL || (RW_OK(ctx, sizeof(AE_CTX_T))))
REQUIRES(outlen == NULL || WR_OK(outlen, sizeof(size_t)))
REQUIRES(out == NULL || WR_OK(out, AE_DEC_FINISH_MAXOUT))
REQUIRES(ctx == NULL || (SEPARATE(ctx, out) && SEPARATE(ctx, outlen)))
REQUIRES(SEPARATE(outlen, out) && verif_gk < 32)
REQUIRES(G_seq == 0 && G_hf_calls == 0 && G_df_calls == 0 && G_mcmp_calls == 0)
ASSIGNS(ctx != NULL: OBJ_UPTO((uint8_t *)ctx, sizeof(AE_CTX_T)); outlen != NULL: OBJ_UPTO((uint8_t *)outlen, sizeof(size_t)); out != NULL: OBJ_UPTO(out, AE_DEC_FINISH_MAXOUT);
	G_seq, G_hf_calls, G_hf_out, G_hf_ctx, G_hf_seq, G_df_calls, G_df_out, G_df_len, G_df_ret, G_df_seq,
	G_mcmp_last, G_mcmp_n, G_mcmp_a, G_mcmp_b, G_mcmp_calls, G_mcmp_ak, G_mcmp_bk, G_mcmp_seq)
ENSURES(RET == 1 || RET == -1)
ENSURES((ctx == NULL || out == NULL || outlen == NULL) IMPLIES RET == -1)
/* success only with a complete held-back tag equal, over all 32 bytes, to the HMAC of the stream */
ENSURES(RET == 1 IMPLIES (OLD(ctx->maclen) == 32 && G_hf_calls == 1 && G_hf_ctx == (size_t)&ctx->mac_ctx
	&& G_mcmp_calls == 1 && G_mcmp_n == 32 && G_mcmp_last == 0
	&& ((G_mcmp_b == (size_t)ctx->mac && G_mcmp_ak == G_hf_out && G_mcmp_bk == OLD(ctx->mac[verif_gk < 32 ? verif_gk : 0]))
	 || (G_mcmp_a == (size_t)ctx->mac && G_mcmp_bk == G_hf_out && G_mcmp_ak == OLD(ctx->mac[verif_gk < 32 ? verif_gk : 0])))))
ENSURES(RET == 1 IMPLIES (G_df_calls == 1 && G_df_ret == 1 && G_df_out == (size_t)out && *outlen == G_df_len))
/* completeness: a full, matching tag and a well-formed last block are accepted */
ENSURES((ctx != NULL && out != NULL && outlen != NULL && OLD(ctx->maclen) == 32 && G_df_ret == 1 && G_mcmp_calls == 1 && G_mcmp_last == 0) IMPLIES RET == 1)
;

#endif /* AE_ENC_ONLY */

#ifdef AE_WITH_UPDATE
/* inner CTR stream (same shape as sm4_ctr32_encrypt_update): consumes inlen bytes, emits whole blocks */
int AE_DEC_UPDATE(AE_ENC_CTX_T *ctx, const uint8_t *in, size_t inlen, uint8_t *out, size_t *outlen)
REQUIRES(RW_OK(ctx, sizeof(AE_ENC_CTX_T)) && WR_OK(outlen, sizeof(size_t)) && inlen <= (size_t)1 << 40)
REQUIRES(in != NULL && (inlen == 0 || RD_OK(in, inlen)))
REQUIRES(out != NULL && ctx->block_nbytes < 16)
REQUIRES(((ctx->block_nbytes + inlen) / 16) == 0 || WR_OK(out, ((ctx->block_nbytes + inlen) / 16) * 16))
REQUIRES(inlen == 0 || !__CPROVER_same_object(in, out) || (in == out && ctx->block_nbytes == 0)
	|| __CPROVER_POINTER_OFFSET(out) + ((ctx->block_nbytes + inlen) / 16) * 16 <= __CPROVER_POINTER_OFFSET(in)
	|| __CPROVER_POINTER_OFFSET(in) + inlen <= __CPROVER_POINTER_OFFSET(out))
ASSIGNS(OBJ_UPTO((uint8_t *)ctx, sizeof(AE_ENC_CTX_T)), OBJ_UPTO((uint8_t *)outlen, sizeof(size_t));
	((ctx->block_nbytes + inlen) / 16) != 0: OBJ_WHOLE(out);
	G_du_fed, G_du_byte, G_du_calls, G_du_ctx, G_du_out0, G_du_out_next, G_du_chain_ok, G_du_written, G_seq)
ENSURES(RET == 1)
ENSURES(*outlen == ((OLD(ctx->block_nbytes) + inlen) / 16) * 16 && ctx->block_nbytes == (OLD(ctx->block_nbytes) + inlen) % 16)
ENSURES(G_du_fed == OLD(G_du_fed) + inlen && G_du_calls == OLD(G_du_calls) + 1 && G_du_ctx == (size_t)ctx && G_seq == OLD(G_seq) + 1)
ENSURES((G_sk >= OLD(G_du_fed) && G_sk - OLD(G_du_fed) < inlen) ? G_du_byte == OLD(*((G_sk >= G_du_fed && G_sk - G_du_fed < inlen) ? (in + (G_sk - G_du_fed)) : &G_zero_byte)) : G_du_byte == OLD(G_du_byte))
ENSURES(G_du_out0 == (OLD(G_du_calls) == 0 ? (size_t)out : OLD(G_du_out0)))
ENSURES(G_du_chain_ok == ((OLD(G_du_calls) == 0 || (OLD(G_du_chain_ok) == 1 && (size_t)out == OLD(G_du_out_next))) ? 1 : 0))
ENSURES(G_du_out_next == (size_t)out + *outlen && G_du_written == OLD(G_du_written) + *outlen)
;

#ifdef VERIF_CBMC
uint8_t G_mac0[32];
#define AE_M0(c)     OLD((c)->maclen)
#define AE_TOTAL(c)  (OLD((c)->maclen) + inlen)
#define AE_FED(c)    (AE_TOTAL(c) - 32)
#define AE_S(c, j)   ((j) < AE_M0(c) ? G_mac0[(j) < 32 ? (j) : 0] : in[(j) - AE_M0(c)])
#ifdef AE_NO_CONTENT
#define AE_CONTENT(x) 1
#else
#define AE_CONTENT(x) (x)
#endif
#endif
/* hold-back discipline of the streaming decryptor: the last 32 bytes seen are kept as the candidate tag, everything before
   them is released, in order, to HMAC and to the cipher; at most 16*ceil(inlen/16) bytes of output */
int AE(decrypt_update)(AE_CTX_T *ctx, const uint8_t *in, size_t inlen, uint8_t *out, size_t *outlen)
REQUIRES(ctx == NULL || (RW_OK(ctx, sizeof(AE_CTX_T)) && ctx->maclen <= 32 && ctx->enc_ctx.block_nbytes < 16))
REQUIRES(in == NULL || inlen == 0 || RD_OK(in, inlen))
REQUIRES(outlen == NULL || WR_OK(outlen, sizeof(size_t)))
REQUIRES(out == NULL || inlen == 0 || (WR_OK(out, 16 * ((inlen + 15) / 16)) && SEPARATE(in, out)))
REQUIRES(ctx == NULL || (SEPARATE(ctx, in) && SEPARATE(ctx, out) && SEPARATE(ctx, outlen)))
REQUIRES(SEPARATE(outlen, out) && SEPARATE(outlen, in) && inlen <= (size_t)1 << 39)
REQUIRES(G_seq == 0 && G_hu_fed == 0 && G_hu_calls == 0 && G_du_fed == 0 && G_du_calls == 0 && G_du_written == 0 && G_du_chain_ok == 1 && G_sk < ((size_t)1 << 40) && verif_gk < 32)
ASSIGNS(ctx != NULL: OBJ_UPTO((uint8_t *)ctx, sizeof(AE_CTX_T)); outlen != NULL: OBJ_UPTO((uint8_t *)outlen, sizeof(size_t)); out != NULL && inlen != 0: OBJ_WHOLE(out);
	G_seq, G_hu_fed, G_hu_byte, G_hu_calls, G_hu_ctx, G_hu_seq, G_hu_iv_seen, G_du_fed, G_du_byte, G_du_calls, G_du_ctx, G_du_out0, G_du_out_next, G_du_chain_ok, G_du_written)
ENSURES(RET == 1 || RET == -1)
ENSURES((ctx == NULL || in == NULL || out == NULL || outlen == NULL) IMPLIES RET == -1)
ENSURES((RET == 1) IMPLIES (ctx->maclen <= 32 && ctx->enc_ctx.block_nbytes < 16 && *outlen <= 16 * ((inlen + 15) / 16)))
ENSURES((RET == 1 && AE_TOTAL(ctx) <= 32) IMPLIES (ctx->maclen == AE_TOTAL(ctx) && G_hu_fed == 0 && G_du_fed == 0 && *outlen == 0
	&& AE_CONTENT(verif_gk < ctx->maclen IMPLIES ctx->mac[verif_gk] == AE_S(ctx, verif_gk))))
ENSURES((RET == 1 && AE_TOTAL(ctx) > 32) IMPLIES (ctx->maclen == 32 && G_hu_fed == AE_FED(ctx) && G_du_fed == AE_FED(ctx)
	&& G_hu_ctx == (size_t)&ctx->mac_ctx && G_du_ctx == (size_t)&ctx->enc_ctx
	&& AE_CONTENT(G_sk < AE_FED(ctx) IMPLIES (G_hu_byte == AE_S(ctx, G_sk) && G_du_byte == AE_S(ctx, G_sk)))
	&& AE_CONTENT(ctx->mac[verif_gk] == AE_S(ctx, AE_FED(ctx) + verif_gk))
	&& G_du_out0 == (size_t)out && G_du_chain_ok == 1 && *outlen == G_du_written
	&& *outlen == ((OLD(ctx->enc_ctx.block_nbytes) + AE_FED(ctx)) / 16) * 16))
;
#endif

#ifdef AE_WITH_ENCRYPT
/* encryption side: encrypt-then-MAC — the MAC stream receives the CIPHERTEXT that was written, after it was produced, and the
   tag is the HMAC output appended behind the last ciphertext bytes */
#ifdef VERIF_CBMC
unsigned G_eu_calls; int G_eu_ret; size_t G_eu_in; size_t G_eu_inlen; size_t G_eu_out; size_t G_eu_outlen; size_t G_eu_ctx; unsigned G_eu_seq;
unsigned G_ef_calls; int G_ef_ret; size_t G_ef_out; size_t G_ef_outlen; size_t G_ef_ctx; unsigned G_ef_seq;
#endif
int AE_ENC_UPDATE(AE_ENC_CTX_T *ctx, const uint8_t *in, size_t inlen, uint8_t *out, size_t *outlen)
REQUIRES(RW_OK(ctx, sizeof(AE_ENC_CTX_T)) && in != NULL && out != NULL && inlen <= (size_t)1 << 32 && (inlen == 0 || RD_OK(in, inlen)) && WR_OK(outlen, sizeof(size_t)))
REQUIRES(inlen == 0 || WR_OK(out, 16 * ((inlen + 15) / 16)))
ASSIGNS(OBJ_UPTO((uint8_t *)ctx, sizeof(AE_ENC_CTX_T)), OBJ_UPTO((uint8_t *)outlen, sizeof(size_t)); inlen != 0: OBJ_WHOLE(out); G_eu_calls, G_eu_ret, G_eu_in, G_eu_inlen, G_eu_out, G_eu_outlen, G_eu_ctx, G_eu_seq, G_seq)
ENSURES((RET == 1 || RET == -1) && G_eu_calls == OLD(G_eu_calls) + 1 && G_eu_ret == RET && G_eu_in == (size_t)in && G_eu_inlen == inlen && G_eu_out == (size_t)out && G_eu_ctx == (size_t)ctx
	&& G_seq == OLD(G_seq) + 1 && G_eu_seq == G_seq)
ENSURES(RET == 1 IMPLIES (*outlen <= 16 * ((inlen + 15) / 16) && G_eu_outlen == *outlen))
;
int AE_ENC_FINISH(AE_ENC_CTX_T *ctx, uint8_t *out, size_t *outlen)
REQUIRES(RW_OK(ctx, sizeof(AE_ENC_CTX_T)) && WR_OK(out, 16) && WR_OK(outlen, sizeof(size_t)))
ASSIGNS(OBJ_UPTO((uint8_t *)ctx, sizeof(AE_ENC_CTX_T)), OBJ_UPTO(out, 16), OBJ_UPTO((uint8_t *)outlen, sizeof(size_t)), G_ef_calls, G_ef_ret, G_ef_out, G_ef_outlen, G_ef_ctx, G_ef_seq, G_seq)
ENSURES((RET == 1 || RET == -1) && G_ef_calls == OLD(G_ef_calls) + 1 && G_ef_ret == RET && G_ef_out == (size_t)out && G_ef_ctx == (size_t)ctx && G_seq == OLD(G_seq) + 1 && G_ef_seq == G_seq)
ENSURES(RET == 1 IMPLIES (*outlen <= 16 && G_ef_outlen == *outlen))
;

int AE(encrypt_update)(AE_CTX_T *ctx, const uint8_t *in, size_t inlen, uint8_t *out, size_t *outlen)
REQUIRES(ctx == NULL || RW_OK(ctx, sizeof(AE_CTX_T)))
REQUIRES(in == NULL || inlen == 0 || (inlen <= (size_t)1 << 32 && RD_OK(in, inlen)))
REQUIRES(outlen == NULL || WR_OK(outlen, sizeof(size_t)))
REQUIRES(out == NULL || inlen == 0 || WR_OK(out, 16 * ((inlen + 15) / 16)))
REQUIRES(ctx == NULL || (SEPARATE(ctx, in) && SEPARATE(ctx, out) && SEPARATE(ctx, outlen)))
REQUIRES(SEPARATE(outlen, out) && SEPARATE(outlen, in) && G_seq == 0 && G_eu_calls == 0 && G_hu_calls == 0 && G_hu_fed == 0 && G_sk < ((size_t)1 << 40))
ASSIGNS(ctx != NULL: OBJ_UPTO((uint8_t *)ctx, sizeof(AE_CTX_T)); outlen != NULL: OBJ_UPTO((uint8_t *)outlen, sizeof(size_t)); out != NULL && inlen != 0: OBJ_WHOLE(out);
	G_seq, G_eu_calls, G_eu_ret, G_eu_in, G_eu_inlen, G_eu_out, G_eu_outlen, G_eu_ctx, G_eu_seq, G_hu_fed, G_hu_byte, G_hu_calls, G_hu_ctx, G_hu_seq, G_hu_iv_seen)
ENSURES(RET == 1 || RET == -1)
ENSURES((ctx == NULL || in == NULL || out == NULL || outlen == NULL) IMPLIES RET == -1)
ENSURES(RET == 1 IMPLIES (G_eu_calls == 1 && G_eu_ret == 1 && G_eu_in == (size_t)in && G_eu_inlen == inlen && G_eu_out == (size_t)out && G_eu_ctx == (size_t)&ctx->enc_ctx && *outlen == G_eu_outlen
	&& G_hu_calls == 1 && G_hu_ctx == (size_t)&ctx->mac_ctx && G_hu_fed == *outlen && G_hu_seq > G_eu_seq && (G_sk < *outlen IMPLIES G_hu_byte == out[G_sk])))
;

int AE(encrypt_finish)(AE_CTX_T *ctx, uint8_t *out, size_t *outlen)
REQUIRES(ctx == NULL || RW_OK(ctx, sizeof(AE_CTX_T)))
REQUIRES(outlen == NULL || WR_OK(outlen, sizeof(size_t)))
/* last block (at most 16 bytes) plus the 32-byte tag */
REQUIRES(out == NULL || WR_OK(out, 48))
REQUIRES(ctx == NULL || (SEPARATE(ctx, out) && SEPARATE(ctx, outlen)))
REQUIRES(SEPARATE(outlen, out) && G_seq == 0 && G_ef_calls == 0 && G_hu_calls == 0 && G_hu_fed == 0 && G_hf_calls == 0 && G_sk < 16 && verif_gk < 32)
ASSIGNS(ctx != NULL: OBJ_UPTO((uint8_t *)ctx, sizeof(AE_CTX_T)); outlen != NULL: OBJ_UPTO((uint8_t *)outlen, sizeof(size_t)); out != NULL: OBJ_UPTO(out, 48);
	G_seq, G_ef_calls, G_ef_ret, G_ef_out, G_ef_outlen, G_ef_ctx, G_ef_seq, G_hu_fed, G_hu_byte, G_hu_calls, G_hu_ctx, G_hu_seq, G_hu_iv_seen, G_hf_calls, G_hf_out, G_hf_ctx, G_hf_seq)
ENSURES(RET == 1 || RET == -1)
ENSURES((ctx == NULL || out == NULL || outlen == NULL) IMPLIES RET == -1)
ENSURES(RET == 1 IMPLIES (G_ef_calls == 1 && G_ef_ret == 1 && G_ef_out == (size_t)out && G_ef_ctx == (size_t)&ctx->enc_ctx
	&& G_hu_calls == 1 && G_hu_fed == G_ef_outlen && G_hu_seq > G_ef_seq && (G_sk < G_ef_outlen IMPLIES G_hu_byte == out[G_sk])
	&& G_hf_calls == 1 && G_hf_ctx == (size_t)&ctx->mac_ctx && G_hf_seq > G_hu_seq
	&& *outlen == G_ef_outlen + 32 && out[G_ef_outlen + verif_gk] == G_hf_out))
;
#endif
