/* Contracts for handshake-message parsers of src/tls.c that copy peer data into fixed buffers (C06).
 * tls_record_get_handshake_certificate: the destination is one of the TLS_MAX_CERTIFICATES_SIZE byte arrays of TLS_CONNECT;
 * RET == 1 only if every certificate of the message parsed, and never more than that capacity is written. */
#ifndef CONTRACTS_TLS_HANDSHAKE_H
#define CONTRACTS_TLS_HANDSHAKE_H
#include "tls_wire.h"
#include <gmssl/x509.h>

/* assumed here (handshake header parser): on success the body is a slice of the record's declared data, or NULL when empty */
int tls_record_get_handshake(const uint8_t *record, int *type, const uint8_t **data, size_t *datalen)
REQUIRES(RD_OK(record, 5) && RD_OK(record, (size_t)5 + ((((size_t)record[3]) << 8) | record[4])) && WR_OK(type, sizeof(int)) && WR_OK(data, sizeof(*data)) && WR_OK(datalen, sizeof(size_t)))
ASSIGNS(*type, *data, *datalen)
ENSURES(RET == 1 || RET == -1)
ENSURES(RET == 1 IMPLIES (*datalen <= 16384 && *datalen + 9 <= (size_t)5 + ((((size_t)record[3]) << 8) | record[4]) + 0
	&& (*datalen == 0 ? *data == NULL : (PTR_IN(record, *data, record + 5 + ((((size_t)record[3]) << 8) | record[4])) && *data == record + 9))))
;
/* one Certificate off the front of a window: a slice inside it */
int x509_cert_from_der(const uint8_t **a, size_t *alen, const uint8_t **in, size_t *inlen)
REQUIRES(WR_OK(a, sizeof(*a)) && WR_OK(alen, sizeof(*alen)) && WR_OK(in, sizeof(*in)) && WR_OK(inlen, sizeof(*inlen)) && *inlen <= (size_t)1 << 24 && (*inlen == 0 || RD_OK(*in, *inlen)))
ASSIGNS(*a, *alen, *in, *inlen)
ENSURES(RET == 1 || RET == 0 || RET == -1)
ENSURES(RET == 1 IMPLIES (*alen >= 2 && *alen <= OLD(*inlen) && *inlen == OLD(*inlen) - *alen && PTR_IN(OLD(*in), *a, OLD(*in) + OLD(*inlen)) && *a == OLD(*in)))
;
int asn1_length_is_zero(size_t len)
ASSIGNS()
ENSURES(RET == (len == 0 ? 1 : -1))
;
/* appends the alen bytes of one certificate at *out: the destination must have room for them */
int x509_cert_to_der(const uint8_t *a, size_t alen, uint8_t **out, size_t *outlen)
REQUIRES(RD_OK(a, alen) && WR_OK(outlen, sizeof(size_t)) && WR_OK(out, sizeof(*out)) && *out != NULL && alen >= 1 && WR_OK(*out, alen))
ASSIGNS(OBJ_WHOLE(*out), *out, *outlen)
ENSURES(RET == 1 || RET == -1)
ENSURES(RET == 1 IMPLIES (*outlen == OLD(*outlen) + alen && PTR_IN(OLD(*out), *out, OLD(*out) + alen) && *out == OLD(*out) + alen))
ENSURES(RET != 1 IMPLIES (*outlen == OLD(*outlen) && *out == OLD(*out)))
;

int tls_record_get_handshake_certificate(const uint8_t *record, uint8_t *certs, size_t *certslen)
REQUIRES(RD_OK(record, 5) && RD_OK(record, (size_t)5 + ((((size_t)record[3]) << 8) | record[4])))
REQUIRES(WR_OK(certs, TLS_MAX_CERTIFICATES_SIZE) && WR_OK(certslen, sizeof(size_t)) && SEPARATE(certs, record) && SEPARATE(certslen, certs) && SEPARATE(certslen, record))
ASSIGNS(OBJ_WHOLE(certs), *certslen)
ENSURES(RET == 1 || RET == -1)
ENSURES(RET == 1 IMPLIES *certslen <= TLS_MAX_CERTIFICATES_SIZE)
;
#endif

#ifdef CONTRACT_TLS13_CERT_LIST
/* src/tls_ext.c: one extension off the front of a window (assumed here) */
int tls_ext_from_bytes(int *type, const uint8_t **data, size_t *datalen, const uint8_t **in, size_t *inlen)
REQUIRES(WR_OK(type, sizeof(int)) && WR_OK(data, sizeof(*data)) && WR_OK(datalen, sizeof(size_t)) && WIN_REQ(in, inlen))
ASSIGNS(*type, *data, *datalen, *in, *inlen)
ENSURES(RET == 1 || RET == -1)
ENSURES(RET == 1 IMPLIES (OLD(*inlen) >= 4 && *datalen <= OLD(*inlen) - 4 && WIN_ADV(in, inlen, 4 + *datalen)))
;
int tls13_process_certificate_list(const uint8_t *cert_list, size_t cert_list_len, uint8_t *certs, size_t *certs_len)
REQUIRES(cert_list_len <= 16384 && (cert_list_len == 0 || RD_OK(cert_list, cert_list_len)))
REQUIRES(WR_OK(certs, TLS_MAX_CERTIFICATES_SIZE) && WR_OK(certs_len, sizeof(size_t)) && SEPARATE(certs, cert_list) && SEPARATE(certs_len, certs) && SEPARATE(certs_len, cert_list))
ASSIGNS(OBJ_WHOLE(certs), *certs_len)
ENSURES(RET == 1 || RET == -1)
ENSURES(RET == 1 IMPLIES *certs_len <= TLS_MAX_CERTIFICATES_SIZE)
;
#endif

#ifdef CONTRACT_TLS_GETTERS
/* simple handshake-message getters: on success the output is a slice of the record's declared data */
#ifdef VERIF_CBMC
#define REC_LEN(r) ((size_t)5 + ((((size_t)(r)[3]) << 8) | (r)[4]))
#define REC_REQ(r) (RD_OK(r, 5) && RD_OK(r, REC_LEN(r)))
#define REC_SLICE(p, n, r) ((n) <= REC_LEN(r) && PTR_IN((r), (p), (r) + REC_LEN(r)) && (size_t)(__CPROVER_POINTER_OFFSET(p) - __CPROVER_POINTER_OFFSET(r)) + (n) <= REC_LEN(r))
#endif
#define GETTER_CONTRACT(fn, extra) \
int fn(const uint8_t *record, const uint8_t **out, size_t *outlen) \
REQUIRES(record == NULL || REC_REQ(record)) \
REQUIRES((out == NULL || WR_OK(out, sizeof(*out))) && (outlen == NULL || WR_OK(outlen, sizeof(size_t)))) \
ASSIGNS(out != NULL: *out; outlen != NULL: *outlen) \
ENSURES(RET == 1 || RET == -1) \
ENSURES((record == NULL || out == NULL || outlen == NULL) IMPLIES RET == -1) \
ENSURES(RET == 1 IMPLIES ((*outlen == 0 ? 1 : REC_SLICE(*out, *outlen, record)) && (extra)))
GETTER_CONTRACT(tls_record_get_handshake_client_key_exchange_pke, 1);
GETTER_CONTRACT(tls_record_get_handshake_certificate_verify, 1);
/* Finished.verify_data is 12 bytes (TLCP / TLS 1.2) or 32 bytes */
GETTER_CONTRACT(tls_record_get_handshake_finished, (*outlen == 12 || *outlen == 32) && *out != NULL);
/* ServerHelloDone: no outputs; success only for an empty body of the right type, i.e. a 9-byte record */
int tls_record_get_handshake_server_hello_done(const uint8_t *record)
REQUIRES(record == NULL || REC_REQ(record))
ASSIGNS()
ENSURES(RET == 1 || RET == -1)
ENSURES(record == NULL IMPLIES RET == -1)
;
/* CertificateRequest of TLCP / TLS 1.2: both outputs are slices of the record; cert_types is non-empty */
int tls_record_get_handshake_certificate_request(const uint8_t *record, const uint8_t **cert_types, size_t *cert_types_len, const uint8_t **ca_names, size_t *ca_names_len)
REQUIRES(record == NULL || REC_REQ(record))
REQUIRES(WR_OK(cert_types, sizeof(*cert_types)) && WR_OK(cert_types_len, sizeof(size_t)) && WR_OK(ca_names, sizeof(*ca_names)) && WR_OK(ca_names_len, sizeof(size_t)))
ASSIGNS(*cert_types, *cert_types_len, *ca_names, *ca_names_len)
ENSURES(RET == 1 || RET == -1)
ENSURES(record == NULL IMPLIES RET == -1)
ENSURES(RET == 1 IMPLIES (*cert_types != NULL && *cert_types_len > 0 && REC_SLICE(*cert_types, *cert_types_len, record)
	&& (*ca_names_len == 0 ? *ca_names == NULL : REC_SLICE(*ca_names, *ca_names_len, record))))
;
#ifdef CONTRACT_TLCP_GETTERS
GETTER_CONTRACT(tlcp_record_get_handshake_server_key_exchange_pke, 1);
#endif
#endif

#ifdef CONTRACT_TLS_HELLO
#ifdef VERIF_CBMC
int __CPROVER_uninterpreted_cipher_known(int);
#endif
/* src/tls_trace.c table lookup (assumed: a pure function of its argument) */
const char *tls_cipher_suite_name(int cipher)
ASSIGNS()
ENSURES((RET != NULL) == (__CPROVER_uninterpreted_cipher_known(cipher) != 0))
;
/* ServerHello: every output is a slice of the record; the session id fits the 32-byte field callers copy it into */
int tls_record_get_handshake_server_hello(const uint8_t *record, int *protocol, const uint8_t **random, const uint8_t **session_id, size_t *session_id_len,
	int *cipher_suite, const uint8_t **exts, size_t *exts_len)
REQUIRES(record == NULL || REC_REQ(record))
REQUIRES((protocol == NULL || WR_OK(protocol, sizeof(int))) && (random == NULL || WR_OK(random, sizeof(*random))) && (session_id == NULL || WR_OK(session_id, sizeof(*session_id)))
	&& (session_id_len == NULL || WR_OK(session_id_len, sizeof(size_t))) && (cipher_suite == NULL || WR_OK(cipher_suite, sizeof(int))) && (exts == NULL || WR_OK(exts, sizeof(*exts))) && (exts_len == NULL || WR_OK(exts_len, sizeof(size_t))))
ASSIGNS(protocol != NULL: *protocol; random != NULL: *random; session_id != NULL: *session_id; session_id_len != NULL: *session_id_len; cipher_suite != NULL: *cipher_suite; exts != NULL: *exts; exts_len != NULL: *exts_len)
ENSURES(RET == 1 || RET == -1)
ENSURES(RET == 1 IMPLIES (REC_SLICE(*random, 32, record) && (*session_id == NULL ? *session_id_len == 0 : (*session_id_len >= 1 && *session_id_len <= 32 && REC_SLICE(*session_id, *session_id_len, record)))
	&& (*exts == NULL ? *exts_len == 0 : REC_SLICE(*exts, *exts_len, record))
	&& __CPROVER_uninterpreted_cipher_known(*cipher_suite) != 0 && *protocol >= ((((int)record[1]) << 8) | record[2])))
;
#endif

#ifdef CONTRACT_TLS_HELLO
int tls_record_get_handshake_client_hello(const uint8_t *record, int *protocol, const uint8_t **random, const uint8_t **session_id, size_t *session_id_len,
	const uint8_t **cipher_suites, size_t *cipher_suites_len, const uint8_t **exts, size_t *exts_len)
REQUIRES(record == NULL || REC_REQ(record))
REQUIRES((protocol == NULL || WR_OK(protocol, sizeof(int))) && (random == NULL || WR_OK(random, sizeof(*random))) && (session_id == NULL || WR_OK(session_id, sizeof(*session_id)))
	&& (session_id_len == NULL || WR_OK(session_id_len, sizeof(size_t))) && (cipher_suites == NULL || WR_OK(cipher_suites, sizeof(*cipher_suites))) && (cipher_suites_len == NULL || WR_OK(cipher_suites_len, sizeof(size_t)))
	&& (exts == NULL || WR_OK(exts, sizeof(*exts))) && (exts_len == NULL || WR_OK(exts_len, sizeof(size_t))))
ASSIGNS(protocol != NULL: *protocol; random != NULL: *random; session_id != NULL: *session_id; session_id_len != NULL: *session_id_len;
	cipher_suites != NULL: *cipher_suites; cipher_suites_len != NULL: *cipher_suites_len; exts != NULL: *exts; exts_len != NULL: *exts_len)
ENSURES(RET == 1 || RET == -1)
ENSURES(RET == 1 IMPLIES (REC_SLICE(*random, 32, record) && (*session_id == NULL ? *session_id_len == 0 : (*session_id_len >= 1 && *session_id_len <= 32 && REC_SLICE(*session_id, *session_id_len, record)))
	&& *cipher_suites_len % 2 == 0 && (*cipher_suites == NULL ? *cipher_suites_len == 0 : REC_SLICE(*cipher_suites, *cipher_suites_len, record))
	&& (*exts == NULL ? *exts_len == 0 : REC_SLICE(*exts, *exts_len, record))))
;
#endif

#ifdef CONTRACT_TLS_HELLO_EXTS
/* server-side processing of ClientHello extensions (src/tls_ext.c): every recognised extension appends one response
   extension to the caller's buffer of maxlen bytes.  The three processors are replaced by contracts (assumed): a response of a
   fixed size K is appended when a buffer is given, and only counted when it is not (the two-pass convention). */
#ifndef CONTRACT_TLS13_CERT_LIST
int tls_ext_from_bytes(int *type, const uint8_t **data, size_t *datalen, const uint8_t **in, size_t *inlen)
REQUIRES(WR_OK(type, sizeof(int)) && WR_OK(data, sizeof(*data)) && WR_OK(datalen, sizeof(size_t)) && WIN_REQ(in, inlen))
ASSIGNS(*type, *data, *datalen, *in, *inlen)
ENSURES(RET == 1 || RET == -1)
ENSURES(RET == 1 IMPLIES (OLD(*inlen) >= 4 && *datalen <= OLD(*inlen) - 4 && WIN_ADV(in, inlen, 4 + *datalen)
	&& (*datalen == 0 ? *data == NULL : (PTR_IN(OLD(*in), *data, OLD(*in) + OLD(*inlen)) && *data == OLD(*in) + 4))))
;
#endif
#define EXT_PROC_CONTRACT(fn, K) \
int fn(const uint8_t *ext_data, size_t ext_datalen, uint8_t **out, size_t *outlen) \
REQUIRES((ext_datalen == 0 || RD_OK(ext_data, ext_datalen)) && WR_OK(outlen, sizeof(size_t))) \
REQUIRES(out == NULL || (WR_OK(out, sizeof(*out)) && (*out == NULL || WR_OK(*out, (K))))) \
ASSIGNS(*outlen; out != NULL && *out != NULL: OBJ_WHOLE(*out), *out) \
ENSURES(RET == 1 || RET == -1) \
ENSURES(RET == 1 IMPLIES *outlen == OLD(*outlen) + (K)) \
ENSURES((RET == 1 && out != NULL && OLD(*out) != NULL) IMPLIES (PTR_IN(OLD(*out), *out, OLD(*out) + (K)) && *out == OLD(*out) + (K))) \
ENSURES((RET != 1 && out != NULL) IMPLIES *out == OLD(*out))
EXT_PROC_CONTRACT(tls_process_client_ec_point_formats, 6);
EXT_PROC_CONTRACT(tls_process_client_signature_algorithms, 8);
EXT_PROC_CONTRACT(tls_process_client_supported_groups, 8);

int tls_process_client_hello_exts(const uint8_t *exts, size_t extslen, uint8_t *out, size_t *outlen, size_t maxlen)
REQUIRES(extslen <= 65535 && (extslen == 0 || RD_OK(exts, extslen)) && WR_OK(outlen, sizeof(size_t)) && *outlen == 0)
REQUIRES(maxlen <= 4096 && (maxlen == 0 || WR_OK(out, maxlen)) && SEPARATE(out, exts) && SEPARATE(outlen, out) && SEPARATE(outlen, exts))
ASSIGNS(*outlen; maxlen != 0: OBJ_WHOLE(out))
ENSURES(RET == 1 || RET == -1)
ENSURES(RET == 1 IMPLIES *outlen <= maxlen)
;
#endif

#ifdef CONTRACT_TLS13_PARSERS
/* TLS 1.3 parsers of src/tls13.c that consume peer data through the wire-format readers: they return (termination is the
   decreases clause of the annotated loop), and success means every field was actually read from inside the window */
int tls13_process_server_key_share(const uint8_t *ext_data, size_t ext_datalen, SM2_Z256_POINT *point)
REQUIRES((ext_datalen == 0 || RD_OK(ext_data, ext_datalen)) && WR_OK(point, sizeof(*point)))
ASSIGNS(OBJ_UPTO((uint8_t *)point, sizeof(*point)))
ENSURES(RET == 1 || RET == -1)
;
int tls13_server_hello_extensions_get(const uint8_t *exts, size_t extslen, SM2_Z256_POINT *sm2_point)
REQUIRES(extslen <= 65535 && (extslen == 0 || RD_OK(exts, extslen)) && WR_OK(sm2_point, sizeof(*sm2_point)) && SEPARATE(exts, sm2_point))
ASSIGNS(OBJ_UPTO((uint8_t *)sm2_point, sizeof(*sm2_point)))
ENSURES(RET == 1 || RET == -1)
;
int tls13_record_get_handshake_certificate_verify(const uint8_t *record, int *sign_algor, const uint8_t **sig, size_t *siglen)
REQUIRES(REC_REQ(record) && WR_OK(sign_algor, sizeof(int)) && WR_OK(sig, sizeof(*sig)) && WR_OK(siglen, sizeof(size_t)))
ASSIGNS(*sign_algor, *sig, *siglen)
ENSURES(RET == 1 || RET == -1)
/* success: the signature is a slice of the record (possibly empty) and the algorithm was read from it */
ENSURES(RET == 1 IMPLIES (*siglen == 0 ? *sig == NULL : REC_SLICE(*sig, *siglen, record)))
ENSURES(RET == 1 IMPLIES (*sign_algor >= 0 && *sign_algor <= 65535))
;
#endif

#ifdef CONTRACT_TLS13_GETTERS
/* memory safety only: the function has no outputs; it accepts any handshake type (observation in DESIGN 7.6) */
int tls13_record_get_handshake_encrypted_extensions(const uint8_t *record)
REQUIRES(REC_REQ(record))
ASSIGNS()
ENSURES(RET == 1 || RET == -1)
;
GETTER_CONTRACT(tls13_record_get_handshake_finished, (*outlen == 32 || *outlen == 48) && *out != NULL);
int tls13_record_get_handshake_certificate(const uint8_t *record, const uint8_t **cert_request_context, size_t *cert_request_context_len, const uint8_t **cert_list, size_t *cert_list_len)
REQUIRES(REC_REQ(record) && WR_OK(cert_request_context, sizeof(*cert_request_context)) && WR_OK(cert_request_context_len, sizeof(size_t)) && WR_OK(cert_list, sizeof(*cert_list)) && WR_OK(cert_list_len, sizeof(size_t)))
ASSIGNS(*cert_request_context, *cert_request_context_len, *cert_list, *cert_list_len)
ENSURES(RET == 1 || RET == -1)
ENSURES(RET == 1 IMPLIES ((*cert_request_context_len == 0 ? *cert_request_context == NULL : REC_SLICE(*cert_request_context, *cert_request_context_len, record))
	&& *cert_list != NULL && *cert_list_len > 0 && REC_SLICE(*cert_list, *cert_list_len, record)))
;
int tls13_record_get_handshake_certificate_request(const uint8_t *record, const uint8_t **requst_context, size_t *request_context_len, const uint8_t **exts, size_t *exts_len)
REQUIRES(REC_REQ(record) && WR_OK(requst_context, sizeof(*requst_context)) && WR_OK(request_context_len, sizeof(size_t)) && WR_OK(exts, sizeof(*exts)) && WR_OK(exts_len, sizeof(size_t)))
ASSIGNS(*requst_context, *request_context_len, *exts, *exts_len)
ENSURES(RET == 1 || RET == -1)
ENSURES(RET == 1 IMPLIES ((*request_context_len == 0 ? *requst_context == NULL : REC_SLICE(*requst_context, *request_context_len, record))
	&& (*exts_len == 0 ? *exts == NULL : REC_SLICE(*exts, *exts_len, record))))
;
#endif
