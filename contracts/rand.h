/* C18 — the entropy gateway and its recording contract (P-TAINT).
 * G_rb_fail is sticky: it becomes 1 at the first failed draw and the code can never reset it (it is ghost state). */
#ifndef CONTRACTS_RAND_H
#define CONTRACTS_RAND_H
#include "verif.h"
#include <gmssl/rand.h>
#ifdef VERIF_CBMC
#define G_rb_fail verif_rb_fail
#define G_rb_calls verif_rb_calls
#define G_rb_buf verif_rb_buf
#define G_rb_len verif_rb_len
#endif
#ifndef CONTRACT_RAND_BYTES_ENFORCE
int rand_bytes(uint8_t *buf, size_t len)
REQUIRES(buf == NULL || len == 0 || len > 256 || WR_OK(buf, len))
ASSIGNS(buf != NULL && len >= 1 && len <= 256: OBJ_UPTO(buf, len); G_rb_fail, G_rb_calls, G_rb_buf, G_rb_len)
ENSURES(RET == 1 || RET == -1)
ENSURES((buf == NULL || len == 0 || len > 256) IMPLIES RET == -1)
ENSURES(G_rb_calls == OLD(G_rb_calls) + 1 && G_rb_buf == (size_t)buf && G_rb_len == len)
ENSURES(RET == 1 ? G_rb_fail == OLD(G_rb_fail) : G_rb_fail == 1)
;
#endif
#endif
