/* Contracts for src/sm2_sign.c (C01).  Point operations are uninterpreted (P-UF); what is proved is that
 * verification accepts exactly when the GB/T 32918.2 checks and equation hold over those operations with the
 * operands in the standard's places, that signing produces the standard's (r, s) for the nonce drawn, and the
 * strict-DER / no-trailing-bytes / ID-binding mechanisms. */
#ifndef CONTRACTS_SM2_SIGN_H
#define CONTRACTS_SM2_SIGN_H
#include "asn1.h"
#include "sm2_point.h"
#include "sm3_transcript.h"
#include "libc.h"
#include <gmssl/sm2.h>

/* a || b || Gx || Gy, GB/T 32918.5-2017 (written from the standard, not read from the code) */
static const uint8_t SM2_CURVE_ABG[128] = {
	0xFF,0xFF,0xFF,0xFE,0xFF,0xFF,0xFF,0xFF,0xFF,0xFF,0xFF,0xFF,0xFF,0xFF,0xFF,0xFF,0xFF,0xFF,0xFF,0xFF,0x00,0x00,0x00,0x00,0xFF,0xFF,0xFF,0xFF,0xFF,0xFF,0xFF,0xFC,
	0x28,0xE9,0xFA,0x9E,0x9D,0x9F,0x5E,0x34,0x4D,0x5A,0x9E,0x4B,0xCF,0x65,0x09,0xA7,0xF3,0x97,0x89,0xF5,0x15,0xAB,0x8F,0x92,0xDD,0xBC,0xBD,0x41,0x4D,0x94,0x0E,0x93,
	0x32,0xC4,0xAE,0x2C,0x1F,0x19,0x81,0x19,0x5F,0x99,0x04,0x46,0x6A,0x39,0xC9,0x94,0x8F,0xE3,0x0B,0xBF,0xF2,0x66,0x0B,0xE1,0x71,0x5A,0x45,0x89,0x33,0x4C,0x74,0xC7,
	0xBC,0x37,0x36,0xA2,0xF4,0xF6,0x77,0x9C,0x59,0xBD,0xCE,0xE3,0x6B,0x69,0x21,0x53,0xD0,0xA9,0x87,0x7C,0xC6,0x2A,0x47,0x40,0x02,0xDF,0x32,0xE5,0x21,0x39,0xF0,0xA0,
};

#ifdef VERIF_CBMC
/* [k]G, [k]P, P+Q as uninterpreted coordinate functions; affine x of a point */
bv256 __CPROVER_uninterpreted_gX(bv256); bv256 __CPROVER_uninterpreted_gY(bv256); bv256 __CPROVER_uninterpreted_gZ(bv256);
bv256 __CPROVER_uninterpreted_mX(bv256, bv256, bv256, bv256); bv256 __CPROVER_uninterpreted_mY(bv256, bv256, bv256, bv256); bv256 __CPROVER_uninterpreted_mZ(bv256, bv256, bv256, bv256);
bv256 __CPROVER_uninterpreted_aX(bv256, bv256, bv256, bv256, bv256, bv256); bv256 __CPROVER_uninterpreted_aY(bv256, bv256, bv256, bv256, bv256, bv256); bv256 __CPROVER_uninterpreted_aZ(bv256, bv256, bv256, bv256, bv256, bv256);
bv256 __CPROVER_uninterpreted_affx(bv256, bv256, bv256);
/* Z_n Montgomery ops */
bv256 __CPROVER_uninterpreted_tomn(bv256); bv256 __CPROVER_uninterpreted_mmn(bv256, bv256); bv256 __CPROVER_uninterpreted_minvn(bv256);
#define GX(k) __CPROVER_uninterpreted_gX(k)
#define GY(k) __CPROVER_uninterpreted_gY(k)
#define GZ(k) __CPROVER_uninterpreted_gZ(k)
#define MX(k, P) __CPROVER_uninterpreted_mX(k, V256((P)->X), V256((P)->Y), V256((P)->Z))
#define MY(k, P) __CPROVER_uninterpreted_mY(k, V256((P)->X), V256((P)->Y), V256((P)->Z))
#define MZ(k, P) __CPROVER_uninterpreted_mZ(k, V256((P)->X), V256((P)->Y), V256((P)->Z))
#define AFFX(X, Y, Z) __CPROVER_uninterpreted_affx(X, Y, Z)
#define AX6(a, b, c, d, e, f) __CPROVER_uninterpreted_aX(a, b, c, d, e, f)
#define AY6(a, b, c, d, e, f) __CPROVER_uninterpreted_aY(a, b, c, d, e, f)
#define AZ6(a, b, c, d, e, f) __CPROVER_uninterpreted_aZ(a, b, c, d, e, f)
#define REDN(v)     ((bv257)(v) >= BV_N ? (bv257)(v) - BV_N : (bv257)(v))            /* v mod n for v < 2^256 < 2n */
#define ADDN(a, b)  (((bv257)(a) + (bv257)(b)) >= BV_N ? ((bv257)(a) + (bv257)(b)) - BV_N : ((bv257)(a) + (bv257)(b)))   /* a,b < n */
#define SUBN(a, b)  ((bv257)(a) >= (bv257)(b) ? (bv257)(a) - (bv257)(b) : (bv257)(a) + BV_N - (bv257)(b))
/* x coordinate of [s]G + [t]P over the uninterpreted operations, operands in the standard's places */
#define VERIFY_X(s, t, P) AFFX( \
	AX6(GX(s), GY(s), GZ(s), MX(t, P), MY(t, P), MZ(t, P)), \
	AY6(GX(s), GY(s), GZ(s), MX(t, P), MY(t, P), MZ(t, P)), \
	AZ6(GX(s), GY(s), GZ(s), MX(t, P), MY(t, P), MZ(t, P)))
/* ghost: recording of the core verification call made by the DER-level wrappers */
int G_dv_last; unsigned G_dv_calls; size_t G_dv_key; size_t G_dv_dgst; uint8_t G_dv_sigbyte;
/* ghost: nonce handed out by the replaced sm2_z256_rand_range */
#define G_k_drawn verif_k_drawn
#define G_rand_calls verif_rand_calls
#define G_rand_fail verif_rand_fail
size_t G_sk2;   /* ghost index into the 64 signature bytes */
#endif

/* ---- point operations as recording stubs (P-TAINT): each call records its scalar, its operand VALUES and its
   (arbitrary) result, so the caller's postcondition can state which value flowed where.  The UF formulation of the
   same equation (a 256-bit congruence chain) did not finish in 900 s on any back end (measured). ---- */
#ifdef VERIF_CBMC
typedef struct { uint64_t X[4], Y[4], Z[4]; } gpt_t;
#define PT_EQ(g, P) ((g).X[0] == (P)->X[0] && (g).X[1] == (P)->X[1] && (g).X[2] == (P)->X[2] && (g).X[3] == (P)->X[3] \
	&& (g).Y[0] == (P)->Y[0] && (g).Y[1] == (P)->Y[1] && (g).Y[2] == (P)->Y[2] && (g).Y[3] == (P)->Y[3] \
	&& (g).Z[0] == (P)->Z[0] && (g).Z[1] == (P)->Z[1] && (g).Z[2] == (P)->Z[2] && (g).Z[3] == (P)->Z[3])
#define GPT_EQ(g, h) ((g).X[0] == (h).X[0] && (g).X[1] == (h).X[1] && (g).X[2] == (h).X[2] && (g).X[3] == (h).X[3] \
	&& (g).Y[0] == (h).Y[0] && (g).Y[1] == (h).Y[1] && (g).Y[2] == (h).Y[2] && (g).Y[3] == (h).Y[3] \
	&& (g).Z[0] == (h).Z[0] && (g).Z[1] == (h).Z[1] && (g).Z[2] == (h).Z[2] && (g).Z[3] == (h).Z[3])
uint64_t G_mg_k[4]; gpt_t G_mg_out; unsigned G_mg_calls;            /* [k]G : scalar, result */
uint64_t G_pm_k[4]; gpt_t G_pm_in; gpt_t G_pm_out; unsigned G_pm_calls;   /* [k]P : scalar, operand, result */
gpt_t G_pa_a, G_pa_b, G_pa_out; unsigned G_pa_calls;                 /* P+Q  : operands, result */
gpt_t G_gx_in; uint64_t G_gx_x[4]; unsigned G_gx_calls;              /* affine x : operand, result */
#endif
void sm2_z256_point_mul_generator(SM2_Z256_POINT *R, const sm2_z256_t k)
REQUIRES(WR_OK(R, sizeof(*R)) && RD_OK(k, 32))
ASSIGNS(OBJ_UPTO((uint8_t *)R, sizeof(*R)), OBJ_WHOLE(G_mg_k), G_mg_out, G_mg_calls)
ENSURES(G_mg_calls == OLD(G_mg_calls) + 1 && VAL4(G_mg_k) == MK4(OLD(k[3]), OLD(k[2]), OLD(k[1]), OLD(k[0])) && PT_EQ(G_mg_out, R))
;
void sm2_z256_point_mul(SM2_Z256_POINT *R, const sm2_z256_t k, const SM2_Z256_POINT *P)
REQUIRES(WR_OK(R, sizeof(*R)) && RD_OK(k, 32) && RD_OK(P, sizeof(*P)) && SEPARATE(R, P) && SEPARATE(R, k))
ASSIGNS(OBJ_UPTO((uint8_t *)R, sizeof(*R)), OBJ_WHOLE(G_pm_k), G_pm_in, G_pm_out, G_pm_calls)
ENSURES(G_pm_calls == OLD(G_pm_calls) + 1 && VAL4(G_pm_k) == VAL4(k) && PT_EQ(G_pm_in, P) && PT_EQ(G_pm_out, R))
;
void sm2_z256_point_mul_ex(SM2_Z256_POINT *R, const uint64_t k[4], const SM2_Z256_POINT *T)
REQUIRES(WR_OK(R, sizeof(*R)) && RD_OK(k, 32) && RD_OK(T, 16 * sizeof(*T)) && SEPARATE(R, T) && SEPARATE(R, k))
ASSIGNS(OBJ_UPTO((uint8_t *)R, sizeof(*R)), OBJ_WHOLE(G_pm_k), G_pm_in, G_pm_out, G_pm_calls)
ENSURES(G_pm_calls == OLD(G_pm_calls) + 1 && VAL4(G_pm_k) == VAL4(k) && PT_EQ(G_pm_in, &T[0]) && PT_EQ(G_pm_out, R))
;
void sm2_z256_point_add(SM2_Z256_POINT *r, const SM2_Z256_POINT *a, const SM2_Z256_POINT *b)
REQUIRES(WR_OK(r, sizeof(*r)) && RD_OK(a, sizeof(*a)) && RD_OK(b, sizeof(*b)) && SEPARATE(r, b))
ASSIGNS(OBJ_UPTO((uint8_t *)r, sizeof(*r)), G_pa_a, G_pa_b, G_pa_out, G_pa_calls)
ENSURES(G_pa_calls == OLD(G_pa_calls) + 1 && PT_EQ(G_pa_b, b) && PT_EQ(G_pa_out, r))
ENSURES(G_pa_a.X[0] == OLD(a->X[0]) && G_pa_a.X[1] == OLD(a->X[1]) && G_pa_a.X[2] == OLD(a->X[2]) && G_pa_a.X[3] == OLD(a->X[3])
	&& G_pa_a.Y[0] == OLD(a->Y[0]) && G_pa_a.Y[1] == OLD(a->Y[1]) && G_pa_a.Y[2] == OLD(a->Y[2]) && G_pa_a.Y[3] == OLD(a->Y[3])
	&& G_pa_a.Z[0] == OLD(a->Z[0]) && G_pa_a.Z[1] == OLD(a->Z[1]) && G_pa_a.Z[2] == OLD(a->Z[2]) && G_pa_a.Z[3] == OLD(a->Z[3]))
;
#ifdef CONTRACT_GET_XY_UF
int sm2_z256_point_get_xy(const SM2_Z256_POINT *P, uint64_t x[4], uint64_t y[4])
REQUIRES(RD_OK(P, sizeof(*P)) && WR_OK(x, 32) && y == NULL)
ASSIGNS(OBJ_UPTO(x, 32), G_gx_in, OBJ_WHOLE(G_gx_x), G_gx_calls)
ENSURES(RET == 1 || RET == 0)
ENSURES(G_gx_calls == OLD(G_gx_calls) + 1 && PT_EQ(G_gx_in, P) && VAL4(G_gx_x) == VAL4(x) && VAL4(x) < BV_P)
;
#endif

/* Z_n Montgomery layer, uninterpreted */
void sm2_z256_modn_to_mont(const sm2_z256_t a, uint64_t r[4])
REQUIRES(RD_OK(a, 32) && WR_OK(r, 32))
ASSIGNS(OBJ_UPTO(r, 32))
ENSURES(V256(r) == __CPROVER_uninterpreted_tomn(MK4(OLD(a[3]), OLD(a[2]), OLD(a[1]), OLD(a[0]))) && VAL4(r) < BV_N)
;
void sm2_z256_modn_mont_mul(sm2_z256_t r, const sm2_z256_t a, const sm2_z256_t b)
REQUIRES(RD_OK(a, 32) && RD_OK(b, 32) && WR_OK(r, 32))
ASSIGNS(OBJ_UPTO(r, 32))
ENSURES(V256(r) == __CPROVER_uninterpreted_mmn(MK4(OLD(a[3]), OLD(a[2]), OLD(a[1]), OLD(a[0])), MK4(OLD(b[3]), OLD(b[2]), OLD(b[1]), OLD(b[0]))) && VAL4(r) < BV_N)
;
void sm2_z256_modn_mont_inv(sm2_z256_t r, const sm2_z256_t a)
REQUIRES(RD_OK(a, 32) && WR_OK(r, 32))
ASSIGNS(OBJ_UPTO(r, 32))
ENSURES(V256(r) == __CPROVER_uninterpreted_minvn(MK4(OLD(a[3]), OLD(a[2]), OLD(a[1]), OLD(a[0]))) && VAL4(r) < BV_N)
;

/* nonce source (C18 owns its own proof): an arbitrary value below range, or failure */
int sm2_z256_rand_range(sm2_z256_t r, const sm2_z256_t range)
REQUIRES(WR_OK(r, 32) && RD_OK(range, 32))
ASSIGNS(OBJ_UPTO(r, 32), OBJ_WHOLE(G_k_drawn), G_rand_calls, G_rand_fail)
ENSURES(RET == 1 || RET == 0 || RET == -1)
ENSURES(G_rand_calls == OLD(G_rand_calls) + 1)
ENSURES(RET == 1 IMPLIES VAL4(r) < VAL4(range) && VAL4(G_k_drawn) == VAL4(r) && G_rand_fail == OLD(G_rand_fail))
ENSURES(RET != 1 IMPLIES G_rand_fail == 1)
;

/* ---- verification core: accepts only if the GB/T 32918.2 checks and equation hold ---- */
/* RET == 1 only if: r, s in [1, n-1]; t = (r+s) mod n != 0; exactly one [.]G with scalar s, exactly one [.]P with scalar t
   on the caller's public key, their results added (in that order), the affine x of the sum taken, and r == (e + x) mod n */
#define SM2_VERIFY_POST(P) \
ENSURES(RET == 1 || RET == -1) \
ENSURES(RET == 1 IMPLIES BEVAL32(sig->r) >= 1 && BEVAL32(sig->r) < (bv256)BV_N && BEVAL32(sig->s) >= 1 && BEVAL32(sig->s) < (bv256)BV_N) \
ENSURES(RET == 1 IMPLIES ADDN(BEVAL32(sig->r), BEVAL32(sig->s)) != 0) \
ENSURES(RET == 1 IMPLIES G_mg_calls == OLD(G_mg_calls) + 1 && G_pm_calls == OLD(G_pm_calls) + 1 && G_pa_calls == OLD(G_pa_calls) + 1 && G_gx_calls == OLD(G_gx_calls) + 1) \
ENSURES(RET == 1 IMPLIES (bv256)VAL4(G_mg_k) == BEVAL32(sig->s) && VAL4(G_pm_k) == ADDN(BEVAL32(sig->r), BEVAL32(sig->s)) && PT_EQ(G_pm_in, P)) \
ENSURES(RET == 1 IMPLIES GPT_EQ(G_pa_a, G_mg_out) && GPT_EQ(G_pa_b, G_pm_out) && GPT_EQ(G_gx_in, G_pa_out)) \
ENSURES(RET == 1 IMPLIES (bv257)BEVAL32(sig->r) == ADDN(REDN(BEVAL32(dgst)), REDN(VAL4(G_gx_x))))

int sm2_do_verify(const SM2_KEY *key, const uint8_t dgst[32], const SM2_SIGNATURE *sig)
REQUIRES(RD_OK(key, sizeof(*key)) && RD_OK(dgst, 32) && RD_OK(sig, sizeof(*sig)))
#ifdef CONTRACT_DO_VERIFY_RECORDING
ASSIGNS(G_dv_last, G_dv_calls, G_dv_key, G_dv_dgst, G_dv_sigbyte)
ENSURES(RET == 1 || RET == -1)
ENSURES(G_dv_last == RET && G_dv_calls == OLD(G_dv_calls) + 1 && G_dv_key == (size_t)key && G_dv_dgst == (size_t)dgst
	&& (G_sk2 >= 64 || G_dv_sigbyte == ((const uint8_t *)sig)[G_sk2]))
#else
ASSIGNS(OBJ_WHOLE(G_mg_k), G_mg_out, G_mg_calls, OBJ_WHOLE(G_pm_k), G_pm_in, G_pm_out, G_pm_calls, G_pa_a, G_pa_b, G_pa_out, G_pa_calls, G_gx_in, OBJ_WHOLE(G_gx_x), G_gx_calls)
SM2_VERIFY_POST(&key->public_key)
#endif
;

int sm2_fast_verify(const SM2_Z256_POINT point_table[16], const uint8_t dgst[32], const SM2_SIGNATURE *sig)
REQUIRES(RD_OK(point_table, 16 * sizeof(SM2_Z256_POINT)) && RD_OK(dgst, 32) && RD_OK(sig, sizeof(*sig)))
#ifdef CONTRACT_DO_VERIFY_RECORDING
ASSIGNS(G_dv_last, G_dv_calls, G_dv_key, G_dv_dgst, G_dv_sigbyte)
ENSURES(RET == 1 || RET == -1)
ENSURES(G_dv_last == RET && G_dv_calls == OLD(G_dv_calls) + 1 && G_dv_key == (size_t)point_table && G_dv_dgst == (size_t)dgst
	&& (G_sk2 >= 64 || G_dv_sigbyte == ((const uint8_t *)sig)[G_sk2]))
#else
ASSIGNS(OBJ_WHOLE(G_mg_k), G_mg_out, G_mg_calls, OBJ_WHOLE(G_pm_k), G_pm_in, G_pm_out, G_pm_calls, G_pa_a, G_pa_b, G_pa_out, G_pa_calls, G_gx_in, OBJ_WHOLE(G_gx_x), G_gx_calls)
SM2_VERIFY_POST(&point_table[0])
#endif
;

/* ---- signature DER ---- */
/* strict SEQUENCE{INTEGER,INTEGER}: content consumed entirely, each value <= 32 bytes, right-aligned big-endian */
int sm2_signature_from_der(SM2_SIGNATURE *sig, const uint8_t **in, size_t *inlen)
REQUIRES(WR_OK(sig, sizeof(*sig)) && DER_RD_REQ(in, inlen))
ASSIGNS(OBJ_UPTO((uint8_t *)sig, sizeof(*sig)), *in, *inlen)
ENSURES(RET == 1 || RET == 0 || RET == -1)
ENSURES(RET == 0 IMPLIES DER_RD_SAME(in, inlen))
ENSURES(RET == 1 IMPLIES DER_RD_ADV(in, inlen) && DER_CONSUMED(inlen) >= 8 && DER_CONSUMED(inlen) <= SM2_MAX_SIGNATURE_SIZE)
;

int sm2_signature_to_der(const SM2_SIGNATURE *sig, uint8_t **out, size_t *outlen)
REQUIRES((sig == NULL || RD_OK(sig, sizeof(*sig))) && DER_WR_REQ(out, outlen, SM2_MAX_SIGNATURE_SIZE))
ASSIGNS(*outlen; out != NULL: *out; out != NULL && *out != NULL: OBJ_UPTO(*out, SM2_MAX_SIGNATURE_SIZE))
ENSURES(RET == 1 || RET == 0 || RET == -1)
ENSURES((RET == 1) == (sig != NULL))
ENSURES(RET == 1 IMPLIES *outlen - OLD(*outlen) >= 8 && *outlen - OLD(*outlen) <= SM2_MAX_SIGNATURE_SIZE)
ENSURES(RET == 1 IMPLIES (out == NULL || (OLD(*out) == NULL ? *out == NULL :
	(PTR_IN(OLD(*out), *out, OLD(*out) + SM2_MAX_SIGNATURE_SIZE) && *out == OLD(*out) + (*outlen - OLD(*outlen))))))
;

/* DER-level verification: accepts only one strictly encoded signature with NO trailing bytes, and only if the core
   verification returned 1 on exactly the parsed (r, s), the caller's digest and the caller's key */
int sm2_verify(const SM2_KEY *key, const uint8_t dgst[32], const uint8_t *sigbuf, size_t siglen)
REQUIRES((key == NULL || RD_OK(key, sizeof(*key))) && (dgst == NULL || RD_OK(dgst, 32)) && siglen <= (size_t)INT_MAX && (sigbuf == NULL || RD_OK(sigbuf, siglen)))
ASSIGNS(G_dv_last, G_dv_calls, G_dv_key, G_dv_dgst, G_dv_sigbyte)
ENSURES(RET == 1 || RET == -1)
ENSURES(RET == 1 IMPLIES G_dv_calls == OLD(G_dv_calls) + 1 && G_dv_last == 1 && G_dv_key == (size_t)key && G_dv_dgst == (size_t)dgst)
;

/* Z = SM3(ENTL || ID || a || b || Gx || Gy || Px || Py): C01 "the ID bound into the digest is exactly the idlen bytes
   the caller passed": the stream absorbed is that sequence for THE GIVEN idlen, and no byte of id at index >= idlen is read */
int sm2_compute_z(uint8_t z[32], const SM2_Z256_POINT *pub, const char *id, size_t idlen)
REQUIRES(WR_OK(z, 32) && RD_OK(pub, sizeof(*pub)) && idlen >= 1 && idlen <= SM2_MAX_ID_LENGTH && RD_OK(id, idlen))
ASSIGNS(OBJ_UPTO(z, 32), G_fin_fed, G_fin_tbyte, G_fin_tseen, G_fin_calls)
ENSURES(RET == 1)
ENSURES(G_fin_calls == OLD(G_fin_calls) + 1 && G_fin_fed == 2 + idlen + 192)
ENSURES(G_tk == 0 IMPLIES (G_fin_tseen == 1 && G_fin_tbyte == (uint8_t)((idlen * 8) >> 8)))
ENSURES(G_tk == 1 IMPLIES (G_fin_tseen == 1 && G_fin_tbyte == (uint8_t)(idlen * 8)))
ENSURES((G_tk >= 2 && G_tk < 2 + idlen) IMPLIES (G_fin_tseen == 1 && G_fin_tbyte == (uint8_t)id[G_tk - 2]))
/* curve parameters a, b, Gx, Gy of GB/T 32918.5 */
ENSURES((G_tk >= 2 + idlen && G_tk < 2 + idlen + 128) IMPLIES (G_fin_tseen == 1 && G_fin_tbyte == SM2_CURVE_ABG[G_tk - 2 - idlen]))
/* affine public key coordinates, big-endian */
ENSURES((V256(pub->Z) == BV_MONT_ONE && !ISINF(pub) && G_tk >= 2 + idlen + 128 && G_tk < 2 + idlen + 160) IMPLIES (G_fin_tseen == 1
	&& G_fin_tbyte == (uint8_t)(FROMMONT(V256(pub->X)) >> (8 * (31 - (G_tk - (2 + idlen + 128)))))))
ENSURES((V256(pub->Z) == BV_MONT_ONE && !ISINF(pub) && G_tk >= 2 + idlen + 160 && G_tk < 2 + idlen + 192) IMPLIES (G_fin_tseen == 1
	&& G_fin_tbyte == (uint8_t)(FROMMONT(V256(pub->Y)) >> (8 * (31 - (G_tk - (2 + idlen + 160)))))))
;

/* streaming verification: same acceptance condition as sm2_verify, on the digest of the context's stream */
int sm2_verify_finish(SM2_VERIFY_CTX *ctx, const uint8_t *sigbuf, size_t siglen)
REQUIRES((ctx == NULL || RW_OK(ctx, sizeof(*ctx))) && siglen <= (size_t)INT_MAX && (sigbuf == NULL || RD_OK(sigbuf, siglen)))
ASSIGNS(ctx != NULL: OBJ_UPTO((uint8_t *)ctx, sizeof(*ctx)); G_dv_last, G_dv_calls, G_dv_key, G_dv_dgst, G_dv_sigbyte, G_fin_fed, G_fin_tbyte, G_fin_tseen, G_fin_calls)
ENSURES(RET == 1 || RET == -1)
ENSURES(RET == 1 IMPLIES G_dv_calls == OLD(G_dv_calls) + 1 && G_dv_last == 1 && G_dv_key == (size_t)ctx->public_point_table)
/* the digest verified is the one of the context's stream, finished exactly once */
ENSURES(RET == 1 IMPLIES G_fin_calls == OLD(G_fin_calls) + 1 && G_fin_fed == OLD(SM3_FED(&ctx->sm3_ctx)))
;

/* precomputed nonces are consumed once each: the slot used is num_pre_comp-1 (after a refill when empty) and the counter drops by one */
#ifdef VERIF_CBMC
size_t G_fs_precomp; unsigned G_fs_calls; int G_fs_last; unsigned G_pc_calls; int G_pc_last;
#endif
int sm2_fast_sign_pre_compute(SM2_SIGN_PRE_COMP pre_comp[32])
REQUIRES(WR_OK(pre_comp, 32 * sizeof(SM2_SIGN_PRE_COMP)))
#ifdef CONTRACT_SIGN_RECORDING
ASSIGNS(OBJ_UPTO((uint8_t *)pre_comp, 32 * sizeof(SM2_SIGN_PRE_COMP)), G_pc_calls, G_pc_last)
ENSURES(RET == 1 || RET == -1)
ENSURES(G_pc_calls == OLD(G_pc_calls) + 1 && G_pc_last == RET)
#else
ASSIGNS(OBJ_UPTO((uint8_t *)pre_comp, 32 * sizeof(SM2_SIGN_PRE_COMP)))
ENSURES(RET == 1 || RET == -1)
#endif
;

#ifndef CONTRACT_SIGN_RECORDING
/* fast path: (r, s) of GB/T 32918.2 for the precomputed nonce k (x1 = x([k]G) mod n) and d' = (1+d)^-1:
   r = (e + x1) mod n, s = ((k + r) * d' - r) mod n, and — as on the one-shot path — never r == 0, r + k == n or s == 0 */
int sm2_fast_sign(const sm2_z256_t fast_private, SM2_SIGN_PRE_COMP *pre_comp, const uint8_t dgst[32], SM2_SIGNATURE *sig)
REQUIRES(RD_OK(fast_private, 32) && RD_OK(pre_comp, sizeof(*pre_comp)) && RD_OK(dgst, 32) && WR_OK(sig, sizeof(*sig)))
REQUIRES(VAL4(pre_comp->k) < BV_N && VAL4(pre_comp->x1_modn) < BV_N && VAL4(fast_private) < BV_N)
ASSIGNS(OBJ_UPTO((uint8_t *)sig, sizeof(*sig)))
ENSURES(RET == 1 || RET == -1)
ENSURES(RET == 1 IMPLIES (bv257)BEVAL32(sig->r) == ADDN(REDN(BEVAL32(dgst)), VAL4(pre_comp->x1_modn)))
ENSURES(RET == 1 IMPLIES BEVAL32(sig->r) != 0 && BEVAL32(sig->s) != 0 && (bv257)BEVAL32(sig->r) + VAL4(pre_comp->k) != BV_N)
ENSURES(RET == 1 IMPLIES (bv257)BEVAL32(sig->s) == SUBN(__CPROVER_uninterpreted_mmn(__CPROVER_uninterpreted_tomn((bv256)ADDN(VAL4(pre_comp->k), BEVAL32(sig->r))), V256(fast_private)), BEVAL32(sig->r)))
;

/* one-shot path: the nonce is the LAST value drawn; r = (e + x([k]G)) mod n; retry on r == 0, r + k == n, s == 0;
   s = (1+d)^-1 * (k - r*d) over the uninterpreted Z_n Montgomery operations */
int sm2_do_sign(const SM2_KEY *key, const uint8_t dgst[32], SM2_SIGNATURE *sig)
REQUIRES(RD_OK(key, sizeof(*key)) && RD_OK(dgst, 32) && WR_OK(sig, sizeof(*sig)) && VAL4(key->private_key) < BV_N)
ASSIGNS(OBJ_UPTO((uint8_t *)sig, sizeof(*sig)), OBJ_WHOLE(G_k_drawn), G_rand_calls, G_rand_fail, OBJ_WHOLE(G_mg_k), G_mg_out, G_mg_calls, G_gx_in, OBJ_WHOLE(G_gx_x), G_gx_calls)
ENSURES(RET == 1 || RET == -1)
ENSURES(RET == 1 IMPLIES G_rand_fail == OLD(G_rand_fail) && VAL4(G_k_drawn) >= 1 && VAL4(G_k_drawn) < BV_N)
ENSURES(RET == 1 IMPLIES VAL4(G_mg_k) == VAL4(G_k_drawn) && GPT_EQ(G_gx_in, G_mg_out))
ENSURES(RET == 1 IMPLIES (bv257)BEVAL32(sig->r) == ADDN(REDN(BEVAL32(dgst)), REDN(VAL4(G_gx_x))))
ENSURES(RET == 1 IMPLIES BEVAL32(sig->r) != 0 && BEVAL32(sig->s) != 0 && (bv257)BEVAL32(sig->r) + VAL4(G_k_drawn) != BV_N)
ENSURES(RET == 1 IMPLIES BEVAL32(sig->s) == __CPROVER_uninterpreted_mmn(
	__CPROVER_uninterpreted_minvn(__CPROVER_uninterpreted_tomn((bv256)ADDN(VAL4(key->private_key), 1))),
	(bv256)SUBN(VAL4(G_k_drawn), __CPROVER_uninterpreted_mmn(__CPROVER_uninterpreted_tomn(BEVAL32(sig->r)), V256(key->private_key)))))
;
#endif

#ifdef CONTRACT_SIGN_RECORDING
int sm2_fast_sign(const sm2_z256_t fast_private, SM2_SIGN_PRE_COMP *pre_comp, const uint8_t dgst[32], SM2_SIGNATURE *sig)
REQUIRES(RD_OK(fast_private, 32) && RD_OK(pre_comp, sizeof(*pre_comp)) && RD_OK(dgst, 32) && WR_OK(sig, sizeof(*sig)))
ASSIGNS(OBJ_UPTO((uint8_t *)sig, sizeof(*sig)), G_fs_precomp, G_fs_calls, G_fs_last)
ENSURES(RET == 1 || RET == -1)
ENSURES(G_fs_precomp == (size_t)pre_comp && G_fs_calls == OLD(G_fs_calls) + 1 && G_fs_last == RET)
;
#endif

int sm2_sign_finish(SM2_SIGN_CTX *ctx, uint8_t *sig, size_t *siglen)
REQUIRES((ctx == NULL || (RW_OK(ctx, sizeof(*ctx)) && ctx->num_pre_comp <= SM2_SIGN_PRE_COMP_COUNT)) && (sig == NULL || WR_OK(sig, SM2_MAX_SIGNATURE_SIZE)) && (siglen == NULL || WR_OK(siglen, sizeof(*siglen))))
ASSIGNS(ctx != NULL: OBJ_UPTO((uint8_t *)ctx, sizeof(*ctx)); sig != NULL: OBJ_UPTO(sig, SM2_MAX_SIGNATURE_SIZE); siglen != NULL: *siglen;
	G_fs_precomp, G_fs_calls, G_fs_last, G_pc_calls, G_pc_last, G_fin_fed, G_fin_tbyte, G_fin_tseen, G_fin_calls)
ENSURES(RET == 1 || RET == -1)
ENSURES(RET == 1 IMPLIES ctx->num_pre_comp < SM2_SIGN_PRE_COMP_COUNT && *siglen >= 8 && *siglen <= SM2_MAX_SIGNATURE_SIZE)
ENSURES(RET == 1 IMPLIES G_fs_calls == OLD(G_fs_calls) + 1 && G_fs_last == 1 && G_fs_precomp == (size_t)&ctx->pre_comp[ctx->num_pre_comp])
/* not exhausted: the next unused slot, no refill; exhausted: exactly one successful refill, then slot 31 */
ENSURES((RET == 1 && OLD(ctx->num_pre_comp) > 0) IMPLIES ctx->num_pre_comp == OLD(ctx->num_pre_comp) - 1 && G_pc_calls == OLD(G_pc_calls))
ENSURES((RET == 1 && OLD(ctx->num_pre_comp) == 0) IMPLIES ctx->num_pre_comp == SM2_SIGN_PRE_COMP_COUNT - 1 && G_pc_calls == OLD(G_pc_calls) + 1 && G_pc_last == 1)
/* C18, on EVERY return: the counter of unused nonces never grows without a successful refill, and a failed refill leaves it at zero
   (slots >= num_pre_comp have been used or are half-written and must never become "unused" again) */
ENSURES((ctx != NULL && G_pc_calls == OLD(G_pc_calls)) IMPLIES ctx->num_pre_comp <= OLD(ctx->num_pre_comp))
ENSURES((ctx != NULL && G_pc_calls != OLD(G_pc_calls)) IMPLIES (G_pc_calls == OLD(G_pc_calls) + 1 && OLD(ctx->num_pre_comp) == 0))
ENSURES((ctx != NULL && G_pc_calls != OLD(G_pc_calls) && G_pc_last != 1) IMPLIES ctx->num_pre_comp == 0)
;

int sm2_fast_sign_compute_key(const SM2_KEY *key, sm2_z256_t fast_private)
REQUIRES(RD_OK(key, sizeof(*key)) && WR_OK(fast_private, 32))
ASSIGNS(OBJ_UPTO((uint8_t *)fast_private, 32))
ENSURES(RET == 1 || RET == -1)
;

/* reset rewinds the message hash only: the nonce bookkeeping is untouched */
int sm2_sign_reset(SM2_SIGN_CTX *ctx)
REQUIRES(RW_OK(ctx, sizeof(*ctx)))
ASSIGNS(OBJ_UPTO((uint8_t *)&ctx->sm3_ctx, sizeof(SM3_CTX)))
ENSURES(RET == 1 && ctx->num_pre_comp == OLD(ctx->num_pre_comp))
;

/* init: a context is usable only after a successful batch generation, and then announces exactly that batch */
int sm2_sign_init(SM2_SIGN_CTX *ctx, const SM2_KEY *key, const char *id, size_t idlen)
REQUIRES(ctx == NULL || WR_OK(ctx, sizeof(*ctx)))
REQUIRES(key == NULL || RD_OK(key, sizeof(*key)))
REQUIRES(id == NULL || idlen == 0 || idlen > SM2_MAX_ID_LENGTH || RD_OK(id, idlen))
ASSIGNS(ctx != NULL: OBJ_UPTO((uint8_t *)ctx, sizeof(*ctx)); G_pc_calls, G_pc_last, G_fin_fed, G_fin_tbyte, G_fin_tseen, G_fin_calls)
ENSURES(RET == 1 || RET == -1)
ENSURES(RET == 1 IMPLIES (ctx != NULL && key != NULL && G_pc_calls == OLD(G_pc_calls) + 1 && G_pc_last == 1 && ctx->num_pre_comp == SM2_SIGN_PRE_COMP_COUNT))
ENSURES(RET == 1 IMPLIES (id == NULL || (idlen >= 1 && idlen <= SM2_MAX_ID_LENGTH)))
;
#endif
