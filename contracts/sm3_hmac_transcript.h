/* P-TRANSCRIPT abstraction of SM3-HMAC streaming (message part only): same encoding as sm3_transcript.h, carried in
 * ctx->sm3_ctx so that memcpy(&hmac_ctx, inited_hmac_ctx, sizeof) copies the transcript of the keyed prefix.
 * FED counts MESSAGE bytes (the keyed ipad block absorbed by sm3_hmac_init is not counted: an "inited" ctx has FED 0). */
#ifndef CONTRACTS_SM3_HMAC_TRANSCRIPT_H
#define CONTRACTS_SM3_HMAC_TRANSCRIPT_H
#include "sm3_transcript.h"
#ifdef VERIF_CBMC
#define HM_FED(c)   SM3_FED(&(c)->sm3_ctx)
#define HM_TBYTE(c) SM3_TBYTE(&(c)->sm3_ctx)
#define HM_TSEEN(c) SM3_TSEEN(&(c)->sm3_ctx)
uint64_t G_hfin_fed; uint8_t G_hfin_tbyte; uint8_t G_hfin_tseen; unsigned G_hfin_calls; size_t G_hfin_mac;
#endif
void sm3_hmac_init(SM3_HMAC_CTX *ctx, const uint8_t *key, size_t keylen)
REQUIRES(WR_OK(ctx, sizeof(*ctx)) && keylen <= 4096 && RD_OK(key, keylen))
ASSIGNS(OBJ_UPTO((uint8_t *)ctx, sizeof(*ctx)))
ENSURES(HM_FED(ctx) == 0 && HM_TSEEN(ctx) == 0)
;
void sm3_hmac_update(SM3_HMAC_CTX *ctx, const uint8_t *data, size_t datalen)
REQUIRES(RW_OK(ctx, sizeof(*ctx)) && (datalen == 0 || RD_OK(data, datalen)))
ASSIGNS(OBJ_UPTO((uint8_t *)ctx, sizeof(*ctx)))
ENSURES(HM_FED(ctx) == OLD(HM_FED(ctx)) + datalen)
ENSURES((OLD(HM_FED(ctx)) <= G_tk && G_tk - OLD(HM_FED(ctx)) < datalen)
	? (HM_TSEEN(ctx) == 1 && HM_TBYTE(ctx) == data[G_tk - OLD(HM_FED(ctx))])
	: (HM_TSEEN(ctx) == OLD(HM_TSEEN(ctx)) && HM_TBYTE(ctx) == OLD(HM_TBYTE(ctx))))
;
void sm3_hmac_finish(SM3_HMAC_CTX *ctx, uint8_t mac[SM3_HMAC_SIZE])
REQUIRES(RW_OK(ctx, sizeof(*ctx)) && WR_OK(mac, 32))
ASSIGNS(OBJ_UPTO(mac, 32), G_hfin_fed, G_hfin_tbyte, G_hfin_tseen, G_hfin_calls, G_hfin_mac)
ENSURES(G_hfin_fed == HM_FED(ctx) && G_hfin_tbyte == HM_TBYTE(ctx) && G_hfin_tseen == HM_TSEEN(ctx)
	&& G_hfin_calls == OLD(G_hfin_calls) + 1 && G_hfin_mac == (size_t)mac)
;
#endif
