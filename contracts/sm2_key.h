/* Contracts for src/sm2_key.c, src/sm2_exch.c (C12, C14, C06) — key and key-share import.
 * Ghost state (P-TAINT): replaced callees record what they were asked and what they answered, so that the
 * importer's postcondition can say "success => the check was made on that object and its answer was 1". */
#ifndef CONTRACTS_SM2_KEY_H
#define CONTRACTS_SM2_KEY_H
#include "asn1.h"
#include "sm2_point.h"
#include <gmssl/sm2.h>
#include <gmssl/ec.h>
#include <gmssl/x509_alg.h>

#ifdef VERIF_CBMC
/* ghost: last answer of the public-key comparison and number of comparisons made */
int G_pkequ_last; unsigned G_pkequ_calls;
/* ghost: last answer of point import and number of imports */
int G_import_last; unsigned G_import_calls; size_t G_import_len;
unsigned G_mulg_calls;
#define N_MINUS_1 (BV_N - 1)
#endif

void sm2_z256_point_mul_generator(SM2_Z256_POINT *R, const sm2_z256_t k)
REQUIRES(WR_OK(R, sizeof(*R)) && RD_OK(k, 32))
ASSIGNS(OBJ_UPTO((uint8_t *)R, sizeof(*R)), G_mulg_calls)
ENSURES(G_mulg_calls == OLD(G_mulg_calls) + 1)
;

void sm2_z256_point_mul(SM2_Z256_POINT *R, const sm2_z256_t k, const SM2_Z256_POINT *P)
REQUIRES(WR_OK(R, sizeof(*R)) && RD_OK(k, 32) && RD_OK(P, sizeof(*P)))
ASSIGNS(OBJ_UPTO((uint8_t *)R, sizeof(*R)))
;

int sm2_z256_point_equ(const SM2_Z256_POINT *P, const SM2_Z256_POINT *Q)
REQUIRES(RD_OK(P, sizeof(*P)) && RD_OK(Q, sizeof(*Q)))
ASSIGNS()
ENSURES(RET == 1 || RET == 0)
;

/* C12: SM2 private scalars are accepted only in [1, n-2] */
int sm2_key_set_private_key(SM2_KEY *key, const sm2_z256_t private_key)
REQUIRES((key == NULL || WR_OK(key, sizeof(*key))) && (private_key == NULL || RD_OK(private_key, 32)))
REQUIRES(key == NULL || private_key == NULL || SEPARATE(key, private_key))
ASSIGNS(key != NULL: OBJ_UPTO((uint8_t *)key, sizeof(*key)); G_mulg_calls)
ENSURES(RET == 1 || RET == -1)
ENSURES((RET == 1) == (key != NULL && private_key != NULL && VAL4(private_key) >= 1 && VAL4(private_key) < N_MINUS_1))
ENSURES(RET == 1 IMPLIES VAL4(key->private_key) == VAL4(private_key) && G_mulg_calls == OLD(G_mulg_calls) + 1)
;

int sm2_public_key_equ(const SM2_KEY *sm2_key, const SM2_KEY *pub_key)
REQUIRES(RD_OK(sm2_key, sizeof(*sm2_key)) && RD_OK(pub_key, sizeof(*pub_key)))
ASSIGNS(G_pkequ_last, G_pkequ_calls)
ENSURES(RET == 1 || RET == 0)
ENSURES(G_pkequ_last == RET && G_pkequ_calls == OLD(G_pkequ_calls) + 1)
;

/* recording variant of the point importer's contract, used where sm2_z256_point_from_octets is REPLACED */
#ifdef CONTRACT_FROM_OCTETS_RECORDING
int sm2_z256_point_from_octets(SM2_Z256_POINT *P, const uint8_t *in, size_t inlen)
REQUIRES(WR_OK(P, sizeof(*P)) && inlen >= 1 && inlen <= 1024 && RD_OK(in, inlen) && SEPARATE(P, in))
ASSIGNS(OBJ_UPTO((uint8_t *)P, sizeof(*P)), G_import_last, G_import_calls, G_import_len)
ENSURES(RET == 1 || RET == -1)
ENSURES(G_import_last == RET && G_import_calls == OLD(G_import_calls) + 1 && G_import_len == inlen)
ENSURES(RET == 1 IMPLIES ((in[0] == 0x00 && inlen == 1 && VAL4(P->Z) == 0)
	|| ((in[0] == 0x02 || in[0] == 0x03) && inlen == 33 && V256(P->Z) == BV_MONT_ONE)
	|| (in[0] == 0x04 && inlen == 65 && POINT_VALID(P))))
;
#endif

/* SubjectPublicKey BIT STRING -> key: success means a 65-octet encoding was imported by the validating importer with result 1 */
int sm2_public_key_from_der(SM2_KEY *key, const uint8_t **in, size_t *inlen)
REQUIRES(WR_OK(key, sizeof(*key)) && DER_RD_REQ(in, inlen))
ASSIGNS(OBJ_UPTO((uint8_t *)key, sizeof(*key)), *in, *inlen, G_import_last, G_import_calls, G_import_len)
ENSURES(RET == 1 || RET == 0 || RET == -1)
ENSURES(RET == 0 IMPLIES DER_RD_SAME(in, inlen))
ENSURES(RET == 1 IMPLIES DER_RD_ADV(in, inlen) && G_import_calls == OLD(G_import_calls) + 1 && G_import_last == 1 && G_import_len == 65)
/* the imported key is finite (Z = mont 1): never the point at infinity */
ENSURES(RET == 1 IMPLIES V256(key->public_key.Z) == BV_MONT_ONE && VAL4(key->private_key) == 0)
;

int sm2_z256_point_from_der(SM2_Z256_POINT *P, const uint8_t **in, size_t *inlen)
REQUIRES(WR_OK(P, sizeof(*P)) && DER_RD_REQ(in, inlen))
ASSIGNS(OBJ_UPTO((uint8_t *)P, sizeof(*P)), *in, *inlen, G_import_last, G_import_calls, G_import_len)
ENSURES(RET == 1 || RET == 0 || RET == -1)
ENSURES(RET == 0 IMPLIES DER_RD_SAME(in, inlen))
ENSURES(RET == 1 IMPLIES DER_RD_ADV(in, inlen) && G_import_calls == OLD(G_import_calls) + 1 && G_import_last == 1 && G_import_len == 65
	&& V256(P->Z) == BV_MONT_ONE)
;

int ec_named_curve_from_der(int *oid, const uint8_t **in, size_t *inlen)
REQUIRES(WR_OK(oid, sizeof(*oid)) && DER_RD_REQ(in, inlen))
ASSIGNS(*oid, *in, *inlen)
ENSURES(RET == 1 || RET == 0 || RET == -1)
ENSURES(RET == 0 IMPLIES DER_RD_SAME(in, inlen))
ENSURES(RET == 1 IMPLIES DER_RD_ADV(in, inlen))
;

/* ECPrivateKey: C12 — scalar in [1, n-2]; a container whose embedded public key does not match its scalar is rejected;
   C14 — the SEQUENCE content is consumed entirely (no trailing bytes inside) */
int sm2_private_key_from_der(SM2_KEY *key, const uint8_t **in, size_t *inlen)
REQUIRES(WR_OK(key, sizeof(*key)) && DER_RD_REQ(in, inlen))
ASSIGNS(OBJ_UPTO((uint8_t *)key, sizeof(*key)), *in, *inlen, G_mulg_calls, G_pkequ_last, G_pkequ_calls, G_import_last, G_import_calls, G_import_len)
ENSURES(RET == 1 || RET == 0 || RET == -1)
ENSURES(RET == 0 IMPLIES DER_RD_SAME(in, inlen))
ENSURES(RET == 1 IMPLIES DER_RD_ADV(in, inlen) && VAL4(key->private_key) >= 1 && VAL4(key->private_key) < N_MINUS_1)
ENSURES(RET == 1 IMPLIES G_pkequ_calls == OLD(G_pkequ_calls) + 1 && G_pkequ_last == 1)
;

/* ECDH: success means the peer share was imported by the validating importer AND is a finite point */
int sm2_ecdh(const SM2_KEY *key, const uint8_t *peer_public, size_t peer_public_len, uint8_t out[64])
REQUIRES(RD_OK(key, sizeof(*key)) && peer_public_len <= 1024 && (peer_public == NULL || RD_OK(peer_public, peer_public_len)) && WR_OK(out, 64))
ASSIGNS(OBJ_UPTO(out, 64), G_import_last, G_import_calls, G_import_len, G_isinf_last, G_isinf_calls)
ENSURES(RET == 1 || RET == -1)
ENSURES(RET == 1 IMPLIES G_import_calls == OLD(G_import_calls) + 1 && G_import_last == 1)
/* "never yields the point at infinity as a peer's key-agreement share": the imported point was tested for infinity
   and the test was negative before it reached the multiplication */
ENSURES(RET == 1 IMPLIES G_isinf_calls >= OLD(G_isinf_calls) + 1 && G_isinf_last == 0)
;


/* C18 / C12: key generation — d is the LAST value drawn, in [1, n-2]; fail closed: on a failed draw no public key is derived */
#ifdef CONTRACT_KEYGEN
int sm2_z256_rand_range(sm2_z256_t r, const sm2_z256_t range)
REQUIRES(WR_OK(r, 32) && RD_OK(range, 32))
ASSIGNS(OBJ_UPTO(r, 32), OBJ_WHOLE(verif_k_drawn), verif_rand_calls, verif_rand_fail)
ENSURES(RET == 1 || RET == 0 || RET == -1)
ENSURES(verif_rand_calls == OLD(verif_rand_calls) + 1)
ENSURES(RET == 1 IMPLIES VAL4(r) < VAL4(range) && VAL4(verif_k_drawn) == VAL4(r) && verif_rand_fail == OLD(verif_rand_fail))
ENSURES(RET != 1 IMPLIES verif_rand_fail == 1)
;
int sm2_key_generate(SM2_KEY *key)
REQUIRES(key == NULL || WR_OK(key, sizeof(*key)))
ASSIGNS(key != NULL: OBJ_UPTO((uint8_t *)key, sizeof(*key)); OBJ_WHOLE(verif_k_drawn), verif_rand_calls, verif_rand_fail, G_mulg_calls)
ENSURES(RET == 1 || RET == -1)
ENSURES(RET == 1 IMPLIES verif_rand_fail == OLD(verif_rand_fail) && VAL4(key->private_key) == VAL4(verif_k_drawn)
	&& VAL4(key->private_key) >= 1 && VAL4(key->private_key) < N_MINUS_1 && G_mulg_calls == OLD(G_mulg_calls) + 1)
ENSURES(RET != 1 IMPLIES G_mulg_calls == OLD(G_mulg_calls))
ENSURES((OLD(verif_rand_fail) == 0 && verif_rand_fail != 0) IMPLIES RET == -1)
;
#endif
#endif
