/* Contracts for src/sm4_ofb.c (C04).  Streaming: the two-mode size contract of sm4_cfb.h with 16-byte blocks.
 * One-shot OFB (GB/T 17964 / SP 800-38A 6.4) against the recorded block-cipher history (recorders of sm4_cfb.h):
 *   I_0 = IV;  O_k = E(I_k);  I_{k+1} = O_k;  out-block_k = in-block_k xor MSB_len(O_k);  iv on return = O_last.
 * The ghost byte position inside a block is verif_gk (G_fe_j2 must equal it, G_fe_j3 is the position checked in I_0). */
#ifndef CONTRACTS_SM4_OFB_H
#define CONTRACTS_SM4_OFB_H
#include "sm4_cfb.h"
#ifdef VERIF_CBMC
#define OFB_CTX_OK(ctx) (RW_OK(ctx, sizeof(SM4_OFB_CTX)) && (ctx)->block_nbytes < 16)
#define OFB_W(bn, inlen) ((((bn) + (inlen)) / 16) * 16)
#endif
#ifdef CONTRACT_OFB_ONESHOT_FRAME
void sm4_ofb_encrypt(const SM4_KEY *key, uint8_t iv[16], const uint8_t *in, size_t inlen, uint8_t *out)
REQUIRES(RD_OK(key, sizeof(SM4_KEY)) && RW_OK(iv, 16))
REQUIRES(inlen == 0 || (RD_OK(in, inlen) && WR_OK(out, inlen)))
ASSIGNS(OBJ_UPTO(iv, 16); inlen != 0: OBJ_UPTO(out, inlen))
;
#endif
#ifdef CONTRACT_OFB_ONESHOT
void sm4_ofb_encrypt(const SM4_KEY *key, uint8_t iv[16], const uint8_t *in, size_t inlen, uint8_t *out)
REQUIRES(RD_OK(key, sizeof(SM4_KEY)) && RW_OK(iv, 16) && inlen <= 64)
REQUIRES(inlen == 0 || (RD_OK(in, inlen) && WR_OK(out, inlen) && (out == in || SEPARATE(in, out)) && SEPARATE(iv, in) && SEPARATE(iv, out)))
REQUIRES(G_fe_calls == 0 && verif_gk < 16 && G_fe_j2 == verif_gk && G_fe_j3 < 16)
REQUIRES(G_fe_nseg <= 4 && G_fe_sel <= 4 && (G_fe_nseg == 0 ? inlen == 0 : ((G_fe_nseg - 1) * 16 < inlen && inlen <= G_fe_nseg * 16)))
ASSIGNS(OBJ_UPTO(iv, 16); inlen != 0: OBJ_UPTO(out, inlen); G_fe_calls, G_fe_A, G_fe_B, G_fe_out, G_fe_key)
ENSURES(G_fe_calls == G_fe_nseg && (G_fe_nseg > 0 IMPLIES G_fe_key == (size_t)key))
ENSURES(CFB_IN_SEG(G_fe_sel, 16, inlen, verif_gk) IMPLIES out[(size_t)G_fe_sel * 16 + verif_gk] == (uint8_t)(G_fe_out ^
	OLD(*(CFB_IN_SEG(G_fe_sel, 16, inlen, verif_gk) ? in + ((size_t)G_fe_sel * 16 + verif_gk) : &G_zero_byte))))
ENSURES((G_fe_sel == 0 && G_fe_nseg > 0) IMPLIES G_fe_A == OLD(iv[G_fe_j3 < 16 ? G_fe_j3 : 0]))
ENSURES(((size_t)G_fe_sel + 1 < G_fe_nseg) IMPLIES G_fe_B == G_fe_out)
ENSURES(((size_t)G_fe_sel + 1 == G_fe_nseg) IMPLIES iv[verif_gk] == G_fe_out)
ENSURES(G_fe_nseg == 0 IMPLIES iv[verif_gk] == OLD(iv[verif_gk < 16 ? verif_gk : 0]))
;
#endif
#define OFB_UPDATE_CONTRACT(fn) \
int fn(SM4_OFB_CTX *ctx, const uint8_t *in, size_t inlen, uint8_t *out, size_t *outlen) \
REQUIRES(OFB_CTX_OK(ctx) && inlen <= 65536 && RD_OK(in, inlen ? inlen : 1) && WR_OK(outlen, sizeof(size_t))) \
REQUIRES(out == NULL || (G_cfb_cap >= OFB_W(ctx->block_nbytes, inlen) && (G_cfb_cap == 0 || WR_OK(out, G_cfb_cap)))) \
ASSIGNS(*outlen; out != NULL: OBJ_UPTO((uint8_t *)ctx, sizeof(SM4_OFB_CTX)); out != NULL && G_cfb_cap != 0: OBJ_UPTO(out, G_cfb_cap)) \
ENSURES(RET == 1 || RET == -1) \
ENSURES((RET == 1 && out != NULL) IMPLIES (*outlen <= G_cfb_cap && OFB_CTX_OK(ctx) && *outlen + ctx->block_nbytes == OLD(ctx->block_nbytes) + inlen)) \
ENSURES((RET == 1 && out == NULL) IMPLIES *outlen >= OFB_W(ctx->block_nbytes, inlen))
OFB_UPDATE_CONTRACT(sm4_ofb_encrypt_update);
#define OFB_FINISH_CONTRACT(fn) \
int fn(SM4_OFB_CTX *ctx, uint8_t *out, size_t *outlen) \
REQUIRES(OFB_CTX_OK(ctx) && WR_OK(outlen, sizeof(size_t))) \
REQUIRES(out == NULL || (G_cfb_cap >= ctx->block_nbytes && (G_cfb_cap == 0 || WR_OK(out, G_cfb_cap)))) \
ASSIGNS(*outlen; out != NULL: OBJ_UPTO((uint8_t *)ctx, sizeof(SM4_OFB_CTX)); out != NULL && G_cfb_cap != 0: OBJ_UPTO(out, G_cfb_cap)) \
ENSURES(RET == 1 || RET == -1) \
ENSURES((RET == 1 && out != NULL) IMPLIES (*outlen <= G_cfb_cap && *outlen == OLD(ctx->block_nbytes))) \
ENSURES((RET == 1 && out == NULL) IMPLIES *outlen >= ctx->block_nbytes)
OFB_FINISH_CONTRACT(sm4_ofb_encrypt_finish);
#endif
