/* Contracts for the TLCP / TLS 1.2 application-data path of src/tls.c (C11): which keys and which sequence counter protect
 * a record in each direction, and that the counter advances exactly once per record, after the record was accepted /
 * produced, and not at all when a received record is refused.  The record-layer primitives are replaced by recording
 * contracts (their own contracts are enforced elsewhere: tls_cbc_decrypt, tls_seq_num_incr). */
#ifndef CONTRACTS_TLS_CONN_H
#define CONTRACTS_TLS_CONN_H
#include "verif.h"
#include "libc.h"
#include <gmssl/tls.h>
#include "tls_names.h"
#ifdef VERIF_CBMC
unsigned G_ev;                                                              /* global event order */
unsigned G_rr_calls; int G_rr_ret; size_t G_rr_rec; int G_rr_sock; unsigned G_rr_ev;            /* tls_record_recv */
unsigned G_rs_calls; int G_rs_ret; size_t G_rs_rec; size_t G_rs_len; int G_rs_sock; unsigned G_rs_ev;   /* tls_record_send */
unsigned G_rd_calls; int G_rd_ret; size_t G_rd_mac; size_t G_rd_key; size_t G_rd_seq; size_t G_rd_in; size_t G_rd_inlen; size_t G_rd_out; unsigned G_rd_ev;
unsigned G_re_calls; int G_re_ret; size_t G_re_mac; size_t G_re_key; size_t G_re_seq; size_t G_re_in; size_t G_re_inlen; size_t G_re_out; size_t G_re_outlen; unsigned G_re_ev;
unsigned G_si_calls; size_t G_si_seq; unsigned G_si_ev;                                                /* tls_seq_num_incr */
#define TC_GHOSTS G_ev, G_rr_calls, G_rr_ret, G_rr_rec, G_rr_sock, G_rr_ev, G_rs_calls, G_rs_ret, G_rs_rec, G_rs_len, G_rs_sock, G_rs_ev, \
	G_rd_calls, G_rd_ret, G_rd_mac, G_rd_key, G_rd_seq, G_rd_in, G_rd_inlen, G_rd_out, G_rd_ev, \
	G_re_calls, G_re_ret, G_re_mac, G_re_key, G_re_seq, G_re_in, G_re_inlen, G_re_out, G_re_outlen, G_re_ev, G_si_calls, G_si_seq, G_si_ev
#define TC_ZERO (G_ev == 0 && G_rr_calls == 0 && G_rs_calls == 0 && G_rd_calls == 0 && G_re_calls == 0 && G_si_calls == 0)
#endif

int tls_record_recv(uint8_t *record, size_t *recordlen, tls_socket_t sock)
REQUIRES(WR_OK(record, TLS_MAX_RECORD_SIZE) && WR_OK(recordlen, sizeof(size_t)))
ASSIGNS(OBJ_UPTO(record, TLS_MAX_RECORD_SIZE), *recordlen, G_ev, G_rr_calls, G_rr_ret, G_rr_rec, G_rr_sock, G_rr_ev)
ENSURES(G_rr_calls == OLD(G_rr_calls) + 1 && G_rr_ret == RET && G_rr_rec == (size_t)record && G_rr_sock == (int)sock && G_ev == OLD(G_ev) + 1 && G_rr_ev == G_ev)
ENSURES(RET == 1 IMPLIES (*recordlen >= 5 && *recordlen <= TLS_MAX_RECORD_SIZE))
;
int tls_record_send(const uint8_t *record, size_t recordlen, tls_socket_t sock)
REQUIRES(recordlen >= 5 && recordlen <= TLS_MAX_RECORD_SIZE && RD_OK(record, recordlen))
ASSIGNS(G_ev, G_rs_calls, G_rs_ret, G_rs_rec, G_rs_len, G_rs_sock, G_rs_ev)
ENSURES(G_rs_calls == OLD(G_rs_calls) + 1 && G_rs_ret == RET && G_rs_rec == (size_t)record && G_rs_len == recordlen && G_rs_sock == (int)sock && G_ev == OLD(G_ev) + 1 && G_rs_ev == G_ev)
;
int tls_record_decrypt(const SM3_HMAC_CTX *hmac_ctx, const SM4_KEY *cbc_key, const uint8_t seq_num[8], const uint8_t *in, size_t inlen, uint8_t *out, size_t *outlen)
REQUIRES(RD_OK(hmac_ctx, sizeof(*hmac_ctx)) && RD_OK(cbc_key, sizeof(*cbc_key)) && RD_OK(seq_num, 8) && inlen >= 5 && inlen <= TLS_MAX_RECORD_SIZE && RD_OK(in, inlen))
REQUIRES(WR_OK(out, TLS_MAX_RECORD_SIZE) && WR_OK(outlen, sizeof(size_t)))
ASSIGNS(OBJ_UPTO(out, TLS_MAX_RECORD_SIZE), *outlen, G_ev, G_rd_calls, G_rd_ret, G_rd_mac, G_rd_key, G_rd_seq, G_rd_in, G_rd_inlen, G_rd_out, G_rd_ev)
ENSURES(G_rd_calls == OLD(G_rd_calls) + 1 && G_rd_ret == RET && G_rd_mac == (size_t)hmac_ctx && G_rd_key == (size_t)cbc_key && G_rd_seq == (size_t)seq_num
	&& G_rd_in == (size_t)in && G_rd_inlen == inlen && G_rd_out == (size_t)out && G_ev == OLD(G_ev) + 1 && G_rd_ev == G_ev)
ENSURES(RET == 1 IMPLIES (*outlen >= 5 && *outlen <= inlen && *outlen == (size_t)5 + ((((size_t)out[3]) << 8) | out[4])))
;
int tls_record_encrypt(const SM3_HMAC_CTX *hmac_ctx, const SM4_KEY *cbc_key, const uint8_t seq_num[8], const uint8_t *in, size_t inlen, uint8_t *out, size_t *outlen)
REQUIRES(RD_OK(hmac_ctx, sizeof(*hmac_ctx)) && RD_OK(cbc_key, sizeof(*cbc_key)) && RD_OK(seq_num, 8) && inlen >= 5 && inlen <= 5 + TLS_MAX_PLAINTEXT_SIZE && RD_OK(in, inlen))
REQUIRES(WR_OK(out, TLS_MAX_RECORD_SIZE) && WR_OK(outlen, sizeof(size_t)))
ASSIGNS(OBJ_UPTO(out, TLS_MAX_RECORD_SIZE), *outlen, G_ev, G_re_calls, G_re_ret, G_re_mac, G_re_key, G_re_seq, G_re_in, G_re_inlen, G_re_out, G_re_outlen, G_re_ev)
ENSURES(G_re_calls == OLD(G_re_calls) + 1 && G_re_ret == RET && G_re_mac == (size_t)hmac_ctx && G_re_key == (size_t)cbc_key && G_re_seq == (size_t)seq_num
	&& G_re_in == (size_t)in && G_re_inlen == inlen && G_re_out == (size_t)out && G_ev == OLD(G_ev) + 1 && G_re_ev == G_ev)
ENSURES(RET == 1 IMPLIES (*outlen >= 5 && *outlen <= TLS_MAX_RECORD_SIZE && G_re_outlen == *outlen))
;
#ifdef CONTRACT_SEQ_INCR_RECORDING
int tls_seq_num_incr(uint8_t seq_num[8])
REQUIRES(RW_OK(seq_num, 8))
ASSIGNS(OBJ_UPTO(seq_num, 8), G_ev, G_si_calls, G_si_seq, G_si_ev)
ENSURES(G_si_calls == OLD(G_si_calls) + 1 && G_si_seq == (size_t)seq_num && G_ev == OLD(G_ev) + 1 && G_si_ev == G_ev)
;
#endif

/* receive: peer's write keys and the peer's counter; counter advanced once, after acceptance; never on refusal */
int tls_decrypt_recv(TLS_CONNECT *conn)
REQUIRES(RW_OK(conn, sizeof(TLS_CONNECT)) && TC_ZERO)
ASSIGNS(OBJ_UPTO((uint8_t *)conn, sizeof(TLS_CONNECT)), TC_GHOSTS)
ENSURES(G_rr_calls == 1 && G_rr_rec == (size_t)conn->record && G_rr_sock == (int)OLD(conn->sock))
ENSURES(G_rr_ret != 1 IMPLIES (RET == G_rr_ret && G_rd_calls == 0 && G_si_calls == 0))
ENSURES(RET == 1 IMPLIES (G_rr_ret == 1 && G_rd_calls == 1 && G_rd_ret == 1 && G_rd_in == (size_t)conn->record && G_rd_out == (size_t)conn->databuf
	&& G_rd_mac == (size_t)(OLD(conn->is_client) ? &conn->server_write_mac_ctx : &conn->client_write_mac_ctx)
	&& G_rd_key == (size_t)(OLD(conn->is_client) ? &conn->server_write_enc_key : &conn->client_write_enc_key)
	&& G_rd_seq == (size_t)(OLD(conn->is_client) ? conn->server_seq_num : conn->client_seq_num)))
ENSURES(RET == 1 IMPLIES (G_si_calls == 1 && G_si_seq == G_rd_seq && G_si_ev > G_rd_ev))
ENSURES((G_rr_ret == 1 && RET != 1) IMPLIES (RET == -1 && G_rd_calls == 1 && G_rd_ret != 1 && G_si_calls == 0))
/* the plaintext handed to the application is the payload of the decrypted record */
ENSURES(RET == 1 IMPLIES (conn->data == conn->databuf + 5 && conn->datalen == ((((size_t)conn->databuf[3]) << 8) | conn->databuf[4])))
;

static int tls_encrypt_send(TLS_CONNECT *conn, int record_type, const uint8_t *in, size_t inlen, size_t *sentlen)
REQUIRES(conn == NULL || RW_OK(conn, sizeof(TLS_CONNECT)))
REQUIRES(in == NULL || inlen == 0 || (inlen <= ((size_t)1 << 20) && RD_OK(in, inlen)))
REQUIRES(sentlen == NULL || WR_OK(sentlen, sizeof(size_t)))
REQUIRES(TC_ZERO && (conn == NULL || (SEPARATE(conn, in) && SEPARATE(conn, sentlen))))
ASSIGNS(conn != NULL: OBJ_UPTO((uint8_t *)conn, sizeof(TLS_CONNECT)); sentlen != NULL: *sentlen; TC_GHOSTS)
ENSURES(RET == 1 || RET == -1)
ENSURES(RET == 1 IMPLIES (conn != NULL && in != NULL && inlen != 0 && sentlen != NULL && OLD(conn->datalen) == 0))
ENSURES(RET == 1 IMPLIES (*sentlen == (inlen > TLS_MAX_PLAINTEXT_SIZE ? TLS_MAX_PLAINTEXT_SIZE : inlen)))
/* own write keys and own counter */
ENSURES(RET == 1 IMPLIES (G_re_calls == 1 && G_re_ret == 1 && G_re_in == (size_t)conn->databuf && G_re_inlen == 5 + *sentlen && G_re_out == (size_t)conn->record
	&& G_re_mac == (size_t)(conn->is_client ? &conn->client_write_mac_ctx : &conn->server_write_mac_ctx)
	&& G_re_key == (size_t)(conn->is_client ? &conn->client_write_enc_key : &conn->server_write_enc_key)
	&& G_re_seq == (size_t)(conn->is_client ? conn->client_seq_num : conn->server_seq_num)))
/* counter advanced once after protecting; exactly the protected record goes to the socket */
ENSURES(RET == 1 IMPLIES (G_si_calls == 1 && G_si_seq == G_re_seq && G_si_ev > G_re_ev
	&& G_rs_calls == 1 && G_rs_ret == 1 && G_rs_rec == (size_t)conn->record && G_rs_len == G_re_outlen && G_rs_sock == (int)conn->sock && G_rs_ev > G_re_ev))
/* the plaintext record built: type, protocol of the connection, payload */
ENSURES(RET == 1 IMPLIES (conn->databuf[0] == (uint8_t)record_type && conn->databuf[3] == (uint8_t)(*sentlen >> 8) && conn->databuf[4] == (uint8_t)*sentlen
	&& (verif_gk < *sentlen IMPLIES conn->databuf[5 + verif_gk] == in[verif_gk])))
;
#endif
