/* Contracts for the REAL src/sm3_hmac.c against RFC 2104 / GB/T 15852.2 (C03), over the SM3 transcript abstraction:
 *   K0 = key zero-padded to 64 bytes, or SM3(key) zero-padded when the key is longer than one block
 *   init:   the inner stream starts with K0 xor 0x36..36, and ctx->key holds that block
 *   update: appends to the inner stream
 *   finish: inner digest D1 = finish(inner stream); outer stream = (K0 xor 0x5c..5c) || D1; mac = finish(outer stream) */
#ifndef CONTRACTS_SM3_HMAC_REAL_H
#define CONTRACTS_SM3_HMAC_REAL_H
#define CONTRACT_SM3_FINISH_HISTORY
#include "sm3_transcript.h"
#include "libc.h"

void sm3_hmac_init(SM3_HMAC_CTX *ctx, const uint8_t *key, size_t key_len)
REQUIRES(WR_OK(ctx, sizeof(*ctx)) && (key_len == 0 || RD_OK(key, key_len)) && key_len <= ((size_t)1 << 32) && SEPARATE(ctx, key) && verif_gk < 64)
ASSIGNS(OBJ_UPTO((uint8_t *)ctx, sizeof(*ctx)), G_fin_fed, G_fin_tbyte, G_fin_tseen, G_fin_calls, G_finp_fed, G_finp_tbyte, G_finp_tseen, G_fin_dgst, G_finp_dgst)
/* a long key is hashed first: that stream is exactly the key */
ENSURES(key_len > 64 IMPLIES (G_fin_calls == OLD(G_fin_calls) + 1 && STREAM_IS(G_fin_fed, G_fin_tseen, G_fin_tbyte, key_len, key[G_tk])))
ENSURES(key_len <= 64 IMPLIES G_fin_calls == OLD(G_fin_calls))
/* ctx->key = K0 xor ipad */
ENSURES(key_len <= 64 IMPLIES ctx->key[verif_gk] == (uint8_t)((verif_gk < key_len ? key[verif_gk < key_len ? verif_gk : 0] : 0) ^ 0x36))
ENSURES((key_len > 64 && verif_gk >= 32) IMPLIES ctx->key[verif_gk] == 0x36)
ENSURES((key_len > 64 && verif_gk < 32 && verif_gk == (size_t)(G_FIN_DGST_IDX)) IMPLIES ctx->key[verif_gk] == (uint8_t)(G_fin_dgst ^ 0x36))
/* the inner stream so far is that block */
ENSURES(SM3_FED(&ctx->sm3_ctx) == 64 && (G_tk < 64 IMPLIES (SM3_TSEEN(&ctx->sm3_ctx) == 1 && (G_tk == verif_gk IMPLIES SM3_TBYTE(&ctx->sm3_ctx) == ctx->key[verif_gk]))))
;

void sm3_hmac_update(SM3_HMAC_CTX *ctx, const uint8_t *data, size_t data_len)
REQUIRES(RW_OK(ctx, sizeof(*ctx)) && (data_len == 0 || RD_OK(data, data_len)))
ASSIGNS(OBJ_UPTO((uint8_t *)&ctx->sm3_ctx, sizeof(SM3_CTX)))
ENSURES(SM3_FED(&ctx->sm3_ctx) == OLD(SM3_FED(&ctx->sm3_ctx)) + data_len)
ENSURES((OLD(SM3_FED(&ctx->sm3_ctx)) <= G_tk && G_tk - OLD(SM3_FED(&ctx->sm3_ctx)) < data_len)
	? (SM3_TSEEN(&ctx->sm3_ctx) == 1 && SM3_TBYTE(&ctx->sm3_ctx) == data[G_tk - OLD(SM3_FED(&ctx->sm3_ctx))])
	: (SM3_TSEEN(&ctx->sm3_ctx) == OLD(SM3_TSEEN(&ctx->sm3_ctx)) && SM3_TBYTE(&ctx->sm3_ctx) == OLD(SM3_TBYTE(&ctx->sm3_ctx))))
;

void sm3_hmac_finish(SM3_HMAC_CTX *ctx, uint8_t mac[32])
REQUIRES(RW_OK(ctx, sizeof(*ctx)) && WR_OK(mac, 32) && SEPARATE(ctx, mac) && verif_gk < 64)
ASSIGNS(OBJ_UPTO((uint8_t *)ctx, sizeof(*ctx)), OBJ_UPTO(mac, 32), G_fin_fed, G_fin_tbyte, G_fin_tseen, G_fin_calls, G_finp_fed, G_finp_tbyte, G_finp_tseen, G_fin_dgst, G_finp_dgst)
ENSURES(G_fin_calls == OLD(G_fin_calls) + 2)
/* first the inner stream, untouched, is finished ... */
ENSURES(G_finp_fed == OLD(SM3_FED(&ctx->sm3_ctx)) && G_finp_tseen == OLD(SM3_TSEEN(&ctx->sm3_ctx)) && G_finp_tbyte == OLD(SM3_TBYTE(&ctx->sm3_ctx)))
/* ... then (K0 xor opad) || inner digest */
ENSURES(G_fin_fed == 96)
ENSURES((G_tk < 64 && G_tk == verif_gk) IMPLIES (G_fin_tseen == 1 && G_fin_tbyte == (uint8_t)(OLD(ctx->key[verif_gk < 64 ? verif_gk : 0]) ^ 0x36 ^ 0x5c)))
ENSURES((G_tk >= 64 && G_tk < 96 && G_tk - 64 == (size_t)(G_FIN_DGST_IDX)) IMPLIES (G_fin_tseen == 1 && G_fin_tbyte == G_finp_dgst))
/* and the mac is the outer digest */
ENSURES((size_t)(G_FIN_DGST_IDX) < 32 IMPLIES mac[(size_t)(G_FIN_DGST_IDX) < 32 ? (size_t)(G_FIN_DGST_IDX) : 0] == G_fin_dgst)
;
#endif
