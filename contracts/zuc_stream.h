/* Contracts for the buffered streaming layer of ZUC (src/zuc_modes.c: zuc_encrypt_update / zuc_encrypt_finish) —
 * C04 "any chunking yields the same bytes", per call (block = one 32-bit key-stream word = 4 bytes):
 *   S = (bytes buffered before the call) || (input of the call)
 *   zuc_encrypt is given exactly the first 4*floor(|S|/4) bytes of S, in order, every call with a length that is a multiple
 *   of 4 (zuc_encrypt spends a whole key-stream word on a trailing partial word, so a partial word anywhere but at the very
 *   end would shift the key stream), writing to consecutive output positions starting at `out`, on &ctx->zuc_state;
 *   the remaining |S| mod 4 bytes are the new buffer; *outlen is that multiple of 4 (<= 4*ceil(inlen/4));
 *   finish passes exactly the buffered bytes (< 4) to zuc_encrypt, once, writing to `out`.
 * zuc_encrypt itself is replaced by a recording contract (stream observed at ghost position G_sk); its bounds and LFSR step
 * are the subject of job zuc_encrypt (contracts/zuc_core.h).  These functions have no NULL tests and no size query in the
 * source; the contract therefore requires valid pointers. */
#include "verif.h"
#include "libc.h"
#include <gmssl/zuc.h>
#ifdef VERIF_CBMC
size_t G_sk;
size_t G_zf_fed; uint8_t G_zf_byte; unsigned G_zf_calls; size_t G_zf_state; size_t G_zf_out0; size_t G_zf_out_next; int G_zf_chain_ok; int G_zf_mult4; size_t G_zf_lastlen;
uint8_t G_blk0[4];    /* harness snapshot of ctx->block before the call */
#define ZS_GHOSTS G_zf_fed, G_zf_byte, G_zf_calls, G_zf_state, G_zf_out0, G_zf_out_next, G_zf_chain_ok, G_zf_mult4, G_zf_lastlen
#define ZS_DISJ_STATE(st, p, n) (!__CPROVER_same_object((st), (p)) || __CPROVER_POINTER_OFFSET(p) >= __CPROVER_POINTER_OFFSET(st) + sizeof(ZUC_STATE) \
	|| __CPROVER_POINTER_OFFSET(p) + (n) <= __CPROVER_POINTER_OFFSET(st))
#define ZS_ZERO (G_zf_fed == 0 && G_zf_calls == 0 && G_zf_chain_ok == 1 && G_zf_mult4 == 1)
#define ZS_SNAP(c) (G_blk0[0] == (c)->block[0] && G_blk0[1] == (c)->block[1] && G_blk0[2] == (c)->block[2] && G_blk0[3] == (c)->block[3])
#define ZS_B0(c)     OLD((c)->block_nbytes)
#define ZS_TOTAL(c)  (OLD((c)->block_nbytes) + inlen)
#define ZS_EMIT(c)   ((ZS_TOTAL(c) / 4) * 4)
/* S[j] with the input part read in the PRE-state */
#define ZS_S_SK(c)   (G_sk < ZS_B0(c) ? G_blk0[G_sk < 4 ? G_sk : 0] : OLD(*((G_sk >= (c)->block_nbytes && G_sk - (c)->block_nbytes < inlen) ? (in + (G_sk - (c)->block_nbytes)) : &G_zero_byte)))
#define ZS_TAILIDX(c) ((((c)->block_nbytes + inlen) / 4) * 4 + verif_gk)
#define ZS_S_TAIL(c) (ZS_EMIT(c) + verif_gk < ZS_B0(c) ? G_blk0[(ZS_EMIT(c) + verif_gk) < 4 ? (ZS_EMIT(c) + verif_gk) : 0] : OLD(*((ZS_TAILIDX(c) >= (c)->block_nbytes && ZS_TAILIDX(c) - (c)->block_nbytes < inlen) ? (in + (ZS_TAILIDX(c) - (c)->block_nbytes)) : &G_zero_byte)))
#endif

void zuc_encrypt(ZUC_STATE *state, const uint8_t *in, size_t inlen, uint8_t *out)
REQUIRES(RW_OK(state, sizeof(ZUC_STATE)) && inlen <= ((size_t)1 << 41))
/* the call sites pass ctx->block next to ctx->zuc_state inside one ZUC_CTX: ranges disjoint, not objects */
REQUIRES(inlen == 0 || (RD_OK(in, inlen) && WR_OK(out, inlen) && ZS_DISJ_STATE(state, in, inlen) && SEPARATE(state, out)))
/* word-wise in place is fine; any other overlap is not */
REQUIRES(inlen == 0 || in == out || !__CPROVER_same_object(in, out) || __CPROVER_POINTER_OFFSET(in) + inlen <= __CPROVER_POINTER_OFFSET(out)
	|| __CPROVER_POINTER_OFFSET(out) + inlen <= __CPROVER_POINTER_OFFSET(in))
ASSIGNS(OBJ_UPTO((uint8_t *)state, sizeof(ZUC_STATE)); 
#ifdef ZS_EXACT_FRAME
	inlen != 0: OBJ_UPTO(out, inlen);
#else
	inlen == 4: OBJ_UPTO(out, 4); inlen != 0 && inlen != 4: OBJ_WHOLE(out);
#endif
	ZS_GHOSTS)
ENSURES(G_zf_fed == OLD(G_zf_fed) + inlen && G_zf_calls == OLD(G_zf_calls) + 1 && G_zf_state == (size_t)state && G_zf_lastlen == inlen)
ENSURES(G_zf_mult4 == ((OLD(G_zf_mult4) == 1 && inlen % 4 == 0) ? 1 : 0))
ENSURES((G_sk >= OLD(G_zf_fed) && G_sk - OLD(G_zf_fed) < inlen)
	? G_zf_byte == OLD(*((G_sk >= G_zf_fed && G_sk - G_zf_fed < inlen) ? (in + (G_sk - G_zf_fed)) : &G_zero_byte)) : G_zf_byte == OLD(G_zf_byte))
ENSURES(G_zf_out0 == (OLD(G_zf_calls) == 0 ? (size_t)out : OLD(G_zf_out0)))
ENSURES(G_zf_chain_ok == ((OLD(G_zf_calls) == 0 || (OLD(G_zf_chain_ok) == 1 && (size_t)out == OLD(G_zf_out_next))) ? 1 : 0))
ENSURES(G_zf_out_next == (size_t)out + inlen)
;

int zuc_encrypt_update(ZUC_CTX *ctx, const uint8_t *in, size_t inlen, uint8_t *out, size_t *outlen)
REQUIRES(RW_OK(ctx, sizeof(ZUC_CTX)) && WR_OK(outlen, sizeof(size_t)))
REQUIRES(inlen == 0 || RD_OK(in, inlen))
REQUIRES(inlen <= ((size_t)1 << 40) && G_sk < ((size_t)1 << 41) && verif_gk < 4)
/* capacity: the input rounded up to whole words */
REQUIRES(inlen == 0 || WR_OK(out, 4 * ((inlen + 3) / 4)))
/* in place only when nothing is buffered; otherwise disjoint */
REQUIRES(inlen == 0 || SEPARATE(in, out) || (in == out && ctx->block_nbytes == 0))
REQUIRES(SEPARATE(ctx, in) && SEPARATE(ctx, out) && SEPARATE(ctx, outlen) && SEPARATE(outlen, out) && SEPARATE(outlen, in))
REQUIRES(ZS_ZERO && ZS_SNAP(ctx))
ASSIGNS(OBJ_UPTO((uint8_t *)ctx, sizeof(ZUC_CTX)); OBJ_UPTO((uint8_t *)outlen, sizeof(size_t)); inlen != 0: OBJ_WHOLE(out); ZS_GHOSTS)
ENSURES(RET == 1 || RET == -1)
ENSURES(RET == 1 ? OLD(ctx->block_nbytes) < 4 : OLD(ctx->block_nbytes) >= 4)
/* a refused call touches nothing */
ENSURES(RET == -1 IMPLIES (G_zf_calls == 0 && ctx->block_nbytes == OLD(ctx->block_nbytes)))
ENSURES(RET == 1 IMPLIES (*outlen == ZS_EMIT(ctx) && *outlen <= 4 * ((inlen + 3) / 4) && ctx->block_nbytes == ZS_TOTAL(ctx) - ZS_EMIT(ctx)
	&& G_zf_fed == ZS_EMIT(ctx) && G_zf_mult4 == 1
	&& (G_zf_calls == 0 || (G_zf_out0 == (size_t)out && G_zf_chain_ok == 1 && G_zf_state == (size_t)&ctx->zuc_state))))
/* zuc_encrypt saw S[0 .. emit) and the buffer holds S[emit ..) */
ENSURES((RET == 1 && G_sk < ZS_EMIT(ctx)) IMPLIES G_zf_byte == ZS_S_SK(ctx))
ENSURES((RET == 1 && verif_gk < ctx->block_nbytes) IMPLIES ctx->block[verif_gk] == ZS_S_TAIL(ctx))
;

int zuc_encrypt_finish(ZUC_CTX *ctx, uint8_t *out, size_t *outlen)
REQUIRES(RW_OK(ctx, sizeof(ZUC_CTX)) && WR_OK(outlen, sizeof(size_t)) && WR_OK(out, 4))
REQUIRES(SEPARATE(ctx, out) && SEPARATE(ctx, outlen) && SEPARATE(outlen, out) && ZS_ZERO && ZS_SNAP(ctx) && verif_gk < 4 && G_sk < 4)
ASSIGNS(OBJ_UPTO((uint8_t *)ctx, sizeof(ZUC_CTX)); OBJ_UPTO((uint8_t *)outlen, sizeof(size_t)); OBJ_WHOLE(out); ZS_GHOSTS)
ENSURES(RET == 1 || RET == -1)
ENSURES(RET == 1 ? OLD(ctx->block_nbytes) < 4 : OLD(ctx->block_nbytes) >= 4)
ENSURES(RET == -1 IMPLIES G_zf_calls == 0)
ENSURES(RET == 1 IMPLIES (*outlen == OLD(ctx->block_nbytes) && G_zf_calls == 1 && G_zf_fed == OLD(ctx->block_nbytes) && G_zf_lastlen == OLD(ctx->block_nbytes)
	&& G_zf_state == (size_t)&ctx->zuc_state && G_zf_out0 == (size_t)out))
ENSURES((RET == 1 && G_sk < OLD(ctx->block_nbytes)) IMPLIES G_zf_byte == G_blk0[G_sk < 4 ? G_sk : 0])
;
