/* Contracts for the TLS 1.3 key_share processors of src/tls_ext.c (C12 "every imported peer point is validated", C06):
 * RET == 1 only if sm2_z256_point_from_octets returned exactly 1 on a 65-byte slice of the extension, into the caller's point. */
#ifndef CONTRACTS_TLS13_KEYSHARE_H
#define CONTRACTS_TLS13_KEYSHARE_H
#include "tls_wire.h"
#include <gmssl/sm2.h>
#ifdef VERIF_CBMC
unsigned G_fo_calls; int G_fo_last; size_t G_fo_P; size_t G_fo_in; size_t G_fo_inlen;
unsigned G_sk_calls; int G_sk_last; size_t G_sk_pt;
int __CPROVER_uninterpreted_curve_known(int);
#endif
int sm2_z256_point_from_octets(SM2_Z256_POINT *P, const uint8_t *in, size_t inlen)
REQUIRES(WR_OK(P, sizeof(*P)) && inlen >= 1 && RD_OK(in, inlen))
ASSIGNS(OBJ_UPTO((uint8_t *)P, sizeof(*P)), G_fo_calls, G_fo_last, G_fo_P, G_fo_in, G_fo_inlen)
ENSURES((RET == 1 || RET == 0 || RET == -1) && G_fo_calls == OLD(G_fo_calls) + 1 && G_fo_last == RET && G_fo_P == (size_t)P && G_fo_in == (size_t)in && G_fo_inlen == inlen)
;
const char *tls_curve_name(int curve)
ASSIGNS()
ENSURES((RET != NULL) == (__CPROVER_uninterpreted_curve_known(curve) != 0))
;
int tls13_server_key_share_ext_to_bytes(const SM2_Z256_POINT *point, uint8_t **out, size_t *outlen)
REQUIRES(RD_OK(point, sizeof(*point)) && WR_OK(outlen, sizeof(size_t)) && (out == NULL || (WR_OK(out, sizeof(*out)) && (*out == NULL || WR_OK(*out, 73)))))
ASSIGNS(*outlen, G_sk_calls, G_sk_last, G_sk_pt; out != NULL && *out != NULL: OBJ_WHOLE(*out), *out)
ENSURES((RET == 1 || RET == -1) && G_sk_calls == OLD(G_sk_calls) + 1 && G_sk_last == RET && G_sk_pt == (size_t)point)
ENSURES(RET == 1 IMPLIES *outlen == OLD(*outlen) + 73)
ENSURES((RET == 1 && out != NULL && OLD(*out) != NULL) IMPLIES (PTR_IN(OLD(*out), *out, OLD(*out) + 73) && *out == OLD(*out) + 73))
ENSURES(RET != 1 IMPLIES (*outlen == OLD(*outlen) && (out == NULL || *out == OLD(*out))))
;
int tls13_process_server_key_share(const uint8_t *ext_data, size_t ext_datalen, SM2_Z256_POINT *point)
REQUIRES(ext_datalen <= 65535 && (ext_datalen == 0 || RD_OK(ext_data, ext_datalen)) && (point == NULL || WR_OK(point, sizeof(*point))))
ASSIGNS(point != NULL: OBJ_UPTO((uint8_t *)point, sizeof(*point)); G_fo_calls, G_fo_last, G_fo_P, G_fo_in, G_fo_inlen)
ENSURES(RET == 1 || RET == -1)
ENSURES(RET == 1 IMPLIES (G_fo_calls == OLD(G_fo_calls) + 1 && G_fo_last == 1 && G_fo_P == (size_t)point && G_fo_inlen == 65 && ext_datalen == 69 && G_fo_in == (size_t)(ext_data + 4)))
;
int tls13_process_client_key_share(const uint8_t *ext_data, size_t ext_datalen, const SM2_KEY *server_ecdhe_key, SM2_Z256_POINT *client_ecdhe_public,
	uint8_t **out, size_t *outlen)
REQUIRES(ext_datalen <= 65535 && (ext_datalen == 0 || RD_OK(ext_data, ext_datalen)) && (server_ecdhe_key == NULL || RD_OK(server_ecdhe_key, sizeof(SM2_KEY))))
REQUIRES((client_ecdhe_public == NULL || WR_OK(client_ecdhe_public, sizeof(SM2_Z256_POINT))) && (outlen == NULL || WR_OK(outlen, sizeof(size_t))))
REQUIRES(out == NULL || (WR_OK(out, sizeof(*out)) && (*out == NULL || WR_OK(*out, 73))))
ASSIGNS(client_ecdhe_public != NULL: OBJ_UPTO((uint8_t *)client_ecdhe_public, sizeof(SM2_Z256_POINT)); outlen != NULL: *outlen; out != NULL && *out != NULL: OBJ_WHOLE(*out), *out;
	G_fo_calls, G_fo_last, G_fo_P, G_fo_in, G_fo_inlen, G_sk_calls, G_sk_last, G_sk_pt)
ENSURES(RET == 1 || RET == -1)
/* the first SM2 share is imported (validated) into the caller's point and answered with the server's own public point */
ENSURES(RET == 1 IMPLIES (G_fo_calls == OLD(G_fo_calls) + 1 && G_fo_last == 1 && G_fo_P == (size_t)client_ecdhe_public && G_fo_inlen == 65
	&& G_sk_calls == OLD(G_sk_calls) + 1 && G_sk_last == 1 && G_sk_pt == (size_t)&server_ecdhe_key->public_key))
/* on success the 73-byte response was appended when a buffer was given */
ENSURES(RET == 1 IMPLIES *outlen == OLD(*outlen) + 73)
ENSURES((RET == 1 && out != NULL && OLD(*out) != NULL) IMPLIES (PTR_IN(OLD(*out), *out, OLD(*out) + 73) && *out == OLD(*out) + 73))
ENSURES((RET != 1 && out != NULL) IMPLIES *out == OLD(*out))
;
#endif

#ifdef CONTRACT_TLS13_HELLO_EXTS
/* TLS 1.3 server: ClientHello extensions → ServerHello extensions in a buffer of server_exts_maxlen bytes */
int tls13_process_client_supported_versions(const uint8_t *ext_data, size_t ext_datalen, uint8_t **out, size_t *outlen)
REQUIRES((ext_datalen == 0 || RD_OK(ext_data, ext_datalen)) && WR_OK(outlen, sizeof(size_t)))
REQUIRES(out == NULL || (WR_OK(out, sizeof(*out)) && (*out == NULL || WR_OK(*out, 6))))
ASSIGNS(*outlen; out != NULL && *out != NULL: OBJ_WHOLE(*out), *out)
ENSURES(RET == 1 || RET == -1)
ENSURES(RET == 1 IMPLIES *outlen == OLD(*outlen) + 6)
ENSURES((RET == 1 && out != NULL && OLD(*out) != NULL) IMPLIES (PTR_IN(OLD(*out), *out, OLD(*out) + 6) && *out == OLD(*out) + 6))
ENSURES(RET != 1 IMPLIES (*outlen == OLD(*outlen) && (out == NULL || *out == OLD(*out))))
;
#undef CONTRACT_TLS13_HELLO_EXTS
#define CONTRACT_TLS13_HELLO_EXTS 2
int tls13_process_client_hello_exts(const uint8_t *exts, size_t extslen, const SM2_KEY *server_ecdhe_key, SM2_Z256_POINT *client_ecdhe_public,
	uint8_t *server_exts, size_t *server_exts_len, size_t server_exts_maxlen)
REQUIRES(extslen <= 65535 && (extslen == 0 || RD_OK(exts, extslen)) && RD_OK(server_ecdhe_key, sizeof(SM2_KEY)) && WR_OK(client_ecdhe_public, sizeof(SM2_Z256_POINT)))
REQUIRES(WR_OK(server_exts_len, sizeof(size_t)) && server_exts_maxlen <= 4096 && (server_exts_maxlen == 0 || WR_OK(server_exts, server_exts_maxlen)))
REQUIRES(SEPARATE(server_exts, exts) && SEPARATE(server_exts_len, server_exts) && SEPARATE(server_exts_len, exts) && SEPARATE(client_ecdhe_public, server_exts))
ASSIGNS(OBJ_UPTO((uint8_t *)client_ecdhe_public, sizeof(SM2_Z256_POINT)), *server_exts_len; server_exts_maxlen != 0: OBJ_WHOLE(server_exts);
	G_fo_calls, G_fo_last, G_fo_P, G_fo_in, G_fo_inlen, G_sk_calls, G_sk_last, G_sk_pt)
ENSURES(RET == 1 || RET == -1)
ENSURES(RET == 1 IMPLIES *server_exts_len <= server_exts_maxlen)
;
#endif
