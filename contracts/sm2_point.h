/* Contracts for the point import/export functions of src/sm2_z256.c (C12) and their field-level callees
 * as uninterpreted functions (P-UF): field multiplication is NOT decided by any installed back end, so
 *   to_mont / from_mont / is_on_curve / sqrt are terms over UFs here; what is proved is the control
 * structure around them: range checks, which result is tested, special cases, what is written where. */
#ifndef CONTRACTS_SM2_POINT_H
#define CONTRACTS_SM2_POINT_H
#include "sm2_z256.h"

#ifdef VERIF_CBMC
bv256 __CPROVER_uninterpreted_tomont(bv256);
bv256 __CPROVER_uninterpreted_frommont(bv256);
/* value of the real curve-membership test as a function of the three coordinates */
int __CPROVER_uninterpreted_oncurve(bv256, bv256, bv256);
int __CPROVER_uninterpreted_isinf(bv256, bv256, bv256);
/* square root in GF(p), Montgomery domain: has_root(a), root(a) */
int __CPROVER_uninterpreted_hasroot(bv256);
bv256 __CPROVER_uninterpreted_root(bv256);
bv256 __CPROVER_uninterpreted_montmul(bv256, bv256);
#define V256(a)      ((bv256)VAL4(a))
#define TOMONT(x)    __CPROVER_uninterpreted_tomont(x)
#define FROMMONT(x)  __CPROVER_uninterpreted_frommont(x)
#define ONCURVE(P)   (__CPROVER_uninterpreted_oncurve(V256((P)->X), V256((P)->Y), V256((P)->Z)) != 0)
#define ISINF(P)     (__CPROVER_uninterpreted_isinf(V256((P)->X), V256((P)->Y), V256((P)->Z)) != 0)
/* mont(1) = 2^256 - p, written from the definition */
#define BV_MONT_ONE  ((bv256)(BV_2_256 - BV_P))
#define BEVAL32(p)   ((bv256)MK4(BE64(p), BE64((p) + 8), BE64((p) + 16), BE64((p) + 24)))
/* what C12 calls a validated point: affine representative (Z = mont(1)) that passed the curve test */
#define POINT_VALID(P) (V256((P)->Z) == BV_MONT_ONE && ONCURVE(P))
/* src/sm2_z256.c keeps mont(1) behind two NON-const pointer globals; DFCC treats writable statics as arbitrary at
   function entry, so every harness states that they still hold their initialisers (C20's scan shows nothing writes them) */
//@assume the writable globals SM2_Z256_MODP_MONT_ONE / SM2_Z256_MODN_MONT_ONE still point to SM2_Z256_NEG_P / SM2_Z256_NEG_N (their initialisers)
#define SM2_STATICS_INIT ASSUME(SM2_Z256_MODP_MONT_ONE == SM2_Z256_NEG_P && SM2_Z256_MODN_MONT_ONE == SM2_Z256_NEG_N)
#else
#define SM2_STATICS_INIT
#endif

void sm2_z256_modp_to_mont(const sm2_z256_t a, uint64_t r[4])
REQUIRES(RD_OK(a, 32) && WR_OK(r, 32))
ASSIGNS(OBJ_UPTO(r, 32))
ENSURES(V256(r) == TOMONT(MK4(OLD(a[3]), OLD(a[2]), OLD(a[1]), OLD(a[0]))))
;

void sm2_z256_modp_from_mont(sm2_z256_t r, const sm2_z256_t a)
REQUIRES(RD_OK(a, 32) && WR_OK(r, 32))
ASSIGNS(OBJ_UPTO(r, 32))
ENSURES(V256(r) == FROMMONT(MK4(OLD(a[3]), OLD(a[2]), OLD(a[1]), OLD(a[0]))))
/* the canonical representative */
ENSURES(VAL4(r) < BV_P)
;

void sm2_z256_modp_mont_mul(sm2_z256_t r, const sm2_z256_t a, const sm2_z256_t b)
REQUIRES(RD_OK(a, 32) && RD_OK(b, 32) && WR_OK(r, 32))
ASSIGNS(OBJ_UPTO(r, 32))
ENSURES(V256(r) == __CPROVER_uninterpreted_montmul(MK4(OLD(a[3]), OLD(a[2]), OLD(a[1]), OLD(a[0])), MK4(OLD(b[3]), OLD(b[2]), OLD(b[1]), OLD(b[0]))))
ENSURES(VAL4(r) < BV_P)
;

void sm2_z256_modp_mont_sqr(sm2_z256_t r, const sm2_z256_t a)
REQUIRES(RD_OK(a, 32) && WR_OK(r, 32))
ASSIGNS(OBJ_UPTO(r, 32))
ENSURES(V256(r) == __CPROVER_uninterpreted_montmul(MK4(OLD(a[3]), OLD(a[2]), OLD(a[1]), OLD(a[0])), MK4(OLD(a[3]), OLD(a[2]), OLD(a[1]), OLD(a[0]))))
ENSURES(VAL4(r) < BV_P)
;

int sm2_z256_modp_mont_sqrt(sm2_z256_t r, const sm2_z256_t a)
REQUIRES(RD_OK(a, 32) && WR_OK(r, 32))
ASSIGNS(OBJ_UPTO(r, 32))
ENSURES(RET == 1 || RET == 0)
ENSURES((RET == 1) == (__CPROVER_uninterpreted_hasroot(MK4(OLD(a[3]), OLD(a[2]), OLD(a[1]), OLD(a[0]))) != 0))
ENSURES(RET == 1 IMPLIES V256(r) == __CPROVER_uninterpreted_root(MK4(OLD(a[3]), OLD(a[2]), OLD(a[1]), OLD(a[0]))) && VAL4(r) < BV_P)
;

int sm2_z256_point_is_on_curve(const SM2_Z256_POINT *P)
REQUIRES(RD_OK(P, sizeof(*P)))
ASSIGNS()
ENSURES(RET == (ONCURVE(P) ? 1 : 0))
;

#ifdef VERIF_CBMC
int G_isinf_last; unsigned G_isinf_calls;
#endif
#ifdef CONTRACT_IS_AT_INFINITY_RECORDING
int sm2_z256_point_is_at_infinity(const SM2_Z256_POINT *P)
REQUIRES(RD_OK(P, sizeof(*P)))
ASSIGNS(G_isinf_last, G_isinf_calls)
ENSURES(RET == (ISINF(P) ? 1 : 0))
ENSURES(VAL4(P->Z) != 0 IMPLIES RET == 0)
ENSURES(G_isinf_last == RET && G_isinf_calls == OLD(G_isinf_calls) + 1)
;
#else
int sm2_z256_point_is_at_infinity(const SM2_Z256_POINT *P)
REQUIRES(RD_OK(P, sizeof(*P)))
ASSIGNS()
ENSURES(RET == (ISINF(P) ? 1 : 0))
/* a point with Z != 0 is never reported as infinity */
ENSURES(VAL4(P->Z) != 0 IMPLIES RET == 0)
;
#endif

void sm2_z256_point_set_infinity(SM2_Z256_POINT *P)
REQUIRES(WR_OK(P, sizeof(*P)))
ASSIGNS(OBJ_UPTO((uint8_t *)P, sizeof(*P)))
ENSURES(VAL4(P->Z) == 0)
;

/* raw x||y import: coordinates below p, curve test executed on exactly (mont x, mont y, mont 1) and passed;
   the encoding of "infinity" (0,0) is never reported as a usable point (RET 0, not 1) */
int sm2_z256_point_from_bytes(SM2_Z256_POINT *P, const uint8_t in[64])
REQUIRES(WR_OK(P, sizeof(*P)) && RD_OK(in, 64) && SEPARATE(P, in))
ASSIGNS(OBJ_UPTO((uint8_t *)P, sizeof(*P)))
ENSURES(RET == 1 || RET == 0 || RET == -1)
ENSURES(RET == 1 IMPLIES BEVAL32(in) < (bv256)BV_P && BEVAL32(in + 32) < (bv256)BV_P)
ENSURES(RET == 1 IMPLIES !(BEVAL32(in) == 0 && BEVAL32(in + 32) == 0))
ENSURES(RET == 1 IMPLIES V256(P->X) == TOMONT(BEVAL32(in)) && V256(P->Y) == TOMONT(BEVAL32(in + 32)) && POINT_VALID(P))
ENSURES(RET == 0 IMPLIES BEVAL32(in) == 0 && BEVAL32(in + 32) == 0 && VAL4(P->Z) == 0)
;

int sm2_z256_point_set_xy(SM2_Z256_POINT *R, const sm2_z256_t x, const sm2_z256_t y)
REQUIRES(WR_OK(R, sizeof(*R)) && RD_OK(x, 32) && RD_OK(y, 32) && SEPARATE(R, x) && SEPARATE(R, y))
ASSIGNS(OBJ_UPTO((uint8_t *)R, sizeof(*R)))
ENSURES(RET == 1 || RET == -1)
ENSURES(RET == 1 IMPLIES VAL4(x) < BV_P && VAL4(y) < BV_P && V256(R->X) == TOMONT(V256(x)) && V256(R->Y) == TOMONT(V256(y)) && POINT_VALID(R))
;

/* compressed import: x below p; RET 1 only if the curve equation has a root for x; the root chosen has the requested parity */
int sm2_z256_point_from_x_bytes(SM2_Z256_POINT *P, const uint8_t x_bytes[32], int y_is_odd)
REQUIRES(WR_OK(P, sizeof(*P)) && RD_OK(x_bytes, 32) && SEPARATE(P, x_bytes))
ASSIGNS(OBJ_UPTO((uint8_t *)P, sizeof(*P)))
ENSURES(RET == 1 || RET == 0 || RET == -1)
ENSURES(RET == 1 IMPLIES BEVAL32(x_bytes) < (bv256)BV_P && V256(P->X) == TOMONT(BEVAL32(x_bytes)) && V256(P->Z) == BV_MONT_ONE)
ENSURES(RET == 1 IMPLIES VAL4(P->Y) < BV_P)
;

#ifndef CONTRACT_FROM_OCTETS_RECORDING
/* SEC1 octets.  C12: success means a validated finite point — except the explicit one-byte encoding 00 of the
   point at infinity, which this generic decoder may return and which every key / key-share importer must refuse. */
int sm2_z256_point_from_octets(SM2_Z256_POINT *P, const uint8_t *in, size_t inlen)
REQUIRES(WR_OK(P, sizeof(*P)) && inlen >= 1 && inlen <= 1024 && RD_OK(in, inlen) && SEPARATE(P, in))
ASSIGNS(OBJ_UPTO((uint8_t *)P, sizeof(*P)))
ENSURES(RET == 1 || RET == -1)
ENSURES(RET == 1 IMPLIES ((in[0] == 0x00 && inlen == 1 && VAL4(P->Z) == 0)
	|| ((in[0] == 0x02 || in[0] == 0x03) && inlen == 33 && V256(P->Z) == BV_MONT_ONE && V256(P->X) == TOMONT(BEVAL32(in + 1)))
	|| (in[0] == 0x04 && inlen == 65 && POINT_VALID(P) && V256(P->X) == TOMONT(BEVAL32(in + 1)) && V256(P->Y) == TOMONT(BEVAL32(in + 33)))))
;

#endif

#ifndef CONTRACT_GET_XY_UF
int sm2_z256_point_get_xy(const SM2_Z256_POINT *P, uint64_t x[4], uint64_t y[4])
REQUIRES(RD_OK(P, sizeof(*P)) && WR_OK(x, 32) && (y == NULL || WR_OK(y, 32)))
ASSIGNS(OBJ_UPTO(x, 32); y != NULL: OBJ_UPTO(y, 32))
ENSURES(RET == 1 || RET == 0)
ENSURES((RET == 0) == ISINF(P))
/* affine representative: x = from_mont(X), y = from_mont(Y) */
ENSURES((RET == 1 && V256(P->Z) == BV_MONT_ONE) IMPLIES V256(x) == FROMMONT(V256(P->X)) && (y == NULL || V256(y) == FROMMONT(V256(P->Y))))
;

#endif

/* C12: compress then decompress returns the same point => the 32 bytes after the prefix are x, the prefix is 02|parity(y) */
int sm2_z256_point_to_compressed_octets(const SM2_Z256_POINT *P, uint8_t out[33])
REQUIRES(RD_OK(P, sizeof(*P)) && WR_OK(out, 33) && SEPARATE(P, out))
ASSIGNS(OBJ_UPTO(out, 33))
ENSURES(RET == 1 || RET == -1)
ENSURES((RET == 1) == !ISINF(P))
ENSURES((RET == 1 && V256(P->Z) == BV_MONT_ONE) IMPLIES BEVAL32(out + 1) == FROMMONT(V256(P->X))
	&& out[0] == (uint8_t)(0x02 | (FROMMONT(V256(P->Y)) & 1)))
;

int sm2_z256_point_to_bytes(const SM2_Z256_POINT *P, uint8_t out[64])
REQUIRES(RD_OK(P, sizeof(*P)) && WR_OK(out, 64) && SEPARATE(P, out))
ASSIGNS(OBJ_UPTO(out, 64))
ENSURES(RET == (ISINF(P) ? 0 : 1))
ENSURES((!ISINF(P) && V256(P->Z) == BV_MONT_ONE) IMPLIES BEVAL32(out) == FROMMONT(V256(P->X)) && BEVAL32(out + 32) == FROMMONT(V256(P->Y)))
;

int sm2_z256_point_to_uncompressed_octets(const SM2_Z256_POINT *P, uint8_t out[65])
REQUIRES(RD_OK(P, sizeof(*P)) && WR_OK(out, 65) && SEPARATE(P, out))
ASSIGNS(OBJ_UPTO(out, 65))
ENSURES(RET == 1 || RET == -1)
ENSURES((RET == 1) == !ISINF(P))
ENSURES((RET == 1 && V256(P->Z) == BV_MONT_ONE) IMPLIES out[0] == 0x04 && BEVAL32(out + 1) == FROMMONT(V256(P->X)) && BEVAL32(out + 33) == FROMMONT(V256(P->Y)))
;

void sm2_z256_modp_mont_inv(sm2_z256_t r, const sm2_z256_t a)
REQUIRES(RD_OK(a, 32) && WR_OK(r, 32))
ASSIGNS(OBJ_UPTO(r, 32))
ENSURES(VAL4(r) < BV_P)
;

#endif
