/* Contracts for src/sm4_ccm.c against RFC 3610 / NIST SP 800-38C (C04 "CCM B0/AAD formatting", C05).
 * The byte sequence given to CBC-MAC is observed as a stream at one ghost position G_sk (P-TRANSCRIPT); the block
 * cipher, the counter-mode helper, the final MAC, memxor and memcmp are replaced by recording contracts.
 *   q = 15 - ivlen, t = taglen
 *   B0      = [64*(aadlen>0) + 8*((t-2)/2) + (q-1)] || N || [inlen]_q
 *   a-enc   = [aadlen]_2 if aadlen < 2^16-2^8; 0xff 0xfe [aadlen]_4 if aadlen < 2^32; 0xff 0xff [aadlen]_8 otherwise
 *   stream  = B0 || (a-enc || A || 0^pad to a block boundary, when aadlen > 0) || P || 0^pad to a block boundary
 *   S0      = E_K([q-1] || N || 0^q); tag = MSB_t(CBC-MAC(stream) xor S0); payload counter starts at 1 */
#ifndef CONTRACTS_SM4_CCM_H
#define CONTRACTS_SM4_CCM_H
#include "verif.h"
#include "libc.h"
#include <gmssl/sm4.h>
#include <gmssl/sm4_cbc_mac.h>

#ifdef VERIF_CBMC
size_t G_sk;
size_t G_mu_fed; uint8_t G_mu_byte; unsigned G_mu_calls; size_t G_mu_ctx; unsigned G_mu_seq;
unsigned G_mf_calls; uint8_t G_mf_out; unsigned G_mf_seq;
unsigned G_ce_calls; uint8_t G_ce_in; uint8_t G_ce_out; size_t G_ce_key;
unsigned G_cn_calls; uint8_t G_cn_ctr; size_t G_cn_n; size_t G_cn_in; size_t G_cn_inlen; size_t G_cn_out; size_t G_cn_key; unsigned G_cn_seq;
#define CCM_Q(ivlen)      ((size_t)15 - (ivlen))
#define CCM_ALEN(aadlen)  ((aadlen) == 0 ? (size_t)0 : (aadlen) < 0xff00 ? (size_t)2 : (uint64_t)(aadlen) < ((uint64_t)1 << 32) ? (size_t)6 : (size_t)10)
#define CCM_PAD16(n)      ((((n) + 15) / 16) * 16)
#define CCM_A(aadlen)     (CCM_ALEN(aadlen) + (aadlen))
#define CCM_BE(v, nbytes, j) ((uint8_t)((uint64_t)(v) >> (8 * ((nbytes) - 1 - (j)))))     /* j-th byte of the nbytes-byte big-endian form */
#define CCM_AENC(aadlen, j) ((aadlen) < 0xff00 ? CCM_BE(aadlen, 2, j) : (uint64_t)(aadlen) < ((uint64_t)1 << 32) \
	? ((j) == 0 ? 0xff : (j) == 1 ? 0xfe : CCM_BE(aadlen, 4, (j) - 2)) : ((j) == 0 ? 0xff : (j) == 1 ? 0xff : CCM_BE(aadlen, 8, (j) - 2)))
#define CCM_B0(k, iv, ivlen, aadlen, taglen, mlen) ((k) == 0 ? (uint8_t)(((aadlen) > 0 ? 64 : 0) + 8 * (((taglen) - 2) / 2) + (CCM_Q(ivlen) - 1)) \
	: (k) <= (ivlen) ? (iv)[(k) - 1] : CCM_BE(mlen, CCM_Q(ivlen), (k) - 1 - (ivlen)))
/* the spec stream at position k; `msg` is the PLAINTEXT (input of encryption, output of decryption) */
#define CCM_STREAM(k, iv, ivlen, aad, aadlen, taglen, msg, mlen) ( \
	(k) < 16 ? CCM_B0(k, iv, ivlen, aadlen, taglen, mlen) \
	: (k) < 16 + CCM_ALEN(aadlen) ? CCM_AENC(aadlen, (k) - 16) \
	: (k) < 16 + CCM_A(aadlen) ? (aad)[(k) - 16 - CCM_ALEN(aadlen)] \
	: (k) < 16 + CCM_PAD16(CCM_A(aadlen)) ? (uint8_t)0 \
	: (k) < 16 + CCM_PAD16(CCM_A(aadlen)) + (mlen) ? (msg)[(k) - 16 - CCM_PAD16(CCM_A(aadlen))] : (uint8_t)0)
#define CCM_STREAM_LEN(aadlen, mlen) ((size_t)16 + CCM_PAD16(CCM_A(aadlen)) + CCM_PAD16(mlen))
#define CCM_LENGTHS_OK(ivlen, taglen, mlen) ((ivlen) >= 7 && (ivlen) <= 13 && (taglen) >= 4 && (taglen) <= 16 && ((taglen) & 1) == 0 \
	&& (CCM_Q(ivlen) >= 8 || (uint64_t)(mlen) < ((uint64_t)1 << (8 * CCM_Q(ivlen)))))
/* counter block 0: [q-1] || N || 0^q */
#define CCM_CTR0(k, iv, ivlen) ((k) == 0 ? (uint8_t)(CCM_Q(ivlen) - 1) : (k) <= (ivlen) ? (iv)[(k) - 1] : (uint8_t)0)
#define CCM_GHOSTS G_mu_fed, G_mu_byte, G_mu_calls, G_mu_ctx, G_mu_seq, G_mf_calls, G_mf_out, G_mf_seq, G_ce_calls, G_ce_in, G_ce_out, G_ce_key, \
	G_cn_calls, G_cn_ctr, G_cn_n, G_cn_in, G_cn_inlen, G_cn_out, G_cn_key, G_cn_seq, G_seq, G_x_r, G_x_calls, G_x_len, G_x_rp
#define CCM_ZERO (G_mu_fed == 0 && G_mu_calls == 0 && G_mf_calls == 0 && G_ce_calls == 0 && G_cn_calls == 0 && G_seq == 0 && G_x_calls == 0)
#endif

void sm4_cbc_mac_update(SM4_CBC_MAC_CTX *ctx, const uint8_t *data, size_t datalen)
REQUIRES(RW_OK(ctx, sizeof(SM4_CBC_MAC_CTX)) && (datalen == 0 || RD_OK(data, datalen)))
ASSIGNS(OBJ_UPTO((uint8_t *)ctx, sizeof(SM4_CBC_MAC_CTX)), G_mu_fed, G_mu_byte, G_mu_calls, G_mu_ctx, G_mu_seq, G_seq)
ENSURES(G_mu_fed == OLD(G_mu_fed) + datalen && G_mu_calls == OLD(G_mu_calls) + 1 && G_mu_ctx == (size_t)ctx && G_seq == OLD(G_seq) + 1 && G_mu_seq == G_seq)
ENSURES((G_sk >= OLD(G_mu_fed) && G_sk - OLD(G_mu_fed) < datalen) ? G_mu_byte == data[G_sk - OLD(G_mu_fed)] : G_mu_byte == OLD(G_mu_byte))
;
void sm4_cbc_mac_finish(SM4_CBC_MAC_CTX *ctx, uint8_t mac[16])
REQUIRES(RW_OK(ctx, sizeof(SM4_CBC_MAC_CTX)) && WR_OK(mac, 16) && verif_gk < 16)
ASSIGNS(OBJ_UPTO((uint8_t *)ctx, sizeof(SM4_CBC_MAC_CTX)), OBJ_UPTO(mac, 16), G_mf_calls, G_mf_out, G_mf_seq, G_seq)
ENSURES(G_mf_calls == OLD(G_mf_calls) + 1 && G_mf_out == mac[verif_gk] && G_seq == OLD(G_seq) + 1 && G_mf_seq == G_seq)
;
void sm4_encrypt(const SM4_KEY *key, const uint8_t in[16], uint8_t out[16])
REQUIRES(RD_OK(key, sizeof(SM4_KEY)) && RD_OK(in, 16) && WR_OK(out, 16) && verif_gk < 16)
ASSIGNS(OBJ_UPTO(out, 16), G_ce_calls, G_ce_in, G_ce_out, G_ce_key)
ENSURES(G_ce_calls == OLD(G_ce_calls) + 1 && G_ce_in == OLD(in[verif_gk < 16 ? verif_gk : 0]) && G_ce_out == out[verif_gk] && G_ce_key == (size_t)key)
;
static void sm4_ctr_n_encrypt(const SM4_KEY *key, uint8_t ctr[16], size_t n, const uint8_t *in, size_t inlen, uint8_t *out)
REQUIRES(RD_OK(key, sizeof(SM4_KEY)) && RW_OK(ctr, 16) && n >= 2 && n <= 8 && verif_gk < 16)
REQUIRES(inlen == 0 || (RD_OK(in, inlen) && WR_OK(out, inlen)))
ASSIGNS(OBJ_UPTO(ctr, 16); inlen != 0: OBJ_UPTO(out, inlen); G_cn_calls, G_cn_ctr, G_cn_n, G_cn_in, G_cn_inlen, G_cn_out, G_cn_key, G_cn_seq, G_seq)
ENSURES(G_cn_calls == OLD(G_cn_calls) + 1 && G_cn_ctr == OLD(ctr[verif_gk < 16 ? verif_gk : 0]) && G_cn_n == n && G_cn_in == (size_t)in && G_cn_inlen == inlen
	&& G_cn_out == (size_t)out && G_cn_key == (size_t)key && G_seq == OLD(G_seq) + 1 && G_cn_seq == G_seq)
;

/* counter increment of CCM: the low n bytes (n = q = 2..8) as one big-endian integer, +1 modulo 2^(8n); the flags/nonce
   bytes in front of it never change */
#ifdef VERIF_CBMC
#define CCM_BE64(p, o) (((uint64_t)(p)[(o)+0] << 56) | ((uint64_t)(p)[(o)+1] << 48) | ((uint64_t)(p)[(o)+2] << 40) | ((uint64_t)(p)[(o)+3] << 32) | \
	((uint64_t)(p)[(o)+4] << 24) | ((uint64_t)(p)[(o)+5] << 16) | ((uint64_t)(p)[(o)+6] << 8) | (uint64_t)(p)[(o)+7])
#define CCM_OLDBE64(p, o) (((uint64_t)OLD((p)[(o)+0]) << 56) | ((uint64_t)OLD((p)[(o)+1]) << 48) | ((uint64_t)OLD((p)[(o)+2]) << 40) | ((uint64_t)OLD((p)[(o)+3]) << 32) | \
	((uint64_t)OLD((p)[(o)+4]) << 24) | ((uint64_t)OLD((p)[(o)+5]) << 16) | ((uint64_t)OLD((p)[(o)+6]) << 8) | (uint64_t)OLD((p)[(o)+7]))
#define CCM_MASK(n) ((n) >= 8 ? ~(uint64_t)0 : (((uint64_t)1 << (8 * (n))) - 1))
#endif
#ifdef CONTRACT_CCM_CTR_INCR
static void ctr_n_incr(uint8_t a[16], size_t n)
REQUIRES(RW_OK(a, 16) && n >= 2 && n <= 8)
ASSIGNS(OBJ_UPTO(a, 16))
ENSURES(CCM_BE64(a, 0) == CCM_OLDBE64(a, 0))
ENSURES((CCM_BE64(a, 8) & ~CCM_MASK(n)) == (CCM_OLDBE64(a, 8) & ~CCM_MASK(n)))
ENSURES((CCM_BE64(a, 8) & CCM_MASK(n)) == ((CCM_OLDBE64(a, 8) + 1) & CCM_MASK(n)))
;
#endif

#ifdef VERIF_CBMC
#define CCM_COMMON_POST(msg) \
	(G_mu_ctx != 0 && G_mu_fed == CCM_STREAM_LEN(aadlen, inlen) \
	&& (G_sk < G_mu_fed IMPLIES G_mu_byte == CCM_STREAM(G_sk, iv, ivlen, aad, aadlen, taglen, msg, inlen)) \
	&& G_mf_calls == 1 \
	&& G_ce_calls == 1 && G_ce_key == (size_t)sm4_key && G_ce_in == CCM_CTR0(verif_gk, iv, ivlen) \
	&& G_cn_calls == 1 && G_cn_key == (size_t)sm4_key && G_cn_n == CCM_Q(ivlen) && G_cn_in == (size_t)in && G_cn_inlen == inlen && G_cn_out == (size_t)out \
	&& G_cn_ctr == (verif_gk == 15 ? (uint8_t)1 : CCM_CTR0(verif_gk, iv, ivlen)))
#endif

int sm4_ccm_encrypt(const SM4_KEY *sm4_key, const uint8_t *iv, size_t ivlen, const uint8_t *aad, size_t aadlen,
	const uint8_t *in, size_t inlen, uint8_t *out, size_t taglen, uint8_t *tag)
REQUIRES(RD_OK(sm4_key, sizeof(SM4_KEY)) && verif_gk < 16 && G_sk < ((size_t)1 << 40))
REQUIRES(ivlen == 0 || RD_OK(iv, ivlen))
REQUIRES(aad == NULL || aadlen == 0 || RD_OK(aad, aadlen))
REQUIRES(inlen == 0 || (RD_OK(in, inlen) && WR_OK(out, inlen) && SEPARATE(in, out)))
REQUIRES(taglen == 0 || WR_OK(tag, taglen))
REQUIRES(CCM_ZERO)
ASSIGNS(inlen != 0: OBJ_UPTO(out, inlen); taglen != 0: OBJ_UPTO(tag, taglen); CCM_GHOSTS)
ENSURES(RET == 1 || RET == -1)
ENSURES((RET == 1) == (CCM_LENGTHS_OK(ivlen, taglen, inlen) && (aad != NULL || aadlen == 0)))
ENSURES(RET == 1 IMPLIES CCM_COMMON_POST(in))
/* the MAC covers the plaintext: hashed before or after the stream cipher ran does not matter when in and out are separate */
ENSURES(RET == 1 IMPLIES (G_x_calls == 1 && G_x_len == taglen && G_x_rp == (size_t)tag && (verif_gk < taglen IMPLIES tag[verif_gk] == (uint8_t)(G_mf_out ^ G_ce_out))))
;

int sm4_ccm_decrypt(const SM4_KEY *sm4_key, const uint8_t *iv, size_t ivlen, const uint8_t *aad, size_t aadlen,
	const uint8_t *in, size_t inlen, const uint8_t *tag, size_t taglen, uint8_t *out)
REQUIRES(RD_OK(sm4_key, sizeof(SM4_KEY)) && verif_gk < 16 && G_sk < ((size_t)1 << 40))
REQUIRES(ivlen == 0 || RD_OK(iv, ivlen))
REQUIRES(aad == NULL || aadlen == 0 || RD_OK(aad, aadlen))
REQUIRES(inlen == 0 || (RD_OK(in, inlen) && WR_OK(out, inlen) && SEPARATE(in, out)))
REQUIRES(taglen == 0 || RD_OK(tag, taglen))
REQUIRES(CCM_ZERO && G_mcmp_calls == 0)
ASSIGNS(inlen != 0: OBJ_UPTO(out, inlen); CCM_GHOSTS, G_mcmp_last, G_mcmp_n, G_mcmp_a, G_mcmp_b, G_mcmp_calls, G_mcmp_ak, G_mcmp_bk, G_mcmp_seq)
ENSURES(RET == 1 || RET == -1)
ENSURES(RET == 1 IMPLIES (CCM_LENGTHS_OK(ivlen, taglen, inlen) && (aad != NULL || aadlen == 0)))
/* the MAC is computed over the recovered plaintext (out), after the stream cipher produced it */
ENSURES(RET == 1 IMPLIES (CCM_COMMON_POST(out) && G_mu_seq > G_cn_seq))
ENSURES(RET == 1 IMPLIES (G_mcmp_calls == 1 && G_mcmp_n == taglen && G_mcmp_last == 0 && G_mcmp_seq > G_mf_seq
	&& ((G_mcmp_b == (size_t)tag && (verif_gk < taglen IMPLIES G_mcmp_ak == (uint8_t)(G_mf_out ^ G_ce_out)))
	 || (G_mcmp_a == (size_t)tag && (verif_gk < taglen IMPLIES G_mcmp_bk == (uint8_t)(G_mf_out ^ G_ce_out))))))
ENSURES((CCM_LENGTHS_OK(ivlen, taglen, inlen) && (aad != NULL || aadlen == 0)) IMPLIES (G_mcmp_calls == 1 && (RET == 1) == (G_mcmp_last == 0)))
;
#endif
