/* Contracts of the two name tables of src/tls_trace.c that the record layer uses as validity predicates
 * (enforced on the real functions by jobs tls_record_type_name / tls_protocol_name in jobs/c11_tls_trace.c) */
#ifndef CONTRACTS_TLS_NAMES_H
#define CONTRACTS_TLS_NAMES_H
#include "verif.h"
const char *tls_record_type_name(int type)
ASSIGNS()
ENSURES((RET != NULL) == (type == 20 || type == 21 || type == 22 || type == 23))
;
const char *tls_protocol_name(int protocol)
ASSIGNS()
ENSURES((RET != NULL) == (protocol == 0x0101 || protocol == 0x0200 || protocol == 0x0300 || protocol == 0x0301 || protocol == 0x0302
	|| protocol == 0x0303 || protocol == 0x0304 || protocol == 0xfeff || protocol == 0xfefd))
;
const char *tls_handshake_type_name(int type)
ASSIGNS()
ENSURES((RET != NULL) == ((type >= 0 && type <= 6) || type == 8 || (type >= 11 && type <= 16) || (type >= 20 && type <= 26) || type == 254))
;
/* src/tls_trace.c table lookup: assumed pure (a switch over literals; its result only selects accept / refuse) */
const char *tls_cert_type_name(int type)
REQUIRES(1)
ASSIGNS()
ENSURES(1)
;
#endif
