/* Contracts for the TLS 1.2 ECDHE key-exchange parsers of src/tls12.c (C12 / C06): the peer's ephemeral point is taken from a
 * 65-byte slice of the message and goes through the validating import, which must return exactly 1. */
#ifndef CONTRACTS_TLS12_KX_H
#define CONTRACTS_TLS12_KX_H
#include "tls13_keyshare.h"
#ifdef VERIF_CBMC
#define REC_LEN(r) ((size_t)5 + ((((size_t)(r)[3]) << 8) | (r)[4]))
#define REC_REQ(r) (RD_OK(r, 5) && RD_OK(r, REC_LEN(r)))
#define REC_SLICE(p, n, r) ((n) <= REC_LEN(r) && PTR_IN((r), (p), (r) + REC_LEN(r)) && (size_t)(__CPROVER_POINTER_OFFSET(p) - __CPROVER_POINTER_OFFSET(r)) + (n) <= REC_LEN(r))
#endif
int tls_record_get_handshake(const uint8_t *record, int *type, const uint8_t **data, size_t *datalen)
REQUIRES(REC_REQ(record) && WR_OK(type, sizeof(int)) && WR_OK(data, sizeof(*data)) && WR_OK(datalen, sizeof(size_t)))
ASSIGNS(*type, *data, *datalen)
ENSURES(RET == 1 || RET == -1)
ENSURES(RET == 1 IMPLIES (*datalen <= 16384 && *datalen + 9 <= REC_LEN(record)
	&& (*datalen == 0 ? *data == NULL : (PTR_IN(record, *data, record + REC_LEN(record)) && *data == record + 9))))
;
int tls_record_get_handshake_client_key_exchange_ecdhe(const uint8_t *record, SM2_Z256_POINT *point)
REQUIRES(REC_REQ(record) && WR_OK(point, sizeof(*point)))
ASSIGNS(OBJ_UPTO((uint8_t *)point, sizeof(*point)), G_fo_calls, G_fo_last, G_fo_P, G_fo_in, G_fo_inlen)
ENSURES(RET == 1 || RET == -1)
ENSURES(RET == 1 IMPLIES (G_fo_calls == OLD(G_fo_calls) + 1 && G_fo_last == 1 && G_fo_P == (size_t)point && G_fo_inlen == 65 && G_fo_in == (size_t)(record + 10)))
;
int tls_record_get_handshake_server_key_exchange_ecdhe(const uint8_t *record, int *curve, SM2_Z256_POINT *point, const uint8_t **sig, size_t *siglen)
REQUIRES(record == NULL || REC_REQ(record))
REQUIRES((curve == NULL || WR_OK(curve, sizeof(int))) && (point == NULL || WR_OK(point, sizeof(*point))) && (sig == NULL || WR_OK(sig, sizeof(*sig))) && (siglen == NULL || WR_OK(siglen, sizeof(size_t))))
ASSIGNS(curve != NULL: *curve; point != NULL: OBJ_UPTO((uint8_t *)point, sizeof(*point)); sig != NULL: *sig; siglen != NULL: *siglen; G_fo_calls, G_fo_last, G_fo_P, G_fo_in, G_fo_inlen)
ENSURES(RET == 1 || RET == -1)
ENSURES(RET == 1 IMPLIES (G_fo_calls == OLD(G_fo_calls) + 1 && G_fo_last == 1 && G_fo_P == (size_t)point && G_fo_inlen == 65 && G_fo_in == (size_t)(record + 13)
	&& (*siglen == 0 ? 1 : REC_SLICE(*sig, *siglen, record))))
;
#endif
