/* P-TRANSCRIPT abstraction of the SM3 streaming interface, used where sm3_init/update/finish are REPLACED.
 * The context is opaque to every caller, so its fields are reused as ghost state that travels with struct
 * copies (ctx->saved_sm3_ctx = ctx->sm3_ctx):
 *     ctx->nblocks   := number of bytes absorbed so far
 *     ctx->block[0]  := the byte that was absorbed at stream position G_tk   (valid when block[1] == 1)
 *     ctx->block[1]  := 1 once position G_tk has been absorbed
 * G_tk is a ghost index the code never assigns, so a statement about position G_tk is a statement about every
 * position (P-GIDX).  A caller's postcondition "the stream absorbed is exactly M" reads
 *     FED == |M|  &&  (G_tk < |M| ==> SEEN && TBYTE == M[G_tk]).
 * These contracts are assumptions about sm3.c (the real update's streaming invariant is proved under C03). */
#ifndef CONTRACTS_SM3_TRANSCRIPT_H
#define CONTRACTS_SM3_TRANSCRIPT_H
#include "verif.h"
#include <gmssl/sm3.h>
#ifdef VERIF_CBMC
size_t G_tk;
#define SM3_FED(c)    ((c)->nblocks)
#define SM3_TBYTE(c)  ((c)->block[0])
#define SM3_TSEEN(c)  ((c)->block[1])
/* transcript of the most recently finished stream, and the digest object it was written to */
uint64_t G_fin_fed; uint8_t G_fin_tbyte; uint8_t G_fin_tseen; unsigned G_fin_calls;
#define STREAM_IS(fed, seen, tbyte, len, byte_at_k) ((fed) == (len) && (G_tk >= (len) || ((seen) == 1 && (tbyte) == (uint8_t)(byte_at_k))))
#endif

void sm3_init(SM3_CTX *ctx)
REQUIRES(WR_OK(ctx, sizeof(*ctx)))
ASSIGNS(OBJ_UPTO((uint8_t *)ctx, sizeof(*ctx)))
ENSURES(SM3_FED(ctx) == 0 && SM3_TSEEN(ctx) == 0)
;

void sm3_update(SM3_CTX *ctx, const uint8_t *data, size_t datalen)
REQUIRES(RW_OK(ctx, sizeof(*ctx)) && (datalen == 0 || RD_OK(data, datalen)))
ASSIGNS(OBJ_UPTO((uint8_t *)ctx, sizeof(*ctx)))
ENSURES(SM3_FED(ctx) == OLD(SM3_FED(ctx)) + datalen)
ENSURES((OLD(SM3_FED(ctx)) <= G_tk && G_tk - OLD(SM3_FED(ctx)) < datalen)
	? (SM3_TSEEN(ctx) == 1 && SM3_TBYTE(ctx) == data[G_tk - OLD(SM3_FED(ctx))])
	: (SM3_TSEEN(ctx) == OLD(SM3_TSEEN(ctx)) && SM3_TBYTE(ctx) == OLD(SM3_TBYTE(ctx))))
;

#ifdef CONTRACT_SM3_FINISH_HISTORY
/* variant that keeps the previous finished stream too and records one digest byte (index G_FIN_DGST_IDX, a job-chosen
   expression < 32): for callers that finish twice (HMAC) */
#ifdef VERIF_CBMC
uint64_t G_finp_fed; uint8_t G_finp_tbyte; uint8_t G_finp_tseen; uint8_t G_fin_dgst; uint8_t G_finp_dgst;
#endif
void sm3_finish(SM3_CTX *ctx, uint8_t dgst[SM3_DIGEST_SIZE])
REQUIRES(RW_OK(ctx, sizeof(*ctx)) && WR_OK(dgst, 32))
ASSIGNS(OBJ_UPTO(dgst, 32), G_fin_fed, G_fin_tbyte, G_fin_tseen, G_fin_calls, G_finp_fed, G_finp_tbyte, G_finp_tseen, G_fin_dgst, G_finp_dgst)
ENSURES(G_fin_fed == SM3_FED(ctx) && G_fin_tbyte == SM3_TBYTE(ctx) && G_fin_tseen == SM3_TSEEN(ctx) && G_fin_calls == OLD(G_fin_calls) + 1)
ENSURES(G_finp_fed == OLD(G_fin_fed) && G_finp_tbyte == OLD(G_fin_tbyte) && G_finp_tseen == OLD(G_fin_tseen) && G_finp_dgst == OLD(G_fin_dgst))
ENSURES(G_fin_dgst == dgst[(size_t)(G_FIN_DGST_IDX) < 32 ? (size_t)(G_FIN_DGST_IDX) : 0])
;
#else
void sm3_finish(SM3_CTX *ctx, uint8_t dgst[SM3_DIGEST_SIZE])
REQUIRES(RW_OK(ctx, sizeof(*ctx)) && WR_OK(dgst, 32))
ASSIGNS(OBJ_UPTO(dgst, 32), G_fin_fed, G_fin_tbyte, G_fin_tseen, G_fin_calls)
ENSURES(G_fin_fed == SM3_FED(ctx) && G_fin_tbyte == SM3_TBYTE(ctx) && G_fin_tseen == SM3_TSEEN(ctx) && G_fin_calls == OLD(G_fin_calls) + 1)
;
#endif
#endif
