/* Contracts for the CRL lookup of src/x509_crl.c (C15 "a serial number is reported revoked by CRL lookup exactly when the
 * CRL lists it").  The entry parser and memcmp are replaced by recording contracts; verif_rv_ci is a free entry index, so
 * "the entry at index verif_rv_ci did not match" is a statement about every entry (P-GIDX over call numbers). */
#ifndef CONTRACTS_X509_CRL_H
#define CONTRACTS_X509_CRL_H
#include "verif.h"
#include <gmssl/x509_crl.h>
#ifdef VERIF_CBMC
#define PTR_IN(lo, p, hi)      __CPROVER_pointer_in_range_dfcc((lo), (p), (hi))
#define G_rv_last_sn verif_rv_last_sn
#define G_rv_last_snlen verif_rv_last_snlen
#define G_rv_ci_sn verif_rv_ci_sn
#define G_rvm_last verif_rvm_last
#define G_rvm_n verif_rvm_n
#define G_rvm_a verif_rvm_a
#define G_rvm_b verif_rvm_b
#define G_rvm_calls verif_rvm_calls
#define RV_GHOSTS verif_rv_calls, verif_rv_ci_snlen, verif_rv_ci_seen, verif_rv_ci_cmp, verif_rv_ci_cmp_seen, G_rv_last_sn, G_rv_last_snlen, G_rv_ci_sn, \
	G_rvm_last, G_rvm_n, G_rvm_a, G_rvm_b, G_rvm_calls
#endif

/* one revokedCertificates entry off the front of the window: consumes at least two bytes; the serial is a slice of it */
int x509_revoked_cert_from_der(const uint8_t **serial, size_t *serial_len, time_t *revoke_date,
	const uint8_t **crl_entry_exts, size_t *crl_entry_exts_len, const uint8_t **in, size_t *inlen)
REQUIRES(WR_OK(serial, sizeof(*serial)) && WR_OK(serial_len, sizeof(size_t)) && WR_OK(revoke_date, sizeof(time_t)) && WR_OK(crl_entry_exts, sizeof(*crl_entry_exts)) && WR_OK(crl_entry_exts_len, sizeof(size_t)))
REQUIRES(WR_OK(in, sizeof(*in)) && WR_OK(inlen, sizeof(size_t)) && *inlen >= 1 && *inlen <= (size_t)1 << 24 && RD_OK(*in, *inlen))
ASSIGNS(*serial, *serial_len, *revoke_date, *crl_entry_exts, *crl_entry_exts_len, *in, *inlen,
	verif_rv_calls, verif_rv_ci_snlen, verif_rv_ci_seen, G_rv_last_sn, G_rv_last_snlen, G_rv_ci_sn)
ENSURES(RET == 1 || RET == 0 || RET == -1)
ENSURES(RET == 1 IMPLIES (*inlen <= OLD(*inlen) && OLD(*inlen) - *inlen >= 2 && PTR_IN(OLD(*in), *in, OLD(*in) + OLD(*inlen)) && *in == OLD(*in) + (OLD(*inlen) - *inlen)
	&& *serial_len >= 1 && *serial_len <= OLD(*inlen) - *inlen && PTR_IN(OLD(*in), *serial, OLD(*in) + OLD(*inlen))
	&& (size_t)(__CPROVER_POINTER_OFFSET(*serial) - __CPROVER_POINTER_OFFSET(OLD(*in))) + *serial_len <= OLD(*inlen) - *inlen))
ENSURES(RET == 1 IMPLIES (verif_rv_calls == OLD(verif_rv_calls) + 1 && G_rv_last_sn == (size_t)*serial && G_rv_last_snlen == *serial_len))
ENSURES((RET == 1 && OLD(verif_rv_calls) == verif_rv_ci) ? (verif_rv_ci_seen == 1 && verif_rv_ci_snlen == *serial_len && G_rv_ci_sn == (size_t)*serial)
	: (verif_rv_ci_seen == OLD(verif_rv_ci_seen) && verif_rv_ci_snlen == OLD(verif_rv_ci_snlen) && G_rv_ci_sn == OLD(G_rv_ci_sn)))
ENSURES(RET != 1 IMPLIES verif_rv_calls == OLD(verif_rv_calls))
;
int memcmp(const void *a, const void *b, size_t n)
REQUIRES(n == 0 || (RD_OK(a, n) && RD_OK(b, n)))
ASSIGNS(G_rvm_last, G_rvm_n, G_rvm_a, G_rvm_b, G_rvm_calls, verif_rv_ci_cmp, verif_rv_ci_cmp_seen)
ENSURES(G_rvm_last == RET && G_rvm_n == n && G_rvm_a == (size_t)a && G_rvm_b == (size_t)b && G_rvm_calls == OLD(G_rvm_calls) + 1)
/* the comparison made on the serial of entry verif_rv_ci */
ENSURES((verif_rv_ci_seen == 1 && (size_t)a == G_rv_ci_sn) ? (verif_rv_ci_cmp == RET && verif_rv_ci_cmp_seen == 1)
	: (verif_rv_ci_cmp == OLD(verif_rv_ci_cmp) && verif_rv_ci_cmp_seen == OLD(verif_rv_ci_cmp_seen)))
;

int x509_revoked_certs_find_revoked_cert_by_serial_number(const uint8_t *d, size_t dlen, const uint8_t *serial, size_t serial_len,
	time_t *revoke_date, const uint8_t **crl_entry_exts, size_t *crl_entry_exts_len)
REQUIRES(dlen <= (size_t)1 << 24 && (dlen == 0 || RD_OK(d, dlen)) && serial_len >= 1 && serial_len <= 64 && RD_OK(serial, serial_len))
REQUIRES(WR_OK(revoke_date, sizeof(time_t)) && WR_OK(crl_entry_exts, sizeof(*crl_entry_exts)) && WR_OK(crl_entry_exts_len, sizeof(size_t)))
REQUIRES(verif_rv_calls == 0 && verif_rv_ci_seen == 0 && verif_rv_ci_cmp_seen == 0 && G_rvm_calls == 0)
ASSIGNS(*revoke_date, *crl_entry_exts, *crl_entry_exts_len, RV_GHOSTS)
ENSURES(RET == 1 || RET == 0 || RET == -1)
/* revoked: the entry just read has a serial of the same length that compared equal to the one asked for */
ENSURES(RET == 1 IMPLIES (G_rv_last_snlen == serial_len && G_rvm_last == 0 && G_rvm_n == serial_len
	&& ((G_rvm_a == G_rv_last_sn && G_rvm_b == (size_t)serial) || (G_rvm_b == G_rv_last_sn && G_rvm_a == (size_t)serial))))
/* not revoked: EVERY entry (the one at the free index verif_rv_ci) was read and did not match */
ENSURES(RET == 0 IMPLIES (verif_rv_ci >= verif_rv_calls || (verif_rv_ci_seen == 1 && !(verif_rv_ci_snlen == serial_len && verif_rv_ci_cmp_seen == 1 && verif_rv_ci_cmp == 0))))
ENSURES(RET == 0 IMPLIES (*crl_entry_exts == NULL && *crl_entry_exts_len == 0 && *revoke_date == (time_t)-1))
;
#endif
