/* Template: contracts for a one-shot GCM implementation (src/sm4_gcm.c sm4_gcm_{en,de}crypt,
 * src/aes_modes.c aes_gcm_{en,de}crypt).  Instantiate with
 *   GCM_KEY_T      SM4_KEY / AES_KEY
 *   GCM_BLK        sm4_encrypt / aes_encrypt            (block cipher, recording contract)
 *   GCM_CTR32      sm4_ctr32_encrypt / aes_ctr32_encrypt (CTR with 32-bit increment, recording)
 *   GCM_CTR32_STATIC  define when GCM_CTR32 is a static function of the source file
 *   GCM_ENCRYPT / GCM_DECRYPT   the functions under contract
 *   GCM_IV_MIN/MAX, GCM_TAG_MIN/MAX, GCM_PT_MAX   the admissible ranges the CODE documents
 *
 * Method (P-TAINT + P-GIDX): the callees are replaced by contracts that write arbitrary bytes
 * and RECORD, at one ghost byte index verif_gk (< 16, arbitrary), what they were given and what
 * they produced.  The top-level postcondition is NIST SP 800-38D section 7 re-stated over that
 * record: H = E_K(0^128); J0 = IV||0^31||1 when len(IV)=96 else GHASH_H(IV); the tag that is
 * compared (written) is MSB_t(E_K(J0) xor GHASH_H(A, C)); the counter stream starts at inc32(J0);
 * decryption returns 1 exactly when the comparison over ALL t bytes said "equal", and the
 * plaintext is produced only after that comparison. */
#include "verif.h"
#include "libc.h"

#ifdef VERIF_CBMC
unsigned G_seq;                                   /* global order of recorded events */
/* block cipher: two calls (H, then E(J0)) */
unsigned G_e_calls; uint8_t G_e_in[2]; uint8_t G_e_out[2]; uint32_t G_e_in_w3[2]; size_t G_e_key[2];
/* ghash: up to two calls (IV when len != 12, then data) */
unsigned G_gh_calls; uint8_t G_gh_h[2]; size_t G_gh_aad[2]; size_t G_gh_aadlen[2]; size_t G_gh_c[2]; size_t G_gh_clen[2];
uint8_t G_gh_out[2]; uint32_t G_gh_out_w3[2]; unsigned G_gh_seq[2];
/* ctr32 stream */
unsigned G_c_calls; uint8_t G_c_ctr; uint32_t G_c_ctr_w3; size_t G_c_in; size_t G_c_inlen; size_t G_c_out; size_t G_c_key; unsigned G_c_seq;
#define OLDBE32_12(p) (((uint32_t)OLD((p)[12]) << 24) | ((uint32_t)OLD((p)[13]) << 16) | ((uint32_t)OLD((p)[14]) << 8) | (uint32_t)OLD((p)[15]))
#define BE32P(p) (((uint32_t)(p)[0] << 24) | ((uint32_t)(p)[1] << 16) | ((uint32_t)(p)[2] << 8) | (uint32_t)(p)[3])
#endif

void GCM_BLK(const GCM_KEY_T *key, const uint8_t in[16], uint8_t out[16])
REQUIRES(RD_OK(key, sizeof(GCM_KEY_T)) && RD_OK(in, 16) && WR_OK(out, 16) && verif_gk < 16)
ASSIGNS(OBJ_UPTO(out, 16), G_e_calls, G_e_in, G_e_out, G_e_in_w3, G_e_key, G_seq)
ENSURES(G_e_calls == OLD(G_e_calls) + 1 && G_seq == OLD(G_seq) + 1)
ENSURES(OLD(G_e_calls) == 0 IMPLIES (G_e_in[0] == OLD(in[verif_gk < 16 ? verif_gk : 0]) && G_e_out[0] == out[verif_gk] && G_e_in_w3[0] == OLDBE32_12(in) && G_e_key[0] == (size_t)key
	&& G_e_in[1] == OLD(G_e_in[1]) && G_e_out[1] == OLD(G_e_out[1]) && G_e_in_w3[1] == OLD(G_e_in_w3[1]) && G_e_key[1] == OLD(G_e_key[1])))
ENSURES(OLD(G_e_calls) == 1 IMPLIES (G_e_in[1] == OLD(in[verif_gk < 16 ? verif_gk : 0]) && G_e_out[1] == out[verif_gk] && G_e_in_w3[1] == OLDBE32_12(in) && G_e_key[1] == (size_t)key
	&& G_e_in[0] == OLD(G_e_in[0]) && G_e_out[0] == OLD(G_e_out[0]) && G_e_in_w3[0] == OLD(G_e_in_w3[0]) && G_e_key[0] == OLD(G_e_key[0])))
;

void ghash(const uint8_t h[16], const uint8_t *aad, size_t aadlen, const uint8_t *c, size_t clen, uint8_t out[16])
REQUIRES(RD_OK(h, 16) && WR_OK(out, 16) && verif_gk < 16)
REQUIRES(aadlen == 0 || RD_OK(aad, aadlen))
REQUIRES(clen == 0 || RD_OK(c, clen))
ASSIGNS(OBJ_UPTO(out, 16), G_gh_calls, G_gh_h, G_gh_aad, G_gh_aadlen, G_gh_c, G_gh_clen, G_gh_out, G_gh_out_w3, G_gh_seq, G_seq)
ENSURES(G_gh_calls == OLD(G_gh_calls) + 1 && G_seq == OLD(G_seq) + 1)
ENSURES(OLD(G_gh_calls) == 0 IMPLIES (G_gh_h[0] == OLD(h[verif_gk < 16 ? verif_gk : 0]) && G_gh_aad[0] == (size_t)aad && G_gh_aadlen[0] == aadlen && G_gh_c[0] == (size_t)c && G_gh_clen[0] == clen
	&& G_gh_out[0] == out[verif_gk] && G_gh_out_w3[0] == BE32P(out + 12) && G_gh_seq[0] == G_seq
	&& G_gh_h[1] == OLD(G_gh_h[1]) && G_gh_aad[1] == OLD(G_gh_aad[1]) && G_gh_aadlen[1] == OLD(G_gh_aadlen[1]) && G_gh_c[1] == OLD(G_gh_c[1]) && G_gh_clen[1] == OLD(G_gh_clen[1])
	&& G_gh_out[1] == OLD(G_gh_out[1]) && G_gh_out_w3[1] == OLD(G_gh_out_w3[1]) && G_gh_seq[1] == OLD(G_gh_seq[1])))
ENSURES(OLD(G_gh_calls) == 1 IMPLIES (G_gh_h[1] == OLD(h[verif_gk < 16 ? verif_gk : 0]) && G_gh_aad[1] == (size_t)aad && G_gh_aadlen[1] == aadlen && G_gh_c[1] == (size_t)c && G_gh_clen[1] == clen
	&& G_gh_out[1] == out[verif_gk] && G_gh_out_w3[1] == BE32P(out + 12) && G_gh_seq[1] == G_seq
	&& G_gh_h[0] == OLD(G_gh_h[0]) && G_gh_aad[0] == OLD(G_gh_aad[0]) && G_gh_aadlen[0] == OLD(G_gh_aadlen[0]) && G_gh_c[0] == OLD(G_gh_c[0]) && G_gh_clen[0] == OLD(G_gh_clen[0])
	&& G_gh_out[0] == OLD(G_gh_out[0]) && G_gh_out_w3[0] == OLD(G_gh_out_w3[0]) && G_gh_seq[0] == OLD(G_gh_seq[0])))
;

#ifdef GCM_CTR32_STATIC
static
#endif
void GCM_CTR32(const GCM_KEY_T *key, uint8_t ctr[16], const uint8_t *in, size_t inlen, uint8_t *out)
REQUIRES(RD_OK(key, sizeof(GCM_KEY_T)) && RW_OK(ctr, 16) && verif_gk < 16)
REQUIRES(inlen == 0 || (RD_OK(in, inlen) && WR_OK(out, inlen)))
ASSIGNS(OBJ_UPTO(ctr, 16); inlen != 0: OBJ_UPTO(out, inlen); G_c_calls, G_c_ctr, G_c_ctr_w3, G_c_in, G_c_inlen, G_c_out, G_c_key, G_c_seq, G_seq)
ENSURES(G_c_calls == OLD(G_c_calls) + 1 && G_seq == OLD(G_seq) + 1 && G_c_seq == G_seq)
ENSURES(G_c_ctr == OLD(ctr[verif_gk < 16 ? verif_gk : 0]) && G_c_ctr_w3 == OLDBE32_12(ctr) && G_c_in == (size_t)in && G_c_inlen == inlen && G_c_out == (size_t)out && G_c_key == (size_t)key)
;

/* inc32 of SP 800-38D 6.2: the last four bytes as a big-endian integer + 1 modulo 2^32, the first twelve untouched */
static void ctr32_incr(uint8_t a[16])
REQUIRES(RW_OK(a, 16))
ASSIGNS(OBJ_UPTO(a, 16))
ENSURES(BE32P(a + 12) == (uint32_t)(OLDBE32_12(a) + 1u))
ENSURES(a[0] == OLD(a[0]) && a[1] == OLD(a[1]) && a[2] == OLD(a[2]) && a[3] == OLD(a[3]) && a[4] == OLD(a[4]) && a[5] == OLD(a[5])
	&& a[6] == OLD(a[6]) && a[7] == OLD(a[7]) && a[8] == OLD(a[8]) && a[9] == OLD(a[9]) && a[10] == OLD(a[10]) && a[11] == OLD(a[11]))
;

/* ---- the specification (SP 800-38D 7.1 / 7.2) over the record ---- */
#ifdef VERIF_CBMC
/* index of the data GHASH call: 0 when the IV is 96 bits (no IV hash), else 1 */
#define GCM_D(ivlen)  ((ivlen) == 12 ? 0 : 1)
#define GCM_J0_OK(iv, ivlen) ( \
	G_e_calls == 2 && G_e_key[0] == (size_t)key && G_e_key[1] == (size_t)key \
	&& G_e_in[0] == 0                                           /* H = E_K(0^128) */ \
	&& G_gh_calls == (unsigned)GCM_D(ivlen) + 1 \
	&& ((ivlen) == 12 \
		? (G_e_in[1] == (verif_gk < 12 ? (iv)[verif_gk < 12 ? verif_gk : 0] : (verif_gk == 15 ? 1 : 0)) && G_e_in_w3[1] == 1) \
		: (G_gh_h[0] == G_e_out[0] && G_gh_aadlen[0] == 0 && G_gh_c[0] == (size_t)(iv) && G_gh_clen[0] == (ivlen) \
		   && G_e_in[1] == G_gh_out[0] && G_e_in_w3[1] == G_gh_out_w3[0])))
#define GCM_DATA_HASH_OK(ivlen, aad, aadlen, c, clen) ( \
	G_gh_h[GCM_D(ivlen)] == G_e_out[0] && G_gh_aad[GCM_D(ivlen)] == (size_t)(aad) && G_gh_aadlen[GCM_D(ivlen)] == (aadlen) \
	&& G_gh_c[GCM_D(ivlen)] == (size_t)(c) && G_gh_clen[GCM_D(ivlen)] == (clen))
#define GCM_STREAM_OK(in, inlen, out) ( \
	G_c_calls == 1 && G_c_key == (size_t)key && G_c_in == (size_t)(in) && G_c_inlen == (inlen) && G_c_out == (size_t)(out) \
	&& (verif_gk < 12 IMPLIES G_c_ctr == G_e_in[1]) && G_c_ctr_w3 == (uint32_t)(G_e_in_w3[1] + 1u))   /* inc32(J0) */
#define GCM_LENGTHS_OK(ivlen, taglen, inlen) \
	((ivlen) >= GCM_IV_MIN && (ivlen) <= GCM_IV_MAX && (taglen) >= GCM_TAG_MIN && (taglen) <= GCM_TAG_MAX && (inlen) <= GCM_PT_MAX)
#endif

int GCM_DECRYPT(const GCM_KEY_T *key, const uint8_t *iv, size_t ivlen,
	const uint8_t *aad, size_t aadlen, const uint8_t *in, size_t inlen,
	const uint8_t *tag, size_t taglen, uint8_t *out)
REQUIRES(RD_OK(key, sizeof(GCM_KEY_T)) && verif_gk < 16)
REQUIRES(ivlen == 0 || RD_OK(iv, ivlen))
REQUIRES(aadlen == 0 || RD_OK(aad, aadlen))
REQUIRES(inlen == 0 || (RD_OK(in, inlen) && WR_OK(out, inlen)))
REQUIRES(taglen == 0 || RD_OK(tag, taglen))
REQUIRES(G_seq == 0 && G_e_calls == 0 && G_gh_calls == 0 && G_c_calls == 0 && G_mcmp_calls == 0 && G_x_calls == 0)
ASSIGNS(inlen != 0: OBJ_UPTO(out, inlen); G_seq, G_e_calls, G_e_in, G_e_out, G_e_in_w3, G_e_key,
	G_gh_calls, G_gh_h, G_gh_aad, G_gh_aadlen, G_gh_c, G_gh_clen, G_gh_out, G_gh_out_w3, G_gh_seq,
	G_c_calls, G_c_ctr, G_c_ctr_w3, G_c_in, G_c_inlen, G_c_out, G_c_key, G_c_seq,
	G_mcmp_last, G_mcmp_n, G_mcmp_a, G_mcmp_b, G_mcmp_calls, G_mcmp_ak, G_mcmp_bk, G_mcmp_seq, G_x_r, G_x_calls, G_x_len, G_x_rp)
ENSURES(RET == 1 || RET == -1)
/* success only for admissible lengths ... */
ENSURES(RET == 1 IMPLIES GCM_LENGTHS_OK(ivlen, taglen, inlen))
/* ... with H and J0 derived as the standard says ... */
ENSURES(RET == 1 IMPLIES GCM_J0_OK(iv, ivlen))
/* ... the tag recomputed over exactly (AAD, ciphertext) ... */
ENSURES(RET == 1 IMPLIES GCM_DATA_HASH_OK(ivlen, aad, aadlen, in, inlen))
/* ... compared with the received tag over all taglen bytes, and found equal:
   the compared value at every index gk < taglen is E_K(J0)[gk] xor GHASH[gk] */
ENSURES(RET == 1 IMPLIES (G_mcmp_calls == 1 && G_mcmp_n == taglen && G_mcmp_last == 0
	&& ((G_mcmp_b == (size_t)tag && (verif_gk < taglen IMPLIES G_mcmp_ak == (uint8_t)(G_e_out[1] ^ G_gh_out[GCM_D(ivlen)])))
	 || (G_mcmp_a == (size_t)tag && (verif_gk < taglen IMPLIES G_mcmp_bk == (uint8_t)(G_e_out[1] ^ G_gh_out[GCM_D(ivlen)]))))))
/* ... and the plaintext produced from inc32(J0) only AFTER the comparison */
ENSURES(RET == 1 IMPLIES (GCM_STREAM_OK(in, inlen, out) && G_c_seq > G_mcmp_seq))
/* failure: no keystream was applied at all (no unauthenticated plaintext) */
ENSURES(RET != 1 IMPLIES G_c_calls == 0)
/* completeness: admissible lengths and an equal tag are accepted (the untouched output of encryption decrypts) */
ENSURES((GCM_LENGTHS_OK(ivlen, taglen, inlen) && G_mcmp_calls == 1 && G_mcmp_last == 0) IMPLIES RET == 1)
ENSURES(GCM_LENGTHS_OK(ivlen, taglen, inlen) IMPLIES G_mcmp_calls == 1)
;

int GCM_ENCRYPT(const GCM_KEY_T *key, const uint8_t *iv, size_t ivlen,
	const uint8_t *aad, size_t aadlen, const uint8_t *in, size_t inlen,
	uint8_t *out, size_t taglen, uint8_t *tag)
REQUIRES(RD_OK(key, sizeof(GCM_KEY_T)) && verif_gk < 16)
REQUIRES(ivlen == 0 || RD_OK(iv, ivlen))
REQUIRES(aadlen == 0 || RD_OK(aad, aadlen))
REQUIRES(inlen == 0 || (RD_OK(in, inlen) && WR_OK(out, inlen)))
REQUIRES(taglen == 0 || WR_OK(tag, taglen))
REQUIRES(G_seq == 0 && G_e_calls == 0 && G_gh_calls == 0 && G_c_calls == 0 && G_x_calls == 0)
ASSIGNS(inlen != 0: OBJ_UPTO(out, inlen); taglen != 0: OBJ_UPTO(tag, taglen); G_seq, G_e_calls, G_e_in, G_e_out, G_e_in_w3, G_e_key,
	G_gh_calls, G_gh_h, G_gh_aad, G_gh_aadlen, G_gh_c, G_gh_clen, G_gh_out, G_gh_out_w3, G_gh_seq,
	G_c_calls, G_c_ctr, G_c_ctr_w3, G_c_in, G_c_inlen, G_c_out, G_c_key, G_c_seq, G_x_r, G_x_calls, G_x_len, G_x_rp)
ENSURES(RET == 1 || RET == -1)
ENSURES(RET == 1 IMPLIES GCM_LENGTHS_OK(ivlen, taglen, inlen))
ENSURES(GCM_LENGTHS_OK(ivlen, taglen, inlen) IMPLIES RET == 1)
ENSURES(RET == 1 IMPLIES GCM_J0_OK(iv, ivlen))
/* the hash covers the ciphertext that was WRITTEN (out), after the stream produced it */
ENSURES(RET == 1 IMPLIES (GCM_STREAM_OK(in, inlen, out) && GCM_DATA_HASH_OK(ivlen, aad, aadlen, out, inlen) && G_gh_seq[GCM_D(ivlen)] > G_c_seq))
/* tag = MSB_taglen(E_K(J0) xor GHASH) */
ENSURES(RET == 1 IMPLIES (G_x_calls == 1 && G_x_len == taglen && G_x_rp == (size_t)tag
	&& (verif_gk < taglen IMPLIES tag[verif_gk] == (uint8_t)(G_e_out[1] ^ G_gh_out[GCM_D(ivlen)]))))
;

/* =====================================================================================
 * Streaming interface (src/sm4_gcm.c sm4_gcm_{en,de}crypt_{init,update,finish}); enabled by GCM_STREAM.
 * The bytes a call passes on to GHASH and to the CTR stream are described as a STREAM observed
 * at one ghost position G_sk (P-TRANSCRIPT): each replaced consumer appends `len` bytes and
 * records the byte that falls on position G_sk.  Invariant of a well-formed context:
 *   GCM_TAG_MIN <= taglen <= GCM_TAG_MAX, maclen <= taglen, enc_ctx.block_nbytes < 16.
 * ===================================================================================== */
#ifdef GCM_STREAM
#ifdef VERIF_CBMC
const uint8_t G_zero_byte = 0;
size_t G_sk;                                                            /* ghost stream position */
size_t G_gu_fed; uint8_t G_gu_byte; unsigned G_gu_calls; size_t G_gu_ctx;   /* bytes appended to GHASH */
size_t G_cu_fed; uint8_t G_cu_byte; unsigned G_cu_calls; size_t G_cu_ctx;   /* bytes appended to the CTR stream */
size_t G_cu_out0; size_t G_cu_out_next; int G_cu_chain_ok; size_t G_cu_written; unsigned G_cu_seq; unsigned G_gu_seq;
unsigned G_gf_calls; uint8_t G_gf_out; size_t G_gf_ctx; unsigned G_gf_seq;     /* ghash_finish */
unsigned G_cf_calls; size_t G_cf_out; size_t G_cf_len; size_t G_cf_ctx;        /* ctr finish */
unsigned G_gi_calls; uint8_t G_gi_h; size_t G_gi_aad; size_t G_gi_aadlen; size_t G_gi_ctx;   /* ghash_init */
unsigned G_ci_calls; size_t G_ci_key; size_t G_ci_ctx;                          /* ctr init */
#define GCM_CTX_OK(c) ((c)->taglen >= GCM_TAG_MIN && (c)->taglen <= GCM_TAG_MAX && (c)->maclen <= (c)->taglen && (c)->enc_ctx.block_nbytes < 16)
#define GCM_REPORTED(n) (16 * (((n) + 15) / 16))
#endif

void ghash_init(GHASH_CTX *ctx, const uint8_t h[16], const uint8_t *aad, size_t aadlen)
REQUIRES(WR_OK(ctx, sizeof(GHASH_CTX)) && RD_OK(h, 16) && (aadlen == 0 || RD_OK(aad, aadlen)) && verif_gk < 16)
ASSIGNS(OBJ_UPTO((uint8_t *)ctx, sizeof(GHASH_CTX)), G_gi_calls, G_gi_h, G_gi_aad, G_gi_aadlen, G_gi_ctx)
ENSURES(G_gi_calls == OLD(G_gi_calls) + 1 && G_gi_h == h[verif_gk] && G_gi_aad == (size_t)aad && G_gi_aadlen == aadlen && G_gi_ctx == (size_t)ctx)
;

void ghash_update(GHASH_CTX *ctx, const uint8_t *c, size_t clen)
REQUIRES(RW_OK(ctx, sizeof(GHASH_CTX)) && (clen == 0 || RD_OK(c, clen)))
ASSIGNS(OBJ_UPTO((uint8_t *)ctx, sizeof(GHASH_CTX)), G_gu_fed, G_gu_byte, G_gu_calls, G_gu_ctx, G_gu_seq, G_seq)
ENSURES(G_gu_fed == OLD(G_gu_fed) + clen && G_gu_calls == OLD(G_gu_calls) + 1 && G_gu_ctx == (size_t)ctx && G_seq == OLD(G_seq) + 1 && G_gu_seq == G_seq)
ENSURES((G_sk >= OLD(G_gu_fed) && G_sk - OLD(G_gu_fed) < clen) ? G_gu_byte == c[G_sk - OLD(G_gu_fed)] : G_gu_byte == OLD(G_gu_byte))
;

void ghash_finish(GHASH_CTX *ctx, uint8_t out[16])
REQUIRES(RW_OK(ctx, sizeof(GHASH_CTX)) && WR_OK(out, 16) && verif_gk < 16)
ASSIGNS(OBJ_UPTO((uint8_t *)ctx, sizeof(GHASH_CTX)), OBJ_UPTO(out, 16), G_gf_calls, G_gf_out, G_gf_ctx, G_gf_seq, G_seq)
ENSURES(G_gf_calls == OLD(G_gf_calls) + 1 && G_gf_out == out[verif_gk] && G_gf_ctx == (size_t)ctx && G_seq == OLD(G_seq) + 1 && G_gf_seq == G_seq)
;

int sm4_ctr32_encrypt_init(SM4_CTR_CTX *ctx, const uint8_t key[16], const uint8_t ctr[16])
REQUIRES(ctx == NULL || WR_OK(ctx, sizeof(SM4_CTR_CTX)))
REQUIRES(key == NULL || RD_OK(key, 16))
REQUIRES(ctr == NULL || RD_OK(ctr, 16))
ASSIGNS(ctx != NULL && key != NULL && ctr != NULL: OBJ_UPTO((uint8_t *)ctx, sizeof(SM4_CTR_CTX)); G_ci_calls, G_ci_key, G_ci_ctx)
ENSURES(RET == ((ctx != NULL && key != NULL && ctr != NULL) ? 1 : -1))
ENSURES(G_ci_calls == OLD(G_ci_calls) + 1 && G_ci_key == (size_t)key && G_ci_ctx == (size_t)ctx)
ENSURES(RET == 1 IMPLIES ctx->block_nbytes == 0)
;

/* CTR stream: consumes inlen bytes, emits whole blocks: *outlen == 16*floor((buffered+inlen)/16) */
int sm4_ctr32_encrypt_update(SM4_CTR_CTX *ctx, const uint8_t *in, size_t inlen, uint8_t *out, size_t *outlen)
REQUIRES(RW_OK(ctx, sizeof(SM4_CTR_CTX)) && WR_OK(outlen, sizeof(size_t)) && inlen <= (size_t)1 << 40)
REQUIRES(in != NULL && (inlen == 0 || RD_OK(in, inlen)))
REQUIRES(out != NULL && ctx->block_nbytes < 16)
REQUIRES(((ctx->block_nbytes + inlen) / 16) == 0 || WR_OK(out, ((ctx->block_nbytes + inlen) / 16) * 16))
/* the emitted blocks must not overwrite input that has not been consumed: disjoint, or exactly in place with nothing buffered */
REQUIRES(inlen == 0 || !__CPROVER_same_object(in, out) || (in == out && ctx->block_nbytes == 0)
	|| __CPROVER_POINTER_OFFSET(out) + ((ctx->block_nbytes + inlen) / 16) * 16 <= __CPROVER_POINTER_OFFSET(in)
	|| __CPROVER_POINTER_OFFSET(in) + inlen <= __CPROVER_POINTER_OFFSET(out))
ASSIGNS(OBJ_UPTO((uint8_t *)ctx, sizeof(SM4_CTR_CTX)), OBJ_UPTO((uint8_t *)outlen, sizeof(size_t));
#ifdef GCM_COARSE_OUT_FRAME
	/* constant-size havoc of the whole output object (the caller's postcondition does not read the output bytes; WR_OK above stays exact) */
	((ctx->block_nbytes + inlen) / 16) != 0: OBJ_WHOLE(out);
#else
	((ctx->block_nbytes + inlen) / 16) != 0: OBJ_UPTO(out, ((ctx->block_nbytes + inlen) / 16) * 16);
#endif
	G_cu_fed, G_cu_byte, G_cu_calls, G_cu_ctx, G_cu_out0, G_cu_out_next, G_cu_chain_ok, G_cu_written, G_cu_seq, G_seq)
ENSURES(RET == 1)
ENSURES(*outlen == ((OLD(ctx->block_nbytes) + inlen) / 16) * 16 && ctx->block_nbytes == (OLD(ctx->block_nbytes) + inlen) % 16)
ENSURES(G_cu_fed == OLD(G_cu_fed) + inlen && G_cu_calls == OLD(G_cu_calls) + 1 && G_cu_ctx == (size_t)ctx && G_seq == OLD(G_seq) + 1 && G_cu_seq == G_seq)
ENSURES((G_sk >= OLD(G_cu_fed) && G_sk - OLD(G_cu_fed) < inlen) ? G_cu_byte == OLD(*((G_sk >= G_cu_fed && G_sk - G_cu_fed < inlen) ? (in + (G_sk - G_cu_fed)) : &G_zero_byte)) : G_cu_byte == OLD(G_cu_byte))
ENSURES(G_cu_out0 == (OLD(G_cu_calls) == 0 ? (size_t)out : OLD(G_cu_out0)))
ENSURES(G_cu_chain_ok == ((OLD(G_cu_calls) == 0 || (OLD(G_cu_chain_ok) == 1 && (size_t)out == OLD(G_cu_out_next))) ? 1 : 0))
ENSURES(G_cu_out_next == (size_t)out + *outlen && G_cu_written == OLD(G_cu_written) + *outlen)
;

int sm4_ctr32_encrypt_finish(SM4_CTR_CTX *ctx, uint8_t *out, size_t *outlen)
REQUIRES(RW_OK(ctx, sizeof(SM4_CTR_CTX)) && WR_OK(outlen, sizeof(size_t)) && out != NULL && ctx->block_nbytes < 16)
REQUIRES(ctx->block_nbytes == 0 || WR_OK(out, ctx->block_nbytes))
ASSIGNS(OBJ_UPTO((uint8_t *)ctx, sizeof(SM4_CTR_CTX)), OBJ_UPTO((uint8_t *)outlen, sizeof(size_t));
	ctx->block_nbytes != 0: OBJ_UPTO(out, ctx->block_nbytes); G_cf_calls, G_cf_out, G_cf_len, G_cf_ctx)
ENSURES(RET == 1 && *outlen == OLD(ctx->block_nbytes) && *outlen < 16)
ENSURES(G_cf_calls == OLD(G_cf_calls) + 1 && G_cf_out == (size_t)out && G_cf_len == *outlen && G_cf_ctx == (size_t)ctx)
;

#ifdef VERIF_CBMC
/* S[j]: the j-th byte of (held-back bytes before the call) || (input of the call) */
#define GCM_M0(c)        OLD((c)->maclen)
#define GCM_TOTAL(c)     (OLD((c)->maclen) + inlen)
#define GCM_FED(c)       (GCM_TOTAL(c) - (c)->taglen)          /* only meaningful when total > taglen */
#define GCM_S(c, j)      ((j) < GCM_M0(c) ? G_mac0[(j) < 16 ? (j) : 0] : in[(j) - GCM_M0(c)])
uint8_t G_mac0[16];   /* harness snapshot of ctx->mac before the call (the contract requires it to be exact) */
#define GCM_STREAM_GHOSTS G_seq, G_gu_fed, G_gu_byte, G_gu_calls, G_gu_ctx, G_gu_seq, G_cu_fed, G_cu_byte, G_cu_calls, G_cu_ctx, \
	G_cu_out0, G_cu_out_next, G_cu_chain_ok, G_cu_written, G_cu_seq
#ifdef GCM_NO_CONTENT
#define GCM_CONTENT(x) 1
#else
#define GCM_CONTENT(x) (x)
#endif
#define GCM_STREAM_ZERO (G_seq == 0 && G_gu_fed == 0 && G_gu_calls == 0 && G_cu_fed == 0 && G_cu_calls == 0 && G_cu_written == 0 && G_cu_chain_ok == 1)
#endif

int sm4_gcm_decrypt_update(SM4_GCM_CTX *ctx, const uint8_t *in, size_t inlen, uint8_t *out, size_t *outlen)
REQUIRES(ctx == NULL || (RW_OK(ctx, sizeof(SM4_GCM_CTX)) && GCM_CTX_OK(ctx)))
REQUIRES(in == NULL || inlen == 0 || RD_OK(in, inlen))
REQUIRES(outlen == NULL || WR_OK(outlen, sizeof(size_t)))
/* the caller provides what a query with out == NULL reports, and a buffer disjoint from the input */
REQUIRES(out == NULL || inlen == 0 || (WR_OK(out, GCM_REPORTED(inlen)) && SEPARATE(in, out)))
REQUIRES(ctx == NULL || (SEPARATE(ctx, in) && SEPARATE(ctx, out) && SEPARATE(ctx, outlen)))
REQUIRES(SEPARATE(outlen, out) && SEPARATE(outlen, in))
REQUIRES(GCM_STREAM_ZERO && G_sk < ((size_t)1 << 40) && verif_gk < 16)
REQUIRES(ctx == NULL || (G_mac0[0] == ctx->mac[0] && G_mac0[1] == ctx->mac[1] && G_mac0[2] == ctx->mac[2] && G_mac0[3] == ctx->mac[3]
	&& G_mac0[4] == ctx->mac[4] && G_mac0[5] == ctx->mac[5] && G_mac0[6] == ctx->mac[6] && G_mac0[7] == ctx->mac[7]
	&& G_mac0[8] == ctx->mac[8] && G_mac0[9] == ctx->mac[9] && G_mac0[10] == ctx->mac[10] && G_mac0[11] == ctx->mac[11]
	&& G_mac0[12] == ctx->mac[12] && G_mac0[13] == ctx->mac[13] && G_mac0[14] == ctx->mac[14] && G_mac0[15] == ctx->mac[15]))
ASSIGNS(ctx != NULL: OBJ_UPTO((uint8_t *)ctx, sizeof(SM4_GCM_CTX)); outlen != NULL: OBJ_UPTO((uint8_t *)outlen, sizeof(size_t));
#ifdef GCM_COARSE_OUT_FRAME
	out != NULL && inlen != 0: OBJ_WHOLE(out); GCM_STREAM_GHOSTS)
#else
	out != NULL && inlen != 0: OBJ_UPTO(out, GCM_REPORTED(inlen)); GCM_STREAM_GHOSTS)
#endif
ENSURES(RET == 1 || RET == -1)
ENSURES((ctx == NULL || in == NULL || outlen == NULL) IMPLIES RET == -1)
/* size query */
ENSURES((RET == 1 && out == NULL) IMPLIES (*outlen == GCM_REPORTED(inlen) && G_cu_calls == 0 && G_gu_calls == 0))
/* the context stays well formed */
ENSURES((RET == 1 && ctx != NULL) IMPLIES GCM_CTX_OK(ctx))
ENSURES((RET == 1 && ctx != NULL) IMPLIES ctx->taglen == OLD(ctx->taglen))
/* never more output than reported */
ENSURES((RET == 1 && out != NULL) IMPLIES *outlen <= GCM_REPORTED(inlen))
/* (A) everything is still a possible tag: held back, nothing released, *outlen says so */
ENSURES((RET == 1 && out != NULL && GCM_TOTAL(ctx) <= ctx->taglen) IMPLIES (ctx->maclen == GCM_TOTAL(ctx) && G_gu_fed == 0 && G_cu_fed == 0 && *outlen == 0
	&& GCM_CONTENT(verif_gk < ctx->maclen IMPLIES ctx->mac[verif_gk] == GCM_S(ctx, verif_gk))))
/* (B) exactly total - taglen bytes are released, in stream order, to GHASH and to the CTR stream; the last taglen bytes are held back */
ENSURES((RET == 1 && out != NULL && GCM_TOTAL(ctx) > ctx->taglen) IMPLIES (ctx->maclen == ctx->taglen
	&& G_gu_fed == GCM_FED(ctx) && G_cu_fed == GCM_FED(ctx)
	&& G_gu_ctx == (size_t)&ctx->mac_ctx && G_cu_ctx == (size_t)&ctx->enc_ctx
	&& GCM_CONTENT(G_sk < GCM_FED(ctx) IMPLIES (G_gu_byte == GCM_S(ctx, G_sk) && G_cu_byte == GCM_S(ctx, G_sk)))
	&& GCM_CONTENT(verif_gk < ctx->taglen IMPLIES ctx->mac[verif_gk] == GCM_S(ctx, GCM_FED(ctx) + verif_gk))
	&& G_cu_out0 == (size_t)out && G_cu_chain_ok == 1 && *outlen == G_cu_written
	&& *outlen == ((OLD(ctx->enc_ctx.block_nbytes) + GCM_FED(ctx)) / 16) * 16))
;
#endif

#ifdef GCM_STREAM
/* finish: success only when exactly taglen bytes are held back and they equal MSB_taglen(GHASH xor E_K(J0)) over ALL taglen bytes */
int sm4_gcm_decrypt_finish(SM4_GCM_CTX *ctx, uint8_t *out, size_t *outlen)
REQUIRES(ctx == NULL || (RW_OK(ctx, sizeof(SM4_GCM_CTX)) && ctx->taglen >= GCM_TAG_MIN && ctx->taglen <= GCM_TAG_MAX && ctx->enc_ctx.block_nbytes < 16))
REQUIRES(outlen == NULL || WR_OK(outlen, sizeof(size_t)))
/* the caller provides what a query with out == NULL reports: one block */
REQUIRES(out == NULL || WR_OK(out, 16))
REQUIRES(ctx == NULL || (SEPARATE(ctx, out) && SEPARATE(ctx, outlen)))
REQUIRES(SEPARATE(outlen, out) && verif_gk < 16)
REQUIRES(G_seq == 0 && G_gf_calls == 0 && G_cf_calls == 0 && G_mcmp_calls == 0 && G_x_calls == 0)
ASSIGNS(ctx != NULL: OBJ_UPTO((uint8_t *)ctx, sizeof(SM4_GCM_CTX)); outlen != NULL: OBJ_UPTO((uint8_t *)outlen, sizeof(size_t)); out != NULL: OBJ_UPTO(out, 16);
	G_seq, G_gf_calls, G_gf_out, G_gf_ctx, G_gf_seq, G_cf_calls, G_cf_out, G_cf_len, G_cf_ctx,
	G_mcmp_last, G_mcmp_n, G_mcmp_a, G_mcmp_b, G_mcmp_calls, G_mcmp_ak, G_mcmp_bk, G_mcmp_seq, G_x_r, G_x_calls, G_x_len, G_x_rp)
ENSURES(RET == 1 || RET == -1)
ENSURES((ctx == NULL || outlen == NULL) IMPLIES RET == -1)
ENSURES((RET == 1 && out == NULL) IMPLIES (*outlen == 16 && G_mcmp_calls == 0))
ENSURES((RET == 1 && out != NULL) IMPLIES (OLD(ctx->maclen) == ctx->taglen && ctx->taglen == OLD(ctx->taglen)))
ENSURES((RET == 1 && out != NULL) IMPLIES (G_gf_calls == 1 && G_gf_ctx == (size_t)&ctx->mac_ctx
	&& G_mcmp_calls == 1 && G_mcmp_n == ctx->taglen && G_mcmp_last == 0
	&& ((G_mcmp_b == (size_t)ctx->mac && (verif_gk < ctx->taglen IMPLIES G_mcmp_ak == (uint8_t)(G_gf_out ^ OLD(ctx->Y[verif_gk < 16 ? verif_gk : 0]))))
	 || (G_mcmp_a == (size_t)ctx->mac && (verif_gk < ctx->taglen IMPLIES G_mcmp_bk == (uint8_t)(G_gf_out ^ OLD(ctx->Y[verif_gk < 16 ? verif_gk : 0])))))))
/* the held-back bytes compared are the ones that were held back (not modified before the comparison) */
ENSURES((RET == 1 && out != NULL && verif_gk < ctx->taglen) IMPLIES ((G_mcmp_b == (size_t)ctx->mac ? G_mcmp_bk : G_mcmp_ak) == OLD(ctx->mac[verif_gk < 16 ? verif_gk : 0])))
ENSURES((RET == 1 && out != NULL) IMPLIES (G_cf_calls == 1 && G_cf_out == (size_t)out && *outlen == G_cf_len && *outlen < 16))
/* completeness: a full, matching tag is accepted */
ENSURES((ctx != NULL && outlen != NULL && out != NULL && OLD(ctx->maclen) == OLD(ctx->taglen)) IMPLIES (G_mcmp_calls == 1 && (RET == 1) == (G_mcmp_last == 0)))
;

int sm4_gcm_encrypt_update(SM4_GCM_CTX *ctx, const uint8_t *in, size_t inlen, uint8_t *out, size_t *outlen)
REQUIRES(ctx == NULL || (RW_OK(ctx, sizeof(SM4_GCM_CTX)) && GCM_CTX_OK(ctx)))
REQUIRES(in == NULL || inlen == 0 || RD_OK(in, inlen))
REQUIRES(outlen == NULL || WR_OK(outlen, sizeof(size_t)))
REQUIRES(out == NULL || inlen == 0 || WR_OK(out, GCM_REPORTED(inlen)))
/* in place is allowed only when nothing is buffered (the emitted blocks then never run ahead of the input) */
REQUIRES(out == NULL || in == NULL || inlen == 0 || SEPARATE(in, out) || (in == out && ctx != NULL && ctx->enc_ctx.block_nbytes == 0))
REQUIRES(ctx == NULL || (SEPARATE(ctx, in) && SEPARATE(ctx, out) && SEPARATE(ctx, outlen)))
REQUIRES(SEPARATE(outlen, out) && SEPARATE(outlen, in))
REQUIRES(GCM_STREAM_ZERO && G_sk < ((size_t)1 << 40))
ASSIGNS(ctx != NULL: OBJ_UPTO((uint8_t *)ctx, sizeof(SM4_GCM_CTX)); outlen != NULL: OBJ_UPTO((uint8_t *)outlen, sizeof(size_t));
	out != NULL && inlen != 0: OBJ_WHOLE(out); GCM_STREAM_GHOSTS)
ENSURES(RET == 1 || RET == -1)
ENSURES((ctx == NULL || in == NULL || outlen == NULL) IMPLIES RET == -1)
ENSURES((RET == 1 && out == NULL) IMPLIES (*outlen == GCM_REPORTED(inlen) && G_cu_calls == 0 && G_gu_calls == 0))
ENSURES((RET == 1 && ctx != NULL) IMPLIES (GCM_CTX_OK(ctx) && ctx->taglen == OLD(ctx->taglen) && ctx->maclen == OLD(ctx->maclen)))
/* the plaintext goes to the CTR stream, the CIPHERTEXT that was written (out, *outlen bytes) goes to GHASH, in that order */
ENSURES((RET == 1 && out != NULL) IMPLIES (G_cu_calls == 1 && G_cu_fed == inlen && G_cu_ctx == (size_t)&ctx->enc_ctx && G_cu_out0 == (size_t)out
	&& *outlen == ((OLD(ctx->enc_ctx.block_nbytes) + inlen) / 16) * 16 && *outlen <= GCM_REPORTED(inlen)
	&& G_gu_calls == 1 && G_gu_fed == *outlen && G_gu_ctx == (size_t)&ctx->mac_ctx && G_gu_seq > G_cu_seq
	&& (G_sk < *outlen IMPLIES G_gu_byte == out[G_sk])))
;

int sm4_gcm_encrypt_finish(SM4_GCM_CTX *ctx, uint8_t *out, size_t *outlen)
REQUIRES(ctx == NULL || (RW_OK(ctx, sizeof(SM4_GCM_CTX)) && GCM_CTX_OK(ctx)))
REQUIRES(outlen == NULL || WR_OK(outlen, sizeof(size_t)))
/* the caller provides what a query with out == NULL reports: two blocks */
REQUIRES(out == NULL || WR_OK(out, 32))
REQUIRES(ctx == NULL || (SEPARATE(ctx, out) && SEPARATE(ctx, outlen)))
REQUIRES(SEPARATE(outlen, out) && verif_gk < 16 && G_sk < 16)
REQUIRES(GCM_STREAM_ZERO && G_gf_calls == 0 && G_cf_calls == 0 && G_x_calls == 0)
ASSIGNS(ctx != NULL: OBJ_UPTO((uint8_t *)ctx, sizeof(SM4_GCM_CTX)); outlen != NULL: OBJ_UPTO((uint8_t *)outlen, sizeof(size_t)); out != NULL: OBJ_UPTO(out, 32);
	GCM_STREAM_GHOSTS, G_gf_calls, G_gf_out, G_gf_ctx, G_gf_seq, G_cf_calls, G_cf_out, G_cf_len, G_cf_ctx, G_x_r, G_x_calls, G_x_len, G_x_rp)
ENSURES(RET == 1 || RET == -1)
ENSURES((ctx == NULL || outlen == NULL) IMPLIES RET == -1)
ENSURES((RET == 1 && out == NULL) IMPLIES *outlen == 32)
/* last partial block to `out`, hashed, then tag = MSB_taglen(GHASH xor E_K(J0)) appended */
ENSURES((RET == 1 && out != NULL) IMPLIES (G_cf_calls == 1 && G_cf_out == (size_t)out && G_cf_len < 16
	&& G_gu_calls == 1 && G_gu_fed == G_cf_len && (G_sk < G_cf_len IMPLIES G_gu_byte == out[G_sk])
	&& G_gf_calls == 1 && G_gf_seq > G_gu_seq
	&& *outlen == G_cf_len + ctx->taglen && *outlen <= 32
	&& (verif_gk < ctx->taglen IMPLIES out[G_cf_len + verif_gk] == (uint8_t)(G_gf_out ^ ctx->Y[verif_gk]))))
;

/* init: H = E_K(0^128); GHASH keyed with H over the AAD; J0 as in the one-shot functions; ctx->Y = E_K(J0); counter = inc32(J0) */
int sm4_gcm_encrypt_init(SM4_GCM_CTX *ctx, const uint8_t *key, size_t keylen, const uint8_t *iv, size_t ivlen, const uint8_t *aad, size_t aadlen, size_t taglen)
REQUIRES(ctx == NULL || WR_OK(ctx, sizeof(SM4_GCM_CTX)))
REQUIRES(key == NULL || keylen == 0 || RD_OK(key, keylen))
REQUIRES(iv == NULL || ivlen == 0 || RD_OK(iv, ivlen))
REQUIRES(aad == NULL || aadlen == 0 || RD_OK(aad, aadlen))
REQUIRES(verif_gk < 16 && G_seq == 0 && G_e_calls == 0 && G_gh_calls == 0 && G_gi_calls == 0 && G_ci_calls == 0)
ASSIGNS(ctx != NULL: OBJ_UPTO((uint8_t *)ctx, sizeof(SM4_GCM_CTX)); G_seq, G_e_calls, G_e_in, G_e_out, G_e_in_w3, G_e_key,
	G_gh_calls, G_gh_h, G_gh_aad, G_gh_aadlen, G_gh_c, G_gh_clen, G_gh_out, G_gh_out_w3, G_gh_seq,
	G_gi_calls, G_gi_h, G_gi_aad, G_gi_aadlen, G_gi_ctx, G_ci_calls, G_ci_key, G_ci_ctx)
ENSURES(RET == 1 || RET == -1)
ENSURES(RET == 1 IMPLIES (ctx != NULL && key != NULL && iv != NULL && keylen == 16 && ivlen >= GCM_IV_MIN && ivlen <= GCM_IV_MAX && taglen >= GCM_TAG_MIN && taglen <= GCM_TAG_MAX))
ENSURES((ctx != NULL && key != NULL && iv != NULL && (aad != NULL || aadlen == 0) && keylen == 16 && ivlen >= GCM_IV_MIN && ivlen <= GCM_IV_MAX && taglen >= GCM_TAG_MIN && taglen <= GCM_TAG_MAX) IMPLIES RET == 1)
ENSURES(RET == 1 IMPLIES (ctx->taglen == taglen && ctx->maclen == 0 && ctx->encedlen == 0 && ctx->enc_ctx.block_nbytes == 0))
ENSURES(RET == 1 IMPLIES (G_ci_calls == 1 && G_ci_key == (size_t)key && G_ci_ctx == (size_t)&ctx->enc_ctx
	&& G_e_calls == 2 && G_e_key[0] == (size_t)&ctx->enc_ctx.sm4_key && G_e_key[1] == (size_t)&ctx->enc_ctx.sm4_key && G_e_in[0] == 0
	&& G_gi_calls == 1 && G_gi_h == G_e_out[0] && G_gi_aad == (size_t)aad && G_gi_aadlen == aadlen && G_gi_ctx == (size_t)&ctx->mac_ctx))
ENSURES(RET == 1 IMPLIES (ivlen == 12
	? (G_gh_calls == 0 && G_e_in[1] == (verif_gk < 12 ? iv[verif_gk < 12 ? verif_gk : 0] : (verif_gk == 15 ? 1 : 0)) && G_e_in_w3[1] == 1)
	: (G_gh_calls == 1 && G_gh_h[0] == G_e_out[0] && G_gh_aadlen[0] == 0 && G_gh_c[0] == (size_t)iv && G_gh_clen[0] == ivlen && G_e_in[1] == G_gh_out[0] && G_e_in_w3[1] == G_gh_out_w3[0])))
ENSURES(RET == 1 IMPLIES (ctx->Y[verif_gk] == G_e_out[1] && (verif_gk < 12 IMPLIES ctx->enc_ctx.ctr[verif_gk] == G_e_in[1]) && BE32P(ctx->enc_ctx.ctr + 12) == (uint32_t)(G_e_in_w3[1] + 1u)))
;
#endif
