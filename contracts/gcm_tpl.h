/* Template: contracts for a one-shot GCM implementation (src/sm4_gcm.c sm4_gcm_{en,de}crypt,
 * src/aes_modes.c aes_gcm_{en,de}crypt).  Instantiate with
 *   GCM_KEY_T      SM4_KEY / AES_KEY
 *   GCM_BLK        sm4_encrypt / aes_encrypt            (block cipher, recording contract)
 *   GCM_CTR32      sm4_ctr32_encrypt / aes_ctr32_encrypt (CTR with 32-bit increment, recording)
 *   GCM_CTR32_STATIC  define when GCM_CTR32 is a static function of the source file
 *   GCM_ENCRYPT / GCM_DECRYPT   the functions under contract
 *   GCM_IV_MIN/MAX, GCM_TAG_MIN/MAX, GCM_PT_MAX   the admissible ranges the CODE documents
 *
 * Method (P-TAINT + P-GIDX): the callees are replaced by contracts that write arbitrary bytes
 * and RECORD, at one ghost byte index verif_gk (< 16, arbitrary), what they were given and what
 * they produced.  The top-level postcondition is NIST SP 800-38D section 7 re-stated over that
 * record: H = E_K(0^128); J0 = IV||0^31||1 when len(IV)=96 else GHASH_H(IV); the tag that is
 * compared (written) is MSB_t(E_K(J0) xor GHASH_H(A, C)); the counter stream starts at inc32(J0);
 * decryption returns 1 exactly when the comparison over ALL t bytes said "equal", and the
 * plaintext is produced only after that comparison. */
#include "verif.h"
#include "libc.h"

#ifdef VERIF_CBMC
unsigned G_seq;                                   /* global order of recorded events */
/* block cipher: two calls (H, then E(J0)) */
unsigned G_e_calls; uint8_t G_e_in[2]; uint8_t G_e_out[2]; uint32_t G_e_in_w3[2]; size_t G_e_key[2];
/* ghash: up to two calls (IV when len != 12, then data) */
unsigned G_gh_calls; uint8_t G_gh_h[2]; size_t G_gh_aad[2]; size_t G_gh_aadlen[2]; size_t G_gh_c[2]; size_t G_gh_clen[2];
uint8_t G_gh_out[2]; uint32_t G_gh_out_w3[2]; unsigned G_gh_seq[2];
/* ctr32 stream */
unsigned G_c_calls; uint8_t G_c_ctr; uint32_t G_c_ctr_w3; size_t G_c_in; size_t G_c_inlen; size_t G_c_out; size_t G_c_key; unsigned G_c_seq;
#define OLDBE32_12(p) (((uint32_t)OLD((p)[12]) << 24) | ((uint32_t)OLD((p)[13]) << 16) | ((uint32_t)OLD((p)[14]) << 8) | (uint32_t)OLD((p)[15]))
#define BE32P(p) (((uint32_t)(p)[0] << 24) | ((uint32_t)(p)[1] << 16) | ((uint32_t)(p)[2] << 8) | (uint32_t)(p)[3])
#endif

void GCM_BLK(const GCM_KEY_T *key, const uint8_t in[16], uint8_t out[16])
REQUIRES(RD_OK(key, sizeof(GCM_KEY_T)) && RD_OK(in, 16) && WR_OK(out, 16) && verif_gk < 16)
ASSIGNS(OBJ_UPTO(out, 16), G_e_calls, G_e_in, G_e_out, G_e_in_w3, G_e_key, G_seq)
ENSURES(G_e_calls == OLD(G_e_calls) + 1 && G_seq == OLD(G_seq) + 1)
ENSURES(OLD(G_e_calls) == 0 IMPLIES (G_e_in[0] == OLD(in[verif_gk < 16 ? verif_gk : 0]) && G_e_out[0] == out[verif_gk] && G_e_in_w3[0] == OLDBE32_12(in) && G_e_key[0] == (size_t)key
	&& G_e_in[1] == OLD(G_e_in[1]) && G_e_out[1] == OLD(G_e_out[1]) && G_e_in_w3[1] == OLD(G_e_in_w3[1]) && G_e_key[1] == OLD(G_e_key[1])))
ENSURES(OLD(G_e_calls) == 1 IMPLIES (G_e_in[1] == OLD(in[verif_gk < 16 ? verif_gk : 0]) && G_e_out[1] == out[verif_gk] && G_e_in_w3[1] == OLDBE32_12(in) && G_e_key[1] == (size_t)key
	&& G_e_in[0] == OLD(G_e_in[0]) && G_e_out[0] == OLD(G_e_out[0]) && G_e_in_w3[0] == OLD(G_e_in_w3[0]) && G_e_key[0] == OLD(G_e_key[0])))
;

void ghash(const uint8_t h[16], const uint8_t *aad, size_t aadlen, const uint8_t *c, size_t clen, uint8_t out[16])
REQUIRES(RD_OK(h, 16) && WR_OK(out, 16) && verif_gk < 16)
REQUIRES(aadlen == 0 || RD_OK(aad, aadlen))
REQUIRES(clen == 0 || RD_OK(c, clen))
ASSIGNS(OBJ_UPTO(out, 16), G_gh_calls, G_gh_h, G_gh_aad, G_gh_aadlen, G_gh_c, G_gh_clen, G_gh_out, G_gh_out_w3, G_gh_seq, G_seq)
ENSURES(G_gh_calls == OLD(G_gh_calls) + 1 && G_seq == OLD(G_seq) + 1)
ENSURES(OLD(G_gh_calls) == 0 IMPLIES (G_gh_h[0] == OLD(h[verif_gk < 16 ? verif_gk : 0]) && G_gh_aad[0] == (size_t)aad && G_gh_aadlen[0] == aadlen && G_gh_c[0] == (size_t)c && G_gh_clen[0] == clen
	&& G_gh_out[0] == out[verif_gk] && G_gh_out_w3[0] == BE32P(out + 12) && G_gh_seq[0] == G_seq
	&& G_gh_h[1] == OLD(G_gh_h[1]) && G_gh_aad[1] == OLD(G_gh_aad[1]) && G_gh_aadlen[1] == OLD(G_gh_aadlen[1]) && G_gh_c[1] == OLD(G_gh_c[1]) && G_gh_clen[1] == OLD(G_gh_clen[1])
	&& G_gh_out[1] == OLD(G_gh_out[1]) && G_gh_out_w3[1] == OLD(G_gh_out_w3[1]) && G_gh_seq[1] == OLD(G_gh_seq[1])))
ENSURES(OLD(G_gh_calls) == 1 IMPLIES (G_gh_h[1] == OLD(h[verif_gk < 16 ? verif_gk : 0]) && G_gh_aad[1] == (size_t)aad && G_gh_aadlen[1] == aadlen && G_gh_c[1] == (size_t)c && G_gh_clen[1] == clen
	&& G_gh_out[1] == out[verif_gk] && G_gh_out_w3[1] == BE32P(out + 12) && G_gh_seq[1] == G_seq
	&& G_gh_h[0] == OLD(G_gh_h[0]) && G_gh_aad[0] == OLD(G_gh_aad[0]) && G_gh_aadlen[0] == OLD(G_gh_aadlen[0]) && G_gh_c[0] == OLD(G_gh_c[0]) && G_gh_clen[0] == OLD(G_gh_clen[0])
	&& G_gh_out[0] == OLD(G_gh_out[0]) && G_gh_out_w3[0] == OLD(G_gh_out_w3[0]) && G_gh_seq[0] == OLD(G_gh_seq[0])))
;

#ifdef GCM_CTR32_STATIC
static
#endif
void GCM_CTR32(const GCM_KEY_T *key, uint8_t ctr[16], const uint8_t *in, size_t inlen, uint8_t *out)
REQUIRES(RD_OK(key, sizeof(GCM_KEY_T)) && RW_OK(ctr, 16) && verif_gk < 16)
REQUIRES(inlen == 0 || (RD_OK(in, inlen) && WR_OK(out, inlen)))
ASSIGNS(OBJ_UPTO(ctr, 16); inlen != 0: OBJ_UPTO(out, inlen); G_c_calls, G_c_ctr, G_c_ctr_w3, G_c_in, G_c_inlen, G_c_out, G_c_key, G_c_seq, G_seq)
ENSURES(G_c_calls == OLD(G_c_calls) + 1 && G_seq == OLD(G_seq) + 1 && G_c_seq == G_seq)
ENSURES(G_c_ctr == OLD(ctr[verif_gk < 16 ? verif_gk : 0]) && G_c_ctr_w3 == OLDBE32_12(ctr) && G_c_in == (size_t)in && G_c_inlen == inlen && G_c_out == (size_t)out && G_c_key == (size_t)key)
;

/* ---- the specification (SP 800-38D 7.1 / 7.2) over the record ---- */
#ifdef VERIF_CBMC
/* index of the data GHASH call: 0 when the IV is 96 bits (no IV hash), else 1 */
#define GCM_D(ivlen)  ((ivlen) == 12 ? 0 : 1)
#define GCM_J0_OK(iv, ivlen) ( \
	G_e_calls == 2 && G_e_key[0] == (size_t)key && G_e_key[1] == (size_t)key \
	&& G_e_in[0] == 0                                           /* H = E_K(0^128) */ \
	&& G_gh_calls == (unsigned)GCM_D(ivlen) + 1 \
	&& ((ivlen) == 12 \
		? (G_e_in[1] == (verif_gk < 12 ? (iv)[verif_gk < 12 ? verif_gk : 0] : (verif_gk == 15 ? 1 : 0)) && G_e_in_w3[1] == 1) \
		: (G_gh_h[0] == G_e_out[0] && G_gh_aadlen[0] == 0 && G_gh_c[0] == (size_t)(iv) && G_gh_clen[0] == (ivlen) \
		   && G_e_in[1] == G_gh_out[0] && G_e_in_w3[1] == G_gh_out_w3[0])))
#define GCM_DATA_HASH_OK(ivlen, aad, aadlen, c, clen) ( \
	G_gh_h[GCM_D(ivlen)] == G_e_out[0] && G_gh_aad[GCM_D(ivlen)] == (size_t)(aad) && G_gh_aadlen[GCM_D(ivlen)] == (aadlen) \
	&& G_gh_c[GCM_D(ivlen)] == (size_t)(c) && G_gh_clen[GCM_D(ivlen)] == (clen))
#define GCM_STREAM_OK(in, inlen, out) ( \
	G_c_calls == 1 && G_c_key == (size_t)key && G_c_in == (size_t)(in) && G_c_inlen == (inlen) && G_c_out == (size_t)(out) \
	&& (verif_gk < 12 IMPLIES G_c_ctr == G_e_in[1]) && G_c_ctr_w3 == (uint32_t)(G_e_in_w3[1] + 1u))   /* inc32(J0) */
#define GCM_LENGTHS_OK(ivlen, taglen, inlen) \
	((ivlen) >= GCM_IV_MIN && (ivlen) <= GCM_IV_MAX && (taglen) >= GCM_TAG_MIN && (taglen) <= GCM_TAG_MAX && (inlen) <= GCM_PT_MAX)
#endif

int GCM_DECRYPT(const GCM_KEY_T *key, const uint8_t *iv, size_t ivlen,
	const uint8_t *aad, size_t aadlen, const uint8_t *in, size_t inlen,
	const uint8_t *tag, size_t taglen, uint8_t *out)
REQUIRES(RD_OK(key, sizeof(GCM_KEY_T)) && verif_gk < 16)
REQUIRES(ivlen == 0 || RD_OK(iv, ivlen))
REQUIRES(aadlen == 0 || RD_OK(aad, aadlen))
REQUIRES(inlen == 0 || (RD_OK(in, inlen) && WR_OK(out, inlen)))
REQUIRES(taglen == 0 || RD_OK(tag, taglen))
REQUIRES(G_seq == 0 && G_e_calls == 0 && G_gh_calls == 0 && G_c_calls == 0 && G_mcmp_calls == 0 && G_x_calls == 0)
ASSIGNS(inlen != 0: OBJ_UPTO(out, inlen); G_seq, G_e_calls, G_e_in, G_e_out, G_e_in_w3, G_e_key,
	G_gh_calls, G_gh_h, G_gh_aad, G_gh_aadlen, G_gh_c, G_gh_clen, G_gh_out, G_gh_out_w3, G_gh_seq,
	G_c_calls, G_c_ctr, G_c_ctr_w3, G_c_in, G_c_inlen, G_c_out, G_c_key, G_c_seq,
	G_mcmp_last, G_mcmp_n, G_mcmp_a, G_mcmp_b, G_mcmp_calls, G_mcmp_ak, G_mcmp_bk, G_mcmp_seq, G_x_r, G_x_calls, G_x_len, G_x_rp)
ENSURES(RET == 1 || RET == -1)
/* success only for admissible lengths ... */
ENSURES(RET == 1 IMPLIES GCM_LENGTHS_OK(ivlen, taglen, inlen))
/* ... with H and J0 derived as the standard says ... */
ENSURES(RET == 1 IMPLIES GCM_J0_OK(iv, ivlen))
/* ... the tag recomputed over exactly (AAD, ciphertext) ... */
ENSURES(RET == 1 IMPLIES GCM_DATA_HASH_OK(ivlen, aad, aadlen, in, inlen))
/* ... compared with the received tag over all taglen bytes, and found equal:
   the compared value at every index gk < taglen is E_K(J0)[gk] xor GHASH[gk] */
ENSURES(RET == 1 IMPLIES (G_mcmp_calls == 1 && G_mcmp_n == taglen && G_mcmp_last == 0
	&& ((G_mcmp_b == (size_t)tag && (verif_gk < taglen IMPLIES G_mcmp_ak == (uint8_t)(G_e_out[1] ^ G_gh_out[GCM_D(ivlen)])))
	 || (G_mcmp_a == (size_t)tag && (verif_gk < taglen IMPLIES G_mcmp_bk == (uint8_t)(G_e_out[1] ^ G_gh_out[GCM_D(ivlen)]))))))
/* ... and the plaintext produced from inc32(J0) only AFTER the comparison */
ENSURES(RET == 1 IMPLIES (GCM_STREAM_OK(in, inlen, out) && G_c_seq > G_mcmp_seq))
/* failure: no keystream was applied at all (no unauthenticated plaintext) */
ENSURES(RET != 1 IMPLIES G_c_calls == 0)
/* completeness: admissible lengths and an equal tag are accepted (the untouched output of encryption decrypts) */
ENSURES((GCM_LENGTHS_OK(ivlen, taglen, inlen) && G_mcmp_calls == 1 && G_mcmp_last == 0) IMPLIES RET == 1)
ENSURES(GCM_LENGTHS_OK(ivlen, taglen, inlen) IMPLIES G_mcmp_calls == 1)
;

int GCM_ENCRYPT(const GCM_KEY_T *key, const uint8_t *iv, size_t ivlen,
	const uint8_t *aad, size_t aadlen, const uint8_t *in, size_t inlen,
	uint8_t *out, size_t taglen, uint8_t *tag)
REQUIRES(RD_OK(key, sizeof(GCM_KEY_T)) && verif_gk < 16)
REQUIRES(ivlen == 0 || RD_OK(iv, ivlen))
REQUIRES(aadlen == 0 || RD_OK(aad, aadlen))
REQUIRES(inlen == 0 || (RD_OK(in, inlen) && WR_OK(out, inlen)))
REQUIRES(taglen == 0 || WR_OK(tag, taglen))
REQUIRES(G_seq == 0 && G_e_calls == 0 && G_gh_calls == 0 && G_c_calls == 0 && G_x_calls == 0)
ASSIGNS(inlen != 0: OBJ_UPTO(out, inlen); taglen != 0: OBJ_UPTO(tag, taglen); G_seq, G_e_calls, G_e_in, G_e_out, G_e_in_w3, G_e_key,
	G_gh_calls, G_gh_h, G_gh_aad, G_gh_aadlen, G_gh_c, G_gh_clen, G_gh_out, G_gh_out_w3, G_gh_seq,
	G_c_calls, G_c_ctr, G_c_ctr_w3, G_c_in, G_c_inlen, G_c_out, G_c_key, G_c_seq, G_x_r, G_x_calls, G_x_len, G_x_rp)
ENSURES(RET == 1 || RET == -1)
ENSURES(RET == 1 IMPLIES GCM_LENGTHS_OK(ivlen, taglen, inlen))
ENSURES(GCM_LENGTHS_OK(ivlen, taglen, inlen) IMPLIES RET == 1)
ENSURES(RET == 1 IMPLIES GCM_J0_OK(iv, ivlen))
/* the hash covers the ciphertext that was WRITTEN (out), after the stream produced it */
ENSURES(RET == 1 IMPLIES (GCM_STREAM_OK(in, inlen, out) && GCM_DATA_HASH_OK(ivlen, aad, aadlen, out, inlen) && G_gh_seq[GCM_D(ivlen)] > G_c_seq))
/* tag = MSB_taglen(E_K(J0) xor GHASH) */
ENSURES(RET == 1 IMPLIES (G_x_calls == 1 && G_x_len == taglen && G_x_rp == (size_t)tag
	&& (verif_gk < taglen IMPLIES tag[verif_gk] == (uint8_t)(G_e_out[1] ^ G_gh_out[GCM_D(ivlen)]))))
;
