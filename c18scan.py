#!/usr/bin/env python3
"""C18 supporting static fact (call-site obligation of the fail-closed contracts): every call of a function whose contract
says "on a return value other than 1 the output is unspecified" (the entropy gateway and what is built on it) must have its
result tested against 1 before the caller goes on.  The functions' own fail-closed behaviour is proved by the C18 contract
jobs; this scan closes the modular gap at call sites the contract jobs do not reach (handshake drivers etc.).
Reads the goto program of every library TU of the default configuration (rebuilt from VERIF_REPO on every run):
  CALL f(args)                      -> result ignored                      -> finding
  CALL tmp := f(args) ; next use of tmp compares with something other than 1 (e.g. `!f()`) -> finding
Not a proof about data flow after the test; a sufficient syntactic condition, like c20scan."""
import sys, os, re, json, subprocess, tempfile, shutil
from concurrent.futures import ThreadPoolExecutor
sys.path.insert(0, os.path.dirname(os.path.abspath(__file__)))
import verif

FAIL_CLOSED = ["rand_bytes", "sm2_z256_rand_range", "sm9_z256_rand_range", "sm2_key_generate", "sm2_fast_sign_pre_compute",
               "tls_random_generate", "tls_pre_master_secret_generate", "tls13_padding_len_rand", "sm9_z256_fn_rand",
               "sm2_encrypt_pre_compute", "sm9_sign_master_key_generate", "sm9_enc_master_key_generate"]

def scan_file(args):
    src, wd = args
    gb = os.path.join(wd, src.replace("/", "_") + ".gb")
    _, defs = verif.cfg()
    p = subprocess.run(["goto-cc", "-I" + os.path.join(verif.REPO, "include")] + defs + ["-c", os.path.join(verif.REPO, src), "-o", gb],
                       stdout=subprocess.PIPE, stderr=subprocess.STDOUT)
    if p.returncode != 0:
        return src, None, p.stdout.decode("utf-8", "replace")[-300:]
    gf = subprocess.run(["goto-instrument", "--show-goto-functions", gb], stdout=subprocess.PIPE, stderr=subprocess.DEVNULL).stdout.decode("utf-8", "replace")
    os.remove(gb)
    lines = gf.splitlines()
    out = []
    loc = ""
    for i, line in enumerate(lines):
        m = re.match(r"^\s+// \d+ file (\S+) line (\d+) function (\S+)", line)
        if m:
            loc = (os.path.relpath(m.group(1), verif.REPO), int(m.group(2)), m.group(3))
            continue
        m = re.match(r"^\s+CALL (?:(\S+) := )?([A-Za-z_]\w*)\(", line)
        if not m or m.group(2) not in FAIL_CLOSED:
            continue
        tmp, f = m.group(1), m.group(2)
        if not tmp:
            out.append({"file": loc[0], "line": loc[1], "function": loc[2], "callee": f, "why": "result ignored"})
            continue
        # next instruction that mentions tmp
        use = ""
        for l in lines[i + 1:i + 40]:
            if tmp in l and not l.lstrip().startswith("//"):
                use = l.strip()
                break
        ok = re.search(re.escape(tmp) + r"\s*(≠|=|!=|==)\s*1\b", use) or re.search(r"\b1\s*(≠|=|!=|==)\s*" + re.escape(tmp), use) \
            or re.search(r"(RETURN|return|SET RETURN VALUE)\s+" + re.escape(tmp), use) or re.search(r":= " + re.escape(tmp) + r"$", use)
        if not ok:
            out.append({"file": loc[0], "line": loc[1], "function": loc[2], "callee": f, "why": "result not compared with 1: " + use[:120]})
    return src, out, ""

# ---- second rule (C04): call sites of the streaming DECRYPTORS whose output lags their input (held-back block / tag).
# Their contracts require SEPARATE(in, out); a call that passes the same expression for both violates it.
LAGGING_DECRYPTORS = {"sm4_cbc_decrypt_update": (1, 3), "sm4_gcm_decrypt_update": (1, 3), "sm4_cbc_sm3_hmac_decrypt_update": (1, 3),
                      "sm4_ctr_sm3_hmac_decrypt_update": (1, 3)}

def split_args(a):
    out, depth, cur = [], 0, ""
    for ch in a:
        if ch in "([": depth += 1
        if ch in ")]": depth -= 1
        if ch == "," and depth == 0:
            out.append(cur.strip()); cur = ""
        else:
            cur += ch
    out.append(cur.strip())
    return out

def scan_inplace_file(args):
    src, wd = args
    gb = os.path.join(wd, src.replace("/", "_") + ".gb")
    _, defs = verif.cfg()
    p = subprocess.run(["goto-cc", "-I" + os.path.join(verif.REPO, "include")] + defs + ["-c", os.path.join(verif.REPO, src), "-o", gb],
                       stdout=subprocess.PIPE, stderr=subprocess.STDOUT)
    if p.returncode != 0:
        return src, None, p.stdout.decode("utf-8", "replace")[-300:]
    gf = subprocess.run(["goto-instrument", "--show-goto-functions", gb], stdout=subprocess.PIPE, stderr=subprocess.DEVNULL).stdout.decode("utf-8", "replace")
    os.remove(gb)
    out, loc = [], ("", 0, "")
    for line in gf.splitlines():
        m = re.match(r"^\s+// \d+ file (\S+) line (\d+) function (\S+)", line)
        if m:
            loc = (os.path.relpath(m.group(1), verif.REPO), int(m.group(2)), m.group(3))
            continue
        m = re.match(r"^\s+CALL (?:\S+ := )?([A-Za-z_]\w*)\((.*)\)\s*$", line)
        if m and m.group(1) in LAGGING_DECRYPTORS:
            i, o = LAGGING_DECRYPTORS[m.group(1)]
            a = split_args(m.group(2))
            if len(a) > max(i, o) and a[i] == a[o]:
                out.append({"file": loc[0], "line": loc[1], "function": loc[2], "callee": m.group(1), "why": "in and out are the same object: " + a[i][:80]})
    return src, out, ""

def run_inplace_scan():
    import glob
    src, _ = verif.cfg()
    tools = [os.path.relpath(t, verif.REPO) for t in sorted(glob.glob(os.path.join(verif.REPO, "tools", "*.c")))]
    os.makedirs(verif.WORKROOT, exist_ok=True)
    wd = tempfile.mkdtemp(prefix="c04scan.", dir=verif.WORKROOT)
    try:
        with ThreadPoolExecutor(verif.NCPU) as ex:
            rs = list(ex.map(scan_inplace_file, [(s, wd) for s in src + tools]))
    finally:
        shutil.rmtree(wd, ignore_errors=True)
    findings, errors = [], []
    for s_, o, err in rs:
        if o is None:
            # tools that need optional components may not compile in the default configuration: not an error of the scan
            if s_.startswith("src/"):
                errors.append({"file": s_, "error": err})
        else:
            findings += o
    return {"files": len(rs), "callees": sorted(LAGGING_DECRYPTORS), "findings": findings, "errors": errors}

# ---- third rule (C06): results of the wire-format / DER readers must not be ignored (a failed read leaves the window and
# the outputs unchanged: the caller then loops forever or uses uninitialised outputs).  Print routines are excluded: their loops
# run over lengths already validated as multiples of the element size.
READERS = ["tls_uint8_from_bytes", "tls_uint16_from_bytes", "tls_uint24_from_bytes", "tls_uint32_from_bytes", "tls_array_from_bytes",
           "tls_uint8array_from_bytes", "tls_uint16array_from_bytes", "tls_uint24array_from_bytes", "tls_ext_from_bytes", "tls_record_get_handshake",
           "sm2_z256_point_from_octets", "sm2_z256_point_from_bytes", "x509_cert_from_der", "asn1_length_from_der", "asn1_sequence_from_der",
           "asn1_integer_from_der_ex", "asn1_type_from_der", "asn1_any_from_der", "x509_cert_get_subject_public_key", "x509_certs_get_cert_by_index"]
READER_EXCLUDED_FILES = ("src/tls_trace.c",)
# (file, function, callee): second pass of a two-pass encoder over the caller's own, already validated, list
READER_EXCLUDED_SITES = {("src/tls_ext.c", "tls13_certificate_authorities_ext_to_bytes", "asn1_type_from_der")}

def run_reader_scan():
    saved = list(FAIL_CLOSED)
    try:
        FAIL_CLOSED[:] = READERS
        r = run_scan()
    finally:
        FAIL_CLOSED[:] = saved
    r["findings"] = [f for f in r["findings"] if f["why"] == "result ignored" and f["file"] not in READER_EXCLUDED_FILES
                     and (f["file"], f["function"], f["callee"]) not in READER_EXCLUDED_SITES]
    r["callees"] = READERS
    return r

def run_scan():
    src, _ = verif.cfg()
    os.makedirs(verif.WORKROOT, exist_ok=True)
    wd = tempfile.mkdtemp(prefix="c18scan.", dir=verif.WORKROOT)
    try:
        with ThreadPoolExecutor(verif.NCPU) as ex:
            rs = list(ex.map(scan_file, [(s, wd) for s in src]))
    finally:
        shutil.rmtree(wd, ignore_errors=True)
    findings, errors = [], []
    for s, o, err in rs:
        if o is None:
            errors.append({"file": s, "error": err})
        else:
            findings += o
    return {"files": len(rs), "callees": FAIL_CLOSED, "findings": findings, "errors": errors}

if __name__ == "__main__":
    r = run_inplace_scan() if len(sys.argv) > 1 and sys.argv[1] == "inplace" else run_scan()
    print(json.dumps(r, indent=1))
