#!/usr/bin/env python3
"""Regenerate MANIFEST.json from props_meta.json, not_applicable.json and the job table."""
import json, os, sys
sys.path.insert(0, os.path.dirname(os.path.abspath(__file__)))
import verif
V = verif.VERIF
meta = json.load(open(os.path.join(V, "props_meta.json")))
na = json.load(open(os.path.join(V, "not_applicable.json")))
jobs = verif.parse_jobs()
props = [json.loads(l)["id"] for l in open(os.path.join(V, "properties.jsonl"))]
checks = []
for p in props:
    if p not in meta:
        continue
    if not any(p in j.props for j in jobs):
        raise SystemExit("property %s claimed but has no jobs" % p)
    m = meta[p]
    checks.append({
        "property_id": p,
        "quick_cmd": "python3 verif.py check %s --tier quick" % p,
        "thorough_cmd": "python3 verif.py check %s --tier thorough" % p,
        "evidence_file": "/verif/evidence/%s.json" % p,
        "replay_cmd_template": "python3 verif.py replay {path}",
        "engine": "cbmc-dfcc",
        "level_claimed": {"category": m["category"], "text": m["text"], "design_ref": m["design_ref"]},
        "level_note": m["level_note"],
        "technique": m["technique"],
    })
for p in props:
    if p not in meta and p not in [x["property_id"] for x in na]:
        raise SystemExit("property %s neither claimed nor not_applicable" % p)
import subprocess
hooks_commits = {"source_commits": [l.split()[0] for l in subprocess.run(["git", "-C", "/repo", "log", "--format=%h %s"], capture_output=True, text=True).stdout.splitlines() if " verif hook:" in " " + l or " verif hooks:" in " " + l]}
man = {
    "version": 1,
    "setup_cmd": "mkdir -p /verif/evidence && python3 -m py_compile /verif/verif.py",
    "hooks": {
        "guard": "GUANZHI_GMSSL_VERIF",
        "enable": "goto-cc -DVERIF_CBMC -DGUANZHI_GMSSL_VERIF (loop-contract macros of include/gmssl/verif.h expand to __CPROVER_* clauses; with the guard off they expand to nothing). Not strictly add-only: annotating a loop moves its opening brace to its own line (`while (c) {` becomes `while (c)` + clauses + `{`); no other existing token changes.",
        "baseline_off_cmd": "cmake -G Ninja -B /repo/_build -S /repo && cmake --build /repo/_build && ctest --test-dir /repo/_build -j8 --timeout 900",
        "source_commits": hooks_commits["source_commits"],
        "add_only": False,
    },
    "engines": [{"name": "cbmc-dfcc", "path": "/verif/verif.py",
                 "serves_properties": [c["property_id"] for c in checks],
                 "kind_free_text": "CBMC 6.11 code contracts enforced per function with goto-instrument --dfcc on the real GmSSL source files; Python driver, vacuity canaries, counterexample extraction and native ASan/UBSan replay"}],
    "checks": checks,
    "not_applicable": [x for x in na if x["property_id"] not in meta],
    "notes": "exit 0 = all obligations discharged; 1 = VIOLATION (failed obligation + counterexample/replay); 2 = UNDECIDED (timeout/tool failure/vacuity guard) — never reported as a violation. See DESIGN.md.",
}
json.dump(man, open(os.path.join(V, "MANIFEST.json"), "w"), indent=1)
print("claimed:", [c["property_id"] for c in checks])
print("not_applicable:", [x["property_id"] for x in man["not_applicable"]])
