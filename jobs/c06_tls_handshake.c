/* C06 — handshake-message parsers that copy peer data into fixed-size buffers (src/tls.c) */
#include "tls_handshake.h"
#include "src/tls.c"
#include "stubs_stdio.h"
typedef struct { uint8_t first[32]; size_t len; } hs_in;
DECL_INPUT(hs_in);

/* every record length; destination of exactly the capacity the callers provide */
//@job name=tls_record_get_handshake_certificate props=C06 enforce=tls_record_get_handshake_certificate replace=tls_record_get_handshake,tls_uint24array_from_bytes,x509_cert_from_der,asn1_length_is_zero,x509_cert_to_der unwindset=tls_record_get_handshake_certificate.*:3 partial=1 bounded=at-most-2-certificates-in-the-message(loop-unwound-twice,no-unwinding-assertion) timeout=900
void h_tls_record_get_handshake_certificate(void)
{
	INPUT(hs_in, H); ASSUME(H.len >= 5 && H.len <= 5 + 16384);
	MKBUF(record, H.first, H.len); ASSUME(((((size_t)record[3]) << 8) | record[4]) + 5 == H.len);
	MKOUT(certs, TLS_MAX_CERTIFICATES_SIZE); size_t *certslen = malloc(sizeof(size_t)); ASSUME(certslen != NULL);
	int ret = tls_record_get_handshake_certificate(record, certs, certslen);
	if (ret == 1) { CANARY("parsed"); if (*certslen > 0) CANARY("copied"); }
	CANARY("returned");
}
