/* C06 — TLS 1.3 server: ClientHello extension processing (src/tls13.c) never writes more than server_exts_maxlen bytes */
#define CONTRACT_TLS13_HELLO_EXTS
#include "tls13_keyshare.h"
#include "src/tls13.c"
#include "stubs_stdio.h"
typedef struct { uint8_t first[32]; size_t len, maxlen; } t13x_in;
DECL_INPUT(t13x_in);
/* unknown extensions are skipped, so the walk has no fixed bound: bounded stand-in, at most 4 extensions in the block */
//@job name=tls13_process_client_hello_exts props=C06 enforce=tls13_process_client_hello_exts replace=tls_uint16_from_bytes,tls_uint16array_from_bytes,tls13_process_client_supported_versions,tls13_process_client_key_share,tls13_server_key_share_ext_to_bytes unwindset=tls13_process_client_hello_exts.*:5 partial=1 bounded=at-most-4-extensions-in-the-block(no-unwinding-assertion) timeout=900 native=0
void h_tls13_process_client_hello_exts(void)
{
	INPUT(t13x_in, H); ASSUME(H.len <= 65535 && H.maxlen <= 600);
	MKBUF(exts, H.first, H.len); MKOUT(out, H.maxlen); size_t *outlen = malloc(sizeof(size_t)); ASSUME(outlen != NULL);
	SM2_KEY *key = malloc(sizeof *key); SM2_Z256_POINT *pt = malloc(sizeof *pt); ASSUME(key && pt);
	int ret = tls13_process_client_hello_exts(exts, H.len, key, pt, out, outlen, H.maxlen);
	if (ret == 1) { CANARY("processed"); if (*outlen == 79) CANARY("both"); }
	CANARY("returned");
}
