/* C05 — SM4-CTR + SM3-HMAC streaming AEAD (src/sm4_ctr_sm3_hmac.c) */
#define G_MC_EXPR verif_gk
#define CONTRACT_MEMCMP_RECORDING
#define CONTRACT_MEMCMP_SEQ
#define CONTRACT_SECURE_MEMCMP_RECORDING
#include <gmssl/sm4.h>
#include <gmssl/sm4_ctr_sm3_hmac.h>
#define AE_CTX_T SM4_CTR_SM3_HMAC_CTX
#define AE_ENC_CTX_T SM4_CTR_CTX
#define AE(n) sm4_ctr_sm3_hmac_##n
#define AE_DEC_INIT sm4_ctr_encrypt_init
#define AE_DEC_FINISH sm4_ctr_encrypt_finish
#define AE_DEC_FINISH_MAXOUT 16
#define AE_DEC_UPDATE sm4_ctr_encrypt_update
#define AE_WITH_UPDATE
#define AE_NO_CONTENT
#include "hmac_aead_tpl.h"
#include "src/sm4_ctr_sm3_hmac.c"
#include "stubs_stdio.h"
#include "c05_hmac_aead_harness.h"

//@job name=sm4_ctr_sm3_hmac_decrypt_init props=C05 enforce=sm4_ctr_sm3_hmac_decrypt_init replace=sm4_ctr_encrypt_init,sm3_hmac_init,sm3_hmac_update timeout=600
void h_sm4_ctr_sm3_hmac_decrypt_init(void) { AE_H_INIT(sm4_ctr_sm3_hmac_decrypt_init) }
/* the nonce-binding clause alone: fails on the current tree (recorded finding) */
//@job name=sm4_ctr_sm3_hmac_decrypt_init_ivbind props=C05 enforce=sm4_ctr_sm3_hmac_decrypt_init replace=sm4_ctr_encrypt_init,sm3_hmac_init,sm3_hmac_update timeout=600 defs=-DAE_IV_CLAUSE_ONLY harness=h_sm4_ctr_sm3_hmac_decrypt_init
//@job name=sm4_ctr_sm3_hmac_decrypt_finish props=C05 enforce=sm4_ctr_sm3_hmac_decrypt_finish replace=sm3_hmac_finish,sm4_ctr_encrypt_finish,memcmp,gmssl_secure_memcmp timeout=600
void h_sm4_ctr_sm3_hmac_decrypt_finish(void) { AE_H_FINISH(sm4_ctr_sm3_hmac_decrypt_finish) }

typedef struct { SM4_CTR_SM3_HMAC_CTX ctx; uint8_t in[32]; size_t inlen, sk; uint8_t gk, mode; } aeu_in;
DECL_INPUT(aeu_in);
/* lengths / hold-back bookkeeping / memory safety / reported sizes (byte content of the released stream: not claimed) */
//@job name=sm4_ctr_sm3_hmac_decrypt_update props=C05,C04 enforce=sm4_ctr_sm3_hmac_decrypt_update replace=sm3_hmac_update,sm4_ctr_encrypt_update,memcpy unwind=40 timeout=2400 tier=thorough bounded=input-chunk<=70-bytes(loop-free-function)
void h_sm4_ctr_sm3_hmac_decrypt_update(void)
{
	INPUT(aeu_in, U); ASSUME(U.inlen <= 70); GK_BIND(U.gk, U.sk)
	SM4_CTR_SM3_HMAC_CTX *ctx = malloc(sizeof *ctx); ASSUME(ctx != NULL); *ctx = U.ctx;
	ASSUME(ctx->maclen <= 32 && ctx->enc_ctx.block_nbytes < 16);
	MKBUF(in, U.in, U.inlen); size_t cap = 16 * ((U.inlen + 15) / 16); MKOUT(out, cap);
	size_t *outlen = malloc(sizeof(size_t)); ASSUME(outlen != NULL);
	int ret = sm4_ctr_sm3_hmac_decrypt_update((U.mode & 1) ? NULL : ctx, (U.mode & 2) ? NULL : in, U.inlen, (U.mode & 4) ? NULL : out, (U.mode & 8) ? NULL : outlen);
	OBSERVE_INT("ret", ret);
	NATIVE(if (ret == 1 && !(U.mode & 15)) { OBSERVE_INT("maclen", ctx->maclen); NCHECK(ctx->maclen == (U.ctx.maclen + U.inlen < 32 ? U.ctx.maclen + U.inlen : 32), "held-back byte count == min(32, held before + chunk length)"); })
	if (ret == 1) { CANARY("updated"); if (U.ctx.maclen + U.inlen <= 32) CANARY("all-held-back"); else if (U.inlen > 32) CANARY("bulk"); else CANARY("rotate"); }
	CANARY("returned");
}
