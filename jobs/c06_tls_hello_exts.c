/* C06 — server-side ClientHello extension processing (src/tls_ext.c): never more than maxlen bytes of response */
#define CONTRACT_TLS_HELLO_EXTS
#include "tls_handshake.h"
#include "src/tls_ext.c"
#include "stubs_stdio.h"
typedef struct { uint8_t first[32]; size_t len, maxlen; } he_in;
DECL_INPUT(he_in);
/* three recognised extension types, each admitted once: a fifth loop iteration cannot be reached without an error return, so
   five unwindings with unwinding assertions are complete */
//@job name=tls_process_client_hello_exts props=C06 enforce=tls_process_client_hello_exts replace=tls_ext_from_bytes,tls_process_client_ec_point_formats,tls_process_client_signature_algorithms,tls_process_client_supported_groups unwindset=tls_process_client_hello_exts.*:6 timeout=900
void h_tls_process_client_hello_exts(void)
{
	INPUT(he_in, H); ASSUME(H.len <= 65535 && H.maxlen <= 600);
	MKBUF(exts, H.first, H.len); MKOUT(out, H.maxlen); size_t *outlen = malloc(sizeof(size_t)); ASSUME(outlen != NULL); *outlen = 0;
	int ret = tls_process_client_hello_exts(exts, H.len, out, outlen, H.maxlen);
	if (ret == 1) { CANARY("processed"); if (*outlen == 22) CANARY("all-three"); }
	CANARY("returned");
}
