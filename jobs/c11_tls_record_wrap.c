/* C11 / C06 — record wrappers of src/tls.c (tls_record_encrypt / tls_record_decrypt) */
#include "tls_record_wrap.h"
#include "src/tls.c"
#include "stubs_stdio.h"
typedef struct { uint8_t seq[8]; uint8_t first[32]; size_t inlen; } wr_in;
DECL_INPUT(wr_in);
#define WR_SETUP(maxin) \
	INPUT(wr_in, R); ASSUME(R.inlen >= 5 && R.inlen <= (maxin)); \
	SM3_HMAC_CTX *hctx = malloc(sizeof(SM3_HMAC_CTX)); SM4_KEY *key = malloc(sizeof(SM4_KEY)); ASSUME(hctx != NULL && key != NULL); \
	MKBUF(in, R.first, R.inlen); uint8_t *seq = malloc(8); ASSUME(seq != NULL); memcpy(seq, R.seq, 8); \
	size_t *outlen = malloc(sizeof(size_t)); ASSUME(outlen != NULL);

//@job name=tls_record_decrypt props=C11,C06 enforce=tls_record_decrypt replace=tls_cbc_decrypt timeout=600 native=0
void h_tls_record_decrypt(void)
{
	WR_SETUP(TLS_MAX_RECORD_SIZE) MKOUT(out, R.inlen);
	int ret = tls_record_decrypt(hctx, key, seq, in, R.inlen, out, outlen);
	if (ret == 1) { CANARY("unprotected"); }
	CANARY("returned");
}
//@job name=tls_record_encrypt props=C11,C06 enforce=tls_record_encrypt replace=tls_cbc_encrypt timeout=600 native=0
void h_tls_record_encrypt(void)
{
	WR_SETUP(5 + 16384) MKOUT(out, 5 + 16 + ((R.inlen - 5) - (R.inlen - 5) % 16) + 48);
	int ret = tls_record_encrypt(hctx, key, seq, in, R.inlen, out, outlen);
	if (ret == 1) { CANARY("protected"); }
	CANARY("returned");
}
