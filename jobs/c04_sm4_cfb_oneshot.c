/* C04 — one-shot SM4-CFB-s (src/sm4_cfb.c sm4_cfb_encrypt / sm4_cfb_decrypt) against the recorded block-cipher history,
 * out of place and in place (contracts/sm4_cfb.h).  BOUNDED stand-in: the segment loop advances in, out and inlen, a loop
 * contract over it ran out of memory (DESIGN 7.2), so it is unwound: messages of at most 48 bytes and at most 4 segments.
 * Functional job: in / out are 48-byte objects whatever inlen is (symbolic-size objects ran out of memory here); the bounds of
 * every access are still checked against those objects and against the callee preconditions (len bytes readable / writable). */
#define CONTRACT_CFB_ONESHOT
#define CONTRACT_MEMXOR_CUSTOM
#include "sm4_cfb.h"
#include "src/sm4_cfb.c"
#include "stubs_stdio.h"
typedef struct { uint8_t iv[16]; uint8_t first[32]; size_t inlen, sbytes, nseg, gk, j2, j3; unsigned sel; uint8_t inplace; } co_in;
DECL_INPUT(co_in);
#define CO_H(fn) \
	INPUT(co_in, H); ASSUME(H.inlen <= 48 && H.sbytes >= 1 && H.sbytes <= 16 && H.gk < 16 && H.j2 < 16 && H.j3 < 16 && H.sel <= 48 && H.nseg <= 48); \
	ASSUME(H.j2 + H.sbytes >= 16 || H.j3 == H.j2 + H.sbytes); G_mc = H.j2 + H.sbytes - 16; \
	ASSUME(H.nseg == 0 ? H.inlen == 0 : ((H.nseg - 1) * H.sbytes < H.inlen && H.inlen <= H.nseg * H.sbytes)); \
	verif_gk = H.gk; G_fe_j2 = H.j2; G_fe_j3 = H.j3; G_fe_sel = H.sel; G_fe_nseg = H.nseg; \
	SM4_KEY *key = malloc(sizeof(*key)); ASSUME(key); \
	MKBUF(iv, H.iv, 16); MKBUF(in, H.first, 48); \
	uint8_t *out = in; if (!H.inplace) { out = malloc(48); ASSUME(out); } \
	fn(key, H.sbytes, iv, in, H.inlen, out); \
	if (H.inplace) CANARY("in-place"); else CANARY("out-of-place"); \
	if (H.nseg >= 3 && H.sel == 1) CANARY("middle-segment"); \
	if (H.nseg >= 2 && H.inlen < H.nseg * H.sbytes) CANARY("partial-last-segment"); \
	CANARY("returned");
//@job name=sm4_cfb_decrypt_oneshot props=C04 enforce=sm4_cfb_decrypt replace=sm4_encrypt,gmssl_memxor,memcpy unwindset=sm4_cfb_decrypt.0:17,sm4_cfb_decrypt.1:5 partial=1 bounded=inlen<=48,at-most-4-segments(no-unwinding-assertion) timeout=900 native=0
void h_sm4_cfb_decrypt_oneshot(void) { CO_H(sm4_cfb_decrypt) }
//@job name=sm4_cfb_encrypt_oneshot props=C04 enforce=sm4_cfb_encrypt replace=sm4_encrypt,gmssl_memxor,memcpy unwindset=sm4_cfb_encrypt.0:17,sm4_cfb_encrypt.1:5 partial=1 bounded=inlen<=48,at-most-4-segments(no-unwinding-assertion) timeout=900 native=0
void h_sm4_cfb_encrypt_oneshot(void) { CO_H(sm4_cfb_encrypt) }
