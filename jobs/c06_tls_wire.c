/* C06 / C11 — TLS wire readers and the sequence-number counter (src/tls.c) */
#include "tls_wire.h"
#include "src/tls.c"
#include "stubs_stdio.h"
#define MAXIN 16
typedef struct { uint8_t buf[MAXIN]; size_t inlen; size_t datalen; } win_in;
typedef struct { uint8_t s[8]; } seq_in;
DECL_INPUT(win_in);
DECL_INPUT(seq_in);
#define W_SETUP INPUT(win_in, I); ASSUME(I.inlen <= ((size_t)1 << 24)); MKBUF(buf, I.buf, I.inlen); const uint8_t *in = buf; size_t inlen = I.inlen

//@job name=tls_uint_from_bytes props=C06,C20 enforce=tls_uint8_from_bytes,tls_uint16_from_bytes,tls_uint24_from_bytes,tls_uint32_from_bytes
void h_tls_uint_from_bytes(void)
{
	W_SETUP; uint8_t a8; uint16_t a16; uint24_t a24; uint32_t a32;
	switch (I.datalen & 3) {
	case 0: tls_uint8_from_bytes(&a8, &in, &inlen); break;
	case 1: tls_uint16_from_bytes(&a16, &in, &inlen); break;
	case 2: tls_uint24_from_bytes(&a24, &in, &inlen); break;
	default: tls_uint32_from_bytes(&a32, &in, &inlen); break;
	}
	CANARY("returned");
}

//@job name=tls_array_from_bytes props=C06 enforce=tls_array_from_bytes
void h_tls_array_from_bytes(void)
{
	W_SETUP; const uint8_t *d;
	int ret = tls_array_from_bytes(&d, I.datalen, &in, &inlen);
	if (ret == 1) { CANARY("ok"); }
	CANARY("returned");
}

//@job name=tls_uint8array_from_bytes props=C06 enforce=tls_uint8array_from_bytes replace=tls_uint8_from_bytes,tls_array_from_bytes
void h_tls_uint8array_from_bytes(void)
{
	W_SETUP; const uint8_t *d; size_t dl;
	int ret = tls_uint8array_from_bytes(&d, &dl, &in, &inlen);
	if (ret == 1) { CANARY("ok"); }
	CANARY("returned");
}

//@job name=tls_uint16array_from_bytes props=C06 enforce=tls_uint16array_from_bytes replace=tls_uint16_from_bytes,tls_array_from_bytes
void h_tls_uint16array_from_bytes(void)
{
	W_SETUP; const uint8_t *d; size_t dl;
	int ret = tls_uint16array_from_bytes(&d, &dl, &in, &inlen);
	if (ret == 1) { CANARY("ok"); }
	CANARY("returned");
}

//@job name=tls_uint24array_from_bytes props=C06 enforce=tls_uint24array_from_bytes replace=tls_uint24_from_bytes,tls_array_from_bytes
void h_tls_uint24array_from_bytes(void)
{
	W_SETUP; const uint8_t *d; size_t dl;
	int ret = tls_uint24array_from_bytes(&d, &dl, &in, &inlen);
	if (ret == 1) { CANARY("ok"); }
	CANARY("returned");
}

//@job name=tls_seq_num_incr props=C11,C20 enforce=tls_seq_num_incr unwindset=tls_seq_num_incr.*:9
void h_tls_seq_num_incr(void)
{
	INPUT(seq_in, S); uint8_t seq[8]; memcpy(seq, S.s, 8);
	NATIVE(uint64_t before = 0, after = 0; int i; for (i = 0; i < 8; i++) before = (before << 8) | seq[i];);
	tls_seq_num_incr(seq);
	NATIVE(for (i = 0; i < 8; i++) after = (after << 8) | seq[i];);
	NCHECK(after == before + 1, "sequence number advanced by exactly one (64-bit big-endian)");
	OBSERVE_BYTES("seq", seq, 8);
	CANARY("returned");
}
