/* C06 — handshake header parser of src/tls.c (the contract assumed by the Certificate-message parser jobs) */
#include "tls_handshake.h"
#include "tls_names.h"
#include "src/tls.c"
#include "stubs_stdio.h"
typedef struct { uint8_t first[32]; size_t len; uint8_t mode; } gh_in;
DECL_INPUT(gh_in);
//@job name=tls_record_get_handshake props=C06 enforce=tls_record_get_handshake replace=tls_uint24_from_bytes,tls_protocol_name,tls_handshake_type_name timeout=600
void h_tls_record_get_handshake(void)
{
	INPUT(gh_in, H); ASSUME(H.len >= 5 && H.len <= 5 + 65535);
	MKBUF(record, H.first, H.len); ASSUME(((((size_t)record[3]) << 8) | record[4]) + 5 == H.len);
	int *type = malloc(sizeof(int)); const uint8_t **data = malloc(sizeof(*data)); size_t *datalen = malloc(sizeof(size_t)); ASSUME(type && data && datalen);
	int ret = tls_record_get_handshake(record, type, data, datalen);
	if (ret == 1) { CANARY("parsed"); if (*datalen) CANARY("non-empty"); }
	CANARY("returned");
}
