/* C02 / C06 / C14 — quick variant of sm2_ciphertext_from_der: memcpy's frame is the whole destination object (constant-size havoc);
   every length, pointer and bounds obligation is the same as in the thorough job (which keeps the exact slice frame) */
#define CONTRACT_ENC_RECORDING
#define CONTRACT_MEMCPY_WHOLE_OBJECT
#include "sm2_enc.h"
#include "src/sm2_enc.c"
#include "stubs_stdio.h"
#define MAXIN 32
typedef struct { uint8_t buf[MAXIN]; size_t inlen; } der_in;
DECL_INPUT(der_in);

//@job name=sm2_ciphertext_from_der_quick props=C02,C06,C14 enforce=sm2_ciphertext_from_der replace=asn1_type_from_der,asn1_integer_from_der_ex,asn1_length_le,asn1_length_is_zero,asn1_check,memcpy timeout=900
void h_sm2_ciphertext_from_der_quick(void)
{
	INPUT(der_in, I); ASSUME(I.inlen <= (size_t)INT_MAX);
	MKBUF(buf, I.buf, I.inlen); const uint8_t *in = buf; size_t inlen = I.inlen;
	SM2_CIPHERTEXT *C = malloc(sizeof(SM2_CIPHERTEXT)); ASSUME(C != NULL);
	int ret = sm2_ciphertext_from_der(C, &in, &inlen);
	OBSERVE_INT("ret", ret);
	if (ret == 1) { CANARY("accepted"); }
	CANARY("returned");
}
