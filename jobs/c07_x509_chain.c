/* C07 — certificate chain verification, TLS form (src/x509_cer.c: x509_certs_verify) */
#define CONTRACT_CHAIN
#define CHAIN_LEAVES 1
#include "x509.h"
#include "src/x509_cer.c"
#include "stubs_stdio.h"
#define MAXIN 16
typedef struct { uint8_t buf[MAXIN]; size_t certslen; size_t rootslen; int type; int depth; } ch_in;
DECL_INPUT(ch_in);

//@job name=x509_certs_verify props=C07,C06 enforce=x509_certs_verify replace=x509_cert_from_der,x509_cert_check,x509_cert_verify_by_ca_cert,x509_cert_get_issuer,x509_certs_get_cert_by_subject,x509_cert_print loops=1 timeout=1200
void h_x509_certs_verify(void)
{
	INPUT(ch_in, I); ASSUME(I.certslen <= (size_t)INT_MAX && I.rootslen <= (size_t)INT_MAX && I.depth >= 0 && I.depth <= 1000);
	MKBUF(certs, I.buf, I.certslen); MKOUT(roots, I.rootslen); int vr;
	verif_c_chk_calls = 0; verif_c_vfy_calls = 0; verif_c_chk_nonca = 0; verif_c_vfy_bad = 0; verif_c_vfy_second = 0;
	int ret = x509_certs_verify(certs, I.certslen, I.type, roots, I.rootslen, I.depth, &vr);
	if (ret == 1) { CANARY("accepted"); }
	CANARY("returned");
}
