/* C11 / C06 — TLS 1.3 record unprotection (src/tls13.c tls13_gcm_decrypt) */
#define G_MC_EXPR verif_gk
#define G_MC_MEMCPY_EXPR (verif_gk - 4)
#define CONTRACT_MEMXOR_RECORDING
#include "tls13_record.h"
#include "src/tls13.c"
#include "stubs_stdio.h"
typedef struct { uint8_t iv[12], seq[8], first[32]; size_t inlen; size_t gk; } t13_in;
DECL_INPUT(t13_in);
#ifdef VERIF_CBMC
#define GK_BIND(g) ASSUME(verif_gk == (g) && verif_gk < 65536);
#else
#define GK_BIND(g)
#endif

/* every protected length 0..65791, exact-size buffers */
//@job name=tls13_gcm_decrypt props=C11,C06 enforce=tls13_gcm_decrypt replace=gcm_decrypt,memcpy,gmssl_memxor,tls_record_type_name loops=1 timeout=900
void h_tls13_gcm_decrypt(void)
{
	INPUT(t13_in, R); ASSUME(R.inlen <= 65535 + 256); GK_BIND(R.gk)
	BLOCK_CIPHER_KEY *key = malloc(sizeof(BLOCK_CIPHER_KEY)); ASSUME(key != NULL);
	MKBUF(iv, R.iv, 12); MKBUF(seq, R.seq, 8); MKBUF(in, R.first, R.inlen); MKOUT(out, R.inlen >= 16 ? R.inlen - 16 : 0);
	int *rt = malloc(sizeof(int)); size_t *outlen = malloc(sizeof(size_t)); ASSUME(rt != NULL && outlen != NULL);
	int ret = tls13_gcm_decrypt(key, iv, seq, in, R.inlen, rt, out, outlen);
	OBSERVE_INT("ret", ret);
	if (ret == 1) { CANARY("accepted"); }
	CANARY("returned");
}
