/* C03 — HMAC-SM3 (src/sm3_hmac.c) against RFC 2104 over the SM3 transcript abstraction */
#define G_MC_EXPR verif_gk
#define G_MC_MEMCPY_EXPR2 G_tk
#include <stddef.h>
#include <stdint.h>
#ifdef VERIF_CBMC
extern size_t verif_gk; size_t G_dgst_idx;
#define G_FIN_DGST_IDX G_dgst_idx
#endif
#include "sm3_hmac_real.h"
#include "src/sm3_hmac.c"
#include "stubs_stdio.h"
#ifdef VERIF_CBMC
#define GK_BIND(g, t, d) ASSUME(verif_gk == (g) && verif_gk < 64 && G_tk == (t) && G_dgst_idx == (d) && G_dgst_idx < 32);
#define HMSET(c) do { } while (0)
#else
#define GK_BIND(g, t, d)
#endif
typedef struct { uint8_t key[32]; size_t keylen; size_t gk, tk, di; SM3_HMAC_CTX ctx; uint8_t data[32]; size_t datalen; } hm_in;
DECL_INPUT(hm_in);

//@job name=sm3_hmac_init props=C03 enforce=sm3_hmac_init replace=sm3_init,sm3_update,sm3_finish,memcpy unwindset=sm3_hmac_init.*:66 timeout=900
void h_sm3_hmac_init(void)
{
	INPUT(hm_in, H); ASSUME(H.keylen <= 300); GK_BIND(H.gk, H.tk, H.di)
	SM3_HMAC_CTX *ctx = malloc(sizeof *ctx); ASSUME(ctx != NULL);
	MKBUF(key, H.key, H.keylen);
	sm3_hmac_init(ctx, key, H.keylen);
	NATIVE({ int i, ok = 1; if (H.keylen <= 64) for (i = 0; i < 64; i++) if (ctx->key[i] != (uint8_t)(((size_t)i < H.keylen ? key[i] : 0) ^ 0x36)) ok = 0;
		CHECK(ok, "ctx->key == (key zero-padded) xor ipad"); })
	if (H.keylen > 64) { CANARY("long-key"); }
	CANARY("returned");
}

//@job name=sm3_hmac_update props=C03 enforce=sm3_hmac_update replace=sm3_update timeout=600
void h_sm3_hmac_update(void)
{
	INPUT(hm_in, H); ASSUME(H.datalen <= 5000); GK_BIND(H.gk, H.tk, H.di)
	SM3_HMAC_CTX *ctx = malloc(sizeof *ctx); ASSUME(ctx != NULL); *ctx = H.ctx;
	MKBUF(data, H.data, H.datalen);
	sm3_hmac_update(ctx, data, H.datalen);
	CANARY("returned");
}

//@job name=sm3_hmac_finish props=C03 enforce=sm3_hmac_finish replace=sm3_init,sm3_update,sm3_finish unwindset=sm3_hmac_finish.*:66 timeout=900
void h_sm3_hmac_finish(void)
{
	INPUT(hm_in, H); GK_BIND(H.gk, H.tk, H.di)
	SM3_HMAC_CTX *ctx = malloc(sizeof *ctx); ASSUME(ctx != NULL); *ctx = H.ctx;
	MKOUT(mac, 32);
	sm3_hmac_finish(ctx, mac);
	CANARY("returned");
}
