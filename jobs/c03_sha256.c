/* C03 — SHA-256 streaming: chunking invariance and padding of the real src/sha256.c (template contracts/hash_stream_tpl.h) */
#define HS_CTX SHA256_CTX
#define HS_UPDATE sha256_update
#define HS_FINISH sha256_finish
#define HS_COMPRESS sha256_compress_blocks
#define HS_STATE_T uint32_t
#define HS_STATE_FIELD state
#define HS_NSTATE 8
#define HS_BLK 64
#define HS_LENB 8
#include <gmssl/sha2.h>
#include "hash_stream_tpl.h"
#ifdef VERIF_CBMC
uint64_t G_L0; size_t G_data_off; uint64_t G_blk_stream0; size_t G_blk_off;
#define G_MC_MEMSET_EXPR ((G_tk - G_blk_stream0) - (__CPROVER_POINTER_OFFSET(dst) - G_blk_off))
#define G_MC_MEMCPY_EXPR ((G_tk - G_L0) - (__CPROVER_POINTER_OFFSET(src) - G_data_off))
#endif
#include "libc.h"
#include "src/sha256.c"
#include "stubs_stdio.h"
typedef struct { uint8_t first[32]; size_t len; uint64_t nblocks; size_t num; uint8_t blk[64]; } hs_in;
DECL_INPUT(hs_in);

//@job name=sha256_update props=C03,C06 enforce=sha256_update replace=sha256_compress_blocks,memcpy timeout=2400 tier=thorough
void h_sha256_update(void)
{
	INPUT(hs_in, I); ASSUME(I.len <= ((size_t)1 << 50) && I.num < 64 && I.nblocks <= ((uint64_t)1 << 55));
	SHA256_CTX *ctx = malloc(sizeof(SHA256_CTX)); ASSUME(ctx != NULL);
	ctx->nblocks = I.nblocks; ctx->num = I.num; memcpy(ctx->block, I.blk, 64);
	ASSUME(G_cfed == 64 * ctx->nblocks && (G_tk >= G_cfed || G_cseen == 1));
	MKBUF(data, I.first, I.len);
	G_L0 = 64 * ctx->nblocks + ctx->num; G_data_off = __CPROVER_POINTER_OFFSET(data);
	sha256_update(ctx, data, I.len);
	CANARY("returned");
}

//@job name=sha256_finish props=C03,C06 enforce=sha256_finish replace=sha256_compress_blocks,memset unwindset=sha256_finish.*:9 timeout=900
void h_sha256_finish(void)
{
	INPUT(hs_in, I); ASSUME(I.num < 64 && I.nblocks <= ((uint64_t)1 << 53));
	SHA256_CTX *ctx = malloc(sizeof(SHA256_CTX)); ASSUME(ctx != NULL);
	ctx->nblocks = I.nblocks; ctx->num = I.num; memcpy(ctx->block, I.blk, 64); memcpy(G_blk0, I.blk, 64);
	G_nb0 = I.nblocks; G_num0 = I.num;
	ASSUME(G_cfed == 64 * ctx->nblocks && (G_tk >= G_cfed || G_cseen == 1));
	G_blk_stream0 = (G_tk < 64 * (I.nblocks + 1)) ? 64 * I.nblocks : 64 * (I.nblocks + 1);
	G_blk_off = __CPROVER_POINTER_OFFSET(ctx->block);
	uint8_t dgst[8 * sizeof(uint32_t)];
	sha256_finish(ctx, dgst);
	CANARY("returned");
}
