/* C01 — ID binding (sm2_compute_z) and precomputed-nonce bookkeeping (sm2_sign_finish) */
#define CONTRACT_SIGN_RECORDING
/* memcmp is replaced by its contract; its ghost index is aligned with stream position G_tk of the ID bytes */
#define G_MC_EXPR (G_tk - 2)
#include "sm2_sign.h"
#include "src/sm2_sign.c"
#include "stubs_stdio.h"

typedef struct { uint8_t id[24]; size_t idlen; uint64_t X[4], Y[4], Z[4]; uint32_t npc; uint8_t mode; } z_in;
DECL_INPUT(z_in);

/* id is an exact-size heap object of idlen bytes, NOT NUL-terminated: any read at index >= idlen is out of bounds */
//@job name=sm2_compute_z props=C01,C06 enforce=sm2_compute_z replace=sm2_z256_point_to_bytes,sm3_init,sm3_update,sm3_finish,memcmp
void h_sm2_compute_z(void)
{
	INPUT(z_in, Z); ASSUME(Z.idlen >= 1 && Z.idlen <= SM2_MAX_ID_LENGTH);
	MKBUF(idb, Z.id, Z.idlen); SM2_Z256_POINT pub; uint8_t z[32];
	memcpy(pub.X, Z.X, 32); memcpy(pub.Y, Z.Y, 32); memcpy(pub.Z, Z.Z, 32);
	int ret = sm2_compute_z(z, &pub, (const char *)idb, Z.idlen);
	NATIVE(uint8_t ref[32]; { SM3_CTX c; uint8_t bits[2] = { (uint8_t)((Z.idlen * 8) >> 8), (uint8_t)(Z.idlen * 8) }; uint8_t pb[64];
		sm2_z256_point_to_bytes(&pub, pb); sm3_init(&c); sm3_update(&c, bits, 2); sm3_update(&c, idb, Z.idlen);
		sm3_update(&c, SM2_CURVE_ABG, 128); sm3_update(&c, pb, 64); sm3_finish(&c, ref); });
	NCHECK(memcmp(z, ref, 32) == 0, "Z == SM3(ENTL || the idlen bytes of ID || a || b || G || P)");
	CANARY("returned");
}

//@job name=sm2_sign_finish props=C01,C06,C18 enforce=sm2_sign_finish replace=sm3_finish,sm2_fast_sign_pre_compute,sm2_fast_sign,sm2_signature_to_der
void h_sm2_sign_finish(void)
{
	INPUT(z_in, Z); ASSUME(Z.npc <= SM2_SIGN_PRE_COMP_COUNT);
	SM2_SIGN_CTX *ctx = malloc(sizeof(SM2_SIGN_CTX)); ASSUME(ctx != NULL); ctx->num_pre_comp = Z.npc;
	MKOUT(sig, SM2_MAX_SIGNATURE_SIZE); size_t siglen;
	int ret = sm2_sign_finish((Z.mode & 1) ? NULL : ctx, (Z.mode & 2) ? NULL : sig, (Z.mode & 4) ? NULL : &siglen);
	if (ret == 1) { CANARY("signed"); }
	CANARY("returned");
}

//@job name=sm2_sign_reset props=C18 enforce=sm2_sign_reset
void h_sm2_sign_reset(void)
{
	INPUT(z_in, Z);
	SM2_SIGN_CTX *ctx = malloc(sizeof(SM2_SIGN_CTX)); ASSUME(ctx != NULL); ctx->num_pre_comp = Z.npc;
	int ret = sm2_sign_reset(ctx);
	NCHECK(ctx->num_pre_comp == Z.npc, "sm2_sign_reset leaves the unused-nonce counter alone");
	CANARY("returned");
}

//@job name=sm2_sign_init props=C18,C01 enforce=sm2_sign_init replace=sm3_init,sm3_update,sm2_compute_z,sm2_fast_sign_pre_compute,sm2_fast_sign_compute_key
void h_sm2_sign_init(void)
{
	INPUT(z_in, Z); ASSUME(Z.idlen <= 9000);
	SM2_SIGN_CTX *ctx = malloc(sizeof(SM2_SIGN_CTX)); ASSUME(ctx != NULL);
	SM2_KEY *key = malloc(sizeof(SM2_KEY)); ASSUME(key != NULL);
	MKBUF(idb, Z.id, Z.idlen);
	int ret = sm2_sign_init((Z.mode & 1) ? NULL : ctx, (Z.mode & 2) ? NULL : key, (Z.mode & 4) ? NULL : (const char *)idb, Z.idlen);
	if (ret == 1) { CANARY("initialised"); }
	CANARY("returned");
}
