/* C14 / C06 — pem_read (src/pem.c) never writes more than the declared capacity */
#include "pem.h"
#include "libc.h"
#ifdef VERIF_CBMC
/* formatted output into a caller-sized buffer: only the frame matters here (a string inside the buffer) */
int snprintf(char *s, size_t n, const char *fmt, ...) { (void)s; (void)n; (void)fmt; return 0; }
#endif
#include "src/pem.c"
#include "stubs_stdio.h"
typedef struct { size_t maxlen; } pm_in;
DECL_INPUT(pm_in);
/* bounded stand-in: at most 3 body lines (the unbounded line loop carries an advancing output pointer; loop-contract variants of
   such loops exhausted memory, see DESIGN 7.2) */
//@job name=pem_read props=C14,C06 enforce=pem_read replace=fgets,feof,strlen,strcmp,remove_newline,base64_decode_init,base64_decode_update,base64_decode_finish unwindset=pem_read.*:4 partial=1 bounded=at-most-3-body-lines(loop-unwound-3-times,no-unwinding-assertion) timeout=900 native=0
void h_pem_read(void)
{
	INPUT(pm_in, P); ASSUME(P.maxlen <= 300);
	MKOUT(data, P.maxlen); size_t *datalen = malloc(sizeof(size_t)); ASSUME(datalen != NULL);
	FILE *fp = (FILE *)malloc(8); char *name = malloc(12); ASSUME(fp && name); name[11] = 0;
	int ret = pem_read(fp, name, data, datalen, P.maxlen);
	if (ret == 1) { CANARY("read"); if (*datalen > 0) CANARY("non-empty"); }
	CANARY("returned");
}
