/* C12 / C06 — TLS 1.3 key_share processors (src/tls_ext.c): the peer's point goes through the validating import */
#include "tls13_keyshare.h"
#include "src/tls_ext.c"
#include "stubs_stdio.h"
typedef struct { uint8_t first[32]; size_t len; uint8_t mode; } ks_in;
DECL_INPUT(ks_in);
//@job name=tls13_process_server_key_share props=C12,C06 enforce=tls13_process_server_key_share replace=tls_uint16_from_bytes,tls_uint16array_from_bytes,tls_length_is_zero,sm2_z256_point_from_octets timeout=600 native=0
void h_tls13_process_server_key_share(void)
{
	INPUT(ks_in, K); ASSUME(K.len <= 200);
	MKBUF(d, K.first, K.len); SM2_Z256_POINT *pt = malloc(sizeof *pt); ASSUME(pt != NULL);
	int ret = tls13_process_server_key_share(d, K.len, (K.mode & 1) ? NULL : pt);
	if (ret == 1) { CANARY("imported"); }
	CANARY("returned");
}
/* the share list is walked by a loop; at most 3 shares here (bounded), the first SM2 share ends the walk */
//@job name=tls13_process_client_key_share props=C12,C06 enforce=tls13_process_client_key_share replace=tls_uint16_from_bytes,tls_uint16array_from_bytes,tls_length_is_zero,sm2_z256_point_from_octets,tls_curve_name,tls13_server_key_share_ext_to_bytes unwindset=tls13_process_client_key_share.*:4 partial=1 bounded=at-most-3-key-share-entries(no-unwinding-assertion) timeout=600 native=0
void h_tls13_process_client_key_share(void)
{
	INPUT(ks_in, K); ASSUME(K.len <= 400);
	MKBUF(d, K.first, K.len); SM2_Z256_POINT *pt = malloc(sizeof *pt); SM2_KEY *key = malloc(sizeof *key); ASSUME(pt && key);
	MKOUT(outbuf, 73); uint8_t **out = malloc(sizeof(*out)); size_t *outlen = malloc(sizeof(size_t)); ASSUME(out && outlen); *out = (K.mode & 4) ? NULL : outbuf; *outlen = 0;
	int ret = tls13_process_client_key_share(d, K.len, (K.mode & 1) ? NULL : key, (K.mode & 2) ? NULL : pt, out, outlen);
	if (ret == 1) { CANARY("imported"); }
	CANARY("returned");
}
