/* C04 — one-shot SM4-OFB (src/sm4_ofb.c sm4_ofb_encrypt, used for both directions) against the recorded block-cipher
 * history, out of place and in place.  BOUNDED stand-in (block loop unwound): at most 64 bytes / 4 blocks. */
#define CONTRACT_CFB_ONESHOT
#define CONTRACT_MEMXOR_CUSTOM
#define CONTRACT_OFB_ONESHOT
#include "sm4_ofb.h"
#include "src/sm4_ofb.c"
#include "stubs_stdio.h"
typedef struct { uint8_t iv[16]; uint8_t first[32]; size_t inlen, nseg, gk, j3; unsigned sel; uint8_t inplace; } oo_in;
DECL_INPUT(oo_in);
//@job name=sm4_ofb_encrypt_oneshot props=C04 enforce=sm4_ofb_encrypt replace=sm4_encrypt,gmssl_memxor unwindset=sm4_ofb_encrypt.*:5 partial=1 bounded=inlen<=64,at-most-4-blocks(no-unwinding-assertion) timeout=900 native=0
void h_sm4_ofb_encrypt_oneshot(void)
{
	INPUT(oo_in, H); ASSUME(H.inlen <= 64 && H.gk < 16 && H.j3 < 16 && H.sel <= 4 && H.nseg <= 4);
	ASSUME(H.nseg == 0 ? H.inlen == 0 : ((H.nseg - 1) * 16 < H.inlen && H.inlen <= H.nseg * 16));
	verif_gk = H.gk; G_fe_j2 = H.gk; G_fe_j3 = H.j3; G_fe_sel = H.sel; G_fe_nseg = H.nseg;
	SM4_KEY *key = malloc(sizeof(*key)); ASSUME(key);
	MKBUF(iv, H.iv, 16); MKBUF(in, H.first, 64);
	uint8_t *out = in; if (!H.inplace) { out = malloc(64); ASSUME(out); }
	sm4_ofb_encrypt(key, iv, in, H.inlen, out);
	if (H.inplace) CANARY("in-place"); else CANARY("out-of-place");
	if (H.nseg >= 3 && H.sel == 1) CANARY("middle-block");
	if (H.nseg >= 2 && H.inlen < H.nseg * 16) CANARY("partial-last-block");
	CANARY("returned");
}
