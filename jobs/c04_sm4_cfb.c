/* C04 — src/sm4_cfb.c streaming interface: the real call never writes more than the size the same interface reports
 * when asked with out == NULL (contracts/sm4_cfb.h: write mode + query mode of one contract). */
#define CONTRACT_CFB_ONESHOT_FRAME
#include "sm4_cfb.h"
#include "src/sm4_cfb.c"
#include "stubs_stdio.h"
typedef struct { SM4_CFB_CTX ctx; size_t inlen; size_t cap; } cf_in;
DECL_INPUT(cf_in);
#define CF_SETUP \
	INPUT(cf_in, H); ASSUME(H.inlen <= 65536 && H.cap <= 65536 + 32 && H.ctx.sbytes >= 1 && H.ctx.sbytes <= 16 && H.ctx.block_nbytes < H.ctx.sbytes); \
	SM4_CFB_CTX *ctx = malloc(sizeof(*ctx)); ASSUME(ctx); *ctx = H.ctx; \
	MKOUT(in, H.inlen ? H.inlen : 1); size_t *n = malloc(sizeof(size_t)); ASSUME(n);
#define CF_UPDATE_WRITE(fn) CF_SETUP \
	ASSUME(H.cap >= CFB_W(H.ctx.block_nbytes, H.inlen, H.ctx.sbytes)); G_cfb_cap = H.cap; \
	MKOUT(out, H.cap ? H.cap : 1); \
	int ret = fn(ctx, in, H.inlen, out, n); \
	if (ret == 1) { CANARY("written"); if (*n == H.cap && *n > 16) CANARY("fills-capacity"); if (ctx->block_nbytes) CANARY("buffers-tail"); } \
	CANARY("returned");
#define CF_UPDATE_QUERY(fn) CF_SETUP \
	int ret = fn(ctx, in, H.inlen, NULL, n); \
	if (ret == 1) { CANARY("size-reported"); } \
	CANARY("returned");
//@job name=sm4_cfb_encrypt_update_write props=C04 enforce=sm4_cfb_encrypt_update replace=sm4_cfb_encrypt,memcpy timeout=900 solver=kissat
void h_sm4_cfb_encrypt_update_write(void) { CF_UPDATE_WRITE(sm4_cfb_encrypt_update) }
//@job name=sm4_cfb_decrypt_update_write props=C04 enforce=sm4_cfb_decrypt_update replace=sm4_cfb_decrypt,memcpy timeout=900 solver=kissat
void h_sm4_cfb_decrypt_update_write(void) { CF_UPDATE_WRITE(sm4_cfb_decrypt_update) }
//@job name=sm4_cfb_encrypt_update_reported_size props=C04 enforce=sm4_cfb_encrypt_update replace=sm4_cfb_encrypt,memcpy timeout=900
void h_sm4_cfb_encrypt_update_reported_size(void) { CF_UPDATE_QUERY(sm4_cfb_encrypt_update) }
//@job name=sm4_cfb_decrypt_update_reported_size props=C04 enforce=sm4_cfb_decrypt_update replace=sm4_cfb_decrypt,memcpy timeout=900
void h_sm4_cfb_decrypt_update_reported_size(void) { CF_UPDATE_QUERY(sm4_cfb_decrypt_update) }
#define CF_FINISH_WRITE(fn) CF_SETUP \
	ASSUME(H.cap >= H.ctx.block_nbytes); G_cfb_cap = H.cap; \
	MKOUT(out, H.cap ? H.cap : 1); \
	int ret = fn(ctx, out, n); \
	if (ret == 1) { CANARY("written"); if (*n == 15) CANARY("longest-tail"); } \
	CANARY("returned");
#define CF_FINISH_QUERY(fn) CF_SETUP \
	int ret = fn(ctx, NULL, n); \
	if (ret == 1) { CANARY("size-reported"); } \
	CANARY("returned");
//@job name=sm4_cfb_encrypt_finish_write props=C04 enforce=sm4_cfb_encrypt_finish replace=sm4_cfb_encrypt timeout=900
void h_sm4_cfb_encrypt_finish_write(void) { CF_FINISH_WRITE(sm4_cfb_encrypt_finish) }
//@job name=sm4_cfb_decrypt_finish_write props=C04 enforce=sm4_cfb_decrypt_finish replace=sm4_cfb_decrypt timeout=900
void h_sm4_cfb_decrypt_finish_write(void) { CF_FINISH_WRITE(sm4_cfb_decrypt_finish) }
//@job name=sm4_cfb_encrypt_finish_reported_size props=C04 enforce=sm4_cfb_encrypt_finish replace=sm4_cfb_encrypt timeout=900
void h_sm4_cfb_encrypt_finish_reported_size(void) { CF_FINISH_QUERY(sm4_cfb_encrypt_finish) }
//@job name=sm4_cfb_decrypt_finish_reported_size props=C04 enforce=sm4_cfb_decrypt_finish replace=sm4_cfb_decrypt timeout=900
void h_sm4_cfb_decrypt_finish_reported_size(void) { CF_FINISH_QUERY(sm4_cfb_decrypt_finish) }
