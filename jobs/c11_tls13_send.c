/* C11 / C06 — TLS 1.3 application-data send path (src/tls13.c tls13_send) */
#define CONTRACT_MEMXOR_RECORDING
#define CONTRACT_TLS13_ENCRYPT
#define CONTRACT_TLS13_ENCRYPT_CONST_FRAME
#define G_MC_EXPR verif_gk
#include "tls13_record.h"
#ifdef VERIF_CBMC
unsigned G_ts_send_calls; size_t G_ts_send_rec; size_t G_ts_send_len; unsigned G_ts_incr_calls; size_t G_ts_incr_seq;
#endif
int tls_record_send(const uint8_t *record, size_t recordlen, tls_socket_t sock)
REQUIRES(recordlen >= 5 && recordlen <= TLS_MAX_RECORD_SIZE && RD_OK(record, recordlen))
ASSIGNS(G_ts_send_calls, G_ts_send_rec, G_ts_send_len)
ENSURES((RET == 1 || RET == -1) && G_ts_send_calls == OLD(G_ts_send_calls) + 1 && G_ts_send_rec == (size_t)record && G_ts_send_len == recordlen)
;
int tls_seq_num_incr(uint8_t seq_num[8])
REQUIRES(RW_OK(seq_num, 8))
ASSIGNS(OBJ_UPTO(seq_num, 8), G_ts_incr_calls, G_ts_incr_seq)
ENSURES(G_ts_incr_calls == OLD(G_ts_incr_calls) + 1 && G_ts_incr_seq == (size_t)seq_num)
;
/* own write key / iv / counter by role; one record of at most 2^14 bytes of data; counter advanced once; *sentlen says how much went out */
int tls13_send(TLS_CONNECT *conn, const uint8_t *data, size_t datalen, size_t *sentlen)
REQUIRES(RW_OK(conn, sizeof(TLS_CONNECT)) && datalen >= 1 && datalen <= (size_t)1 << 24 && RD_OK(data, datalen) && WR_OK(sentlen, sizeof(size_t)) && SEPARATE(conn, data) && SEPARATE(conn, sentlen))
REQUIRES(G_ge_calls == 0 && G_ts_send_calls == 0 && G_ts_incr_calls == 0 && verif_gk < 20000)
ASSIGNS(OBJ_UPTO((uint8_t *)conn, sizeof(TLS_CONNECT)), *sentlen, G_ge_calls, G_ge_ret, G_ge_key, G_ge_iv, G_ge_ivlen, OBJ_WHOLE(G_ge_aad), G_ge_aadlen, G_ge_inbyte, G_ge_inlen, G_ge_out, G_ge_taglen, G_ge_tag,
	G_x_r, G_x_calls, G_x_len, G_x_rp, G_ts_send_calls, G_ts_send_rec, G_ts_send_len, G_ts_incr_calls, G_ts_incr_seq)
ENSURES(RET == 1 || RET == -1)
ENSURES(RET == 1 IMPLIES (*sentlen >= 1 && *sentlen <= datalen && *sentlen <= TLS_MAX_PLAINTEXT_SIZE
	&& G_ts_send_calls == 1 && G_ts_send_rec == (size_t)conn->record && G_ts_send_len == 5 + *sentlen + 1 + 16
	&& G_ts_incr_calls == 1 && G_ts_incr_seq == (size_t)(conn->is_client ? conn->client_seq_num : conn->server_seq_num)))
;
#include "src/tls13.c"
#include "stubs_stdio.h"
typedef struct { int is_client, sock; size_t datalen; uint8_t first[32]; } t13s_in;
DECL_INPUT(t13s_in);
/* measured: this job exhausts 12 GB in propositional reduction (63 KB connection object, symbolic payload length); it is
   kept as text, not registered.  The defect it was written for is demonstrated by witness/tls13_send_overflow.c. */
// (unregistered) job name=tls13_send props=C11,C06 enforce=tls13_send replace=tls13_gcm_encrypt,tls_record_send,tls_seq_num_incr timeout=1500 native=0 tier=thorough
void h_tls13_send(void)
{
	INPUT(t13s_in, S); ASSUME(S.datalen >= 1 && S.datalen <= 17000);
	TLS_CONNECT *conn = malloc(sizeof(TLS_CONNECT)); ASSUME(conn != NULL); conn->is_client = S.is_client; conn->sock = S.sock;
	MKBUF(data, S.first, S.datalen); size_t *sentlen = malloc(sizeof(size_t)); ASSUME(sentlen != NULL);
	int ret = tls13_send(conn, data, S.datalen, sentlen);
	if (ret == 1) { CANARY("sent"); }
	CANARY("returned");
}
