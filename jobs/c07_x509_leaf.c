/* C07 — per-extension profile predicates of src/x509_ext.c, against truth tables written from the property */
#include "x509.h"
#include "src/x509_ext.c"
#include "stubs_stdio.h"
typedef struct { int a, b, c; long t1, t2, t3; int oids[X509_MAX_KEY_PURPOSES]; size_t cnt; } xl_in;
DECL_INPUT(xl_in);

//@job name=x509_key_usage_check props=C07,C20 enforce=x509_key_usage_check
void h_x509_key_usage_check(void)
{
	INPUT(xl_in, I); ASSUME(I.a >= -1);
	int ret = x509_key_usage_check(I.a, I.b);
	OBSERVE_INT("ret", ret);
	NCHECK(!(ret == 1 && I.b == X509_cert_ca) || (I.a & X509_KU_KEY_CERT_SIGN), "a CA with keyUsage must have keyCertSign");
	if (ret == 1) { CANARY("ok"); }
	CANARY("returned");
}

//@job name=x509_basic_constraints_check props=C07 enforce=x509_basic_constraints_check
void h_x509_basic_constraints_check(void)
{
	INPUT(xl_in, I);
	int ret = x509_basic_constraints_check(I.a, I.b, I.c);
	if (ret == 1) { CANARY("ok"); }
	CANARY("returned");
}

//@job name=x509_ext_key_usage_check props=C07,C06 enforce=x509_ext_key_usage_check unwindset=x509_ext_key_usage_check.*:9
void h_x509_ext_key_usage_check(void)
{
	INPUT(xl_in, I); ASSUME(I.cnt <= X509_MAX_KEY_PURPOSES);
	MKOUT(ob, I.cnt * sizeof(int)); int *oids = (int *)ob; size_t k;
	if (I.cnt > 0) oids[0] = I.oids[0]; if (I.cnt > 1) oids[1] = I.oids[1]; if (I.cnt > 2) oids[2] = I.oids[2]; if (I.cnt > 3) oids[3] = I.oids[3];
	if (I.cnt > 4) oids[4] = I.oids[4]; if (I.cnt > 5) oids[5] = I.oids[5]; if (I.cnt > 6) oids[6] = I.oids[6];
	int ret = x509_ext_key_usage_check(oids, I.cnt, I.c);
	if (ret == 1) { CANARY("ok"); }
	CANARY("returned");
}
