/* C14 — base64 streaming decoder / encoder of src/base64.c.
 * BOUNDED stand-ins (not proofs): the decode_update state machine (OpenSSL-derived, 110 lines of flag logic) was not brought
 * under a functional contract in the time available; instead the real functions are executed symbolically, with complete
 * unwinding, on every text of at most B64_MAXLEN characters:
 *   - chunking: feeding a text in two chunks split anywhere yields the same status, the same bytes and the same final
 *     context as feeding it at once;
 *   - inversion: decoding the encoder's output for every byte string of at most B64_MAXBIN bytes returns that string. */
#include "verif.h"
#include <gmssl/base64.h>
#include "src/base64.c"
#include "stubs_stdio.h"
#ifndef B64_MAXLEN
#define B64_MAXLEN 6
#endif
#ifndef B64_MAXBIN
#define B64_MAXBIN 4
#endif
typedef struct { uint8_t s[B64_MAXLEN]; int len, k; } b64_in;
DECL_INPUT(b64_in);

//@job name=base64_decode_chunking props=C14 unwind=9 timeout=1800 bounded=text<=6-characters,one-split layer=bounded-symbolic-execution-of-the-real-functions
void h_base64_decode_chunking(void)
{
	INPUT(b64_in, T); ASSUME(T.len >= 2 && T.len <= B64_MAXLEN && T.k >= 1 && T.k < T.len);
	BASE64_CTX a, b; uint8_t oa[64], ob[64]; int la = 0, l1 = 0, l2 = 0, fa = 0, fb = 0, ra, r1, r2 = 1, rfa = 1, rfb = 1, i, oka, okb;
	memset(oa, 0, sizeof oa); memset(ob, 0, sizeof ob);
	base64_decode_init(&a); base64_decode_init(&b);
	ra = base64_decode_update(&a, T.s, T.len, oa, &la);
	if (ra >= 0) rfa = base64_decode_finish(&a, oa + la, &fa);
	r1 = base64_decode_update(&b, T.s, T.k, ob, &l1);
	if (r1 >= 0) r2 = base64_decode_update(&b, T.s + T.k, T.len - T.k, ob + l1, &l2);
	if (r1 >= 0 && r2 >= 0) rfb = base64_decode_finish(&b, ob + l1 + l2, &fb);
	oka = ra >= 0 && rfa == 1; okb = r1 >= 0 && r2 >= 0 && rfb == 1;
	OBSERVE_INT("ra", ra); OBSERVE_INT("r1", r1); OBSERVE_INT("r2", r2); OBSERVE_INT("total_a", la + fa); OBSERVE_INT("total_b", l1 + l2 + fb);
	/* WHEN bytes are released legitimately depends on the chunking (a chunk ending on a 4-character boundary is decoded at
	   once); what must not depend on it is the result of the complete update..finish sequence.
	   A first chunk that ends the content (status 0) followed by more text is the caller's error by the function's own
	   documentation ("the caller is responsible for checking and rejecting a 0 return value in the middle of content"). */
	if (r1 == 1) {
		CHECK(oka == okb, "update..finish succeeds for two chunks exactly when it succeeds for the whole text");
		if (oka && okb) {
			CHECK(la + fa == l1 + l2 + fb, "same number of decoded bytes");
			for (i = 0; i < 6; i++) CHECK(i >= la + fa || oa[i] == ob[i], "same decoded bytes");
			CANARY("compared");
		}
	}
	CANARY("returned");
}

typedef struct { uint8_t m[B64_MAXBIN]; int len; } bin_in;
DECL_INPUT(bin_in);
//@job name=base64_roundtrip props=C14 unwind=12 timeout=1800 bounded=binary<=4-bytes layer=bounded-symbolic-execution-of-the-real-functions
void h_base64_roundtrip(void)
{
	INPUT(bin_in, M); ASSUME(M.len >= 1 && M.len <= B64_MAXBIN);
	BASE64_CTX e, d; uint8_t txt[80], back[64]; int tl = 0, tl2 = 0, bl = 0, bl2 = 0, r, i;
	base64_encode_init(&e);
	r = base64_encode_update(&e, M.m, M.len, txt, &tl);
	base64_encode_finish(&e, txt + tl, &tl2);
	CHECK(r == 1 && tl + tl2 == 4 * ((M.len + 2) / 3) + 1, "encoder writes 4*ceil(n/3) characters and a newline");
	base64_decode_init(&d);
	r = base64_decode_update(&d, txt, tl + tl2, back, &bl);
	CHECK(r >= 0, "decoder accepts the encoder's text");
	if (r >= 0) {
		r = base64_decode_finish(&d, back + bl, &bl2);
		CHECK(r == 1 && bl + bl2 == M.len, "decode(encode(m)) has the length of m");
		for (i = 0; i < B64_MAXBIN; i++) CHECK(i >= M.len || back[i] == M.m[i], "decode(encode(m)) == m");
		CANARY("roundtrip");
	}
	CANARY("returned");
}
