/* C01 / C14 / C06 — SM2 signature DER layer and DER-level verification (src/sm2_sign.c) */
#define CONTRACT_DO_VERIFY_RECORDING
#define CONTRACT_GET_XY_UF
#include "sm2_sign.h"
#include "src/sm2_sign.c"
#include "stubs_stdio.h"

#define MAXIN 32
typedef struct { uint8_t buf[MAXIN]; size_t inlen; int tag; uint8_t mode; } der_in;
typedef struct { uint8_t r[32], s[32]; uint8_t mode; size_t outlen0; } sig_in;
DECL_INPUT(der_in);
DECL_INPUT(sig_in);
#define RD_SETUP \
	INPUT(der_in, I); ASSUME(I.inlen <= (size_t)INT_MAX); \
	MKBUF(buf, I.buf, I.inlen); const uint8_t *in = buf; size_t inlen = I.inlen

//@job name=sm2_signature_from_der props=C01,C06,C14 enforce=sm2_signature_from_der replace=asn1_type_from_der,asn1_integer_from_der_ex,asn1_length_le,asn1_length_is_zero,memcpy
void h_sm2_signature_from_der(void)
{
	RD_SETUP; SM2_SIGNATURE sig;
	int ret = sm2_signature_from_der(&sig, &in, &inlen);
	OBSERVE_INT("ret", ret);
	if (ret == 1) { CANARY("accepted"); }
	CANARY("returned");
}

//@job name=sm2_signature_to_der props=C01,C06,C14 enforce=sm2_signature_to_der replace=asn1_integer_to_der_ex,asn1_header_to_der
void h_sm2_signature_to_der(void)
{
	INPUT(sig_in, W); SM2_SIGNATURE sig; memcpy(sig.r, W.r, 32); memcpy(sig.s, W.s, 32);
	MKOUT(obuf, SM2_MAX_SIGNATURE_SIZE); uint8_t *op = (W.mode % 3 == 2) ? obuf : NULL;
	uint8_t **out = (W.mode % 3 == 0) ? NULL : &op; size_t outlen = W.outlen0;
	int ret = sm2_signature_to_der((W.mode & 0x80) ? NULL : &sig, out, &outlen);
	if (ret == 1 && W.mode % 3 == 2) { CANARY("wrote"); }
	CANARY("returned");
}

//@job name=sm2_verify props=C01,C06 enforce=sm2_verify replace=sm2_signature_from_der,asn1_length_is_zero,sm2_do_verify
void h_sm2_verify(void)
{
	RD_SETUP; SM2_KEY key; uint8_t dgst[32];
	int ret = sm2_verify((I.mode & 1) ? NULL : &key, (I.mode & 2) ? NULL : dgst, (I.mode & 4) ? NULL : in, inlen);
	OBSERVE_INT("ret", ret);
	if (ret == 1) { CANARY("accepted"); }
	CANARY("returned");
}

typedef struct { uint8_t id[24]; size_t idlen; uint64_t X[4], Y[4], Z[4]; uint32_t npc; uint8_t mode; } z_in;
DECL_INPUT(z_in);

//@job name=sm2_verify_finish props=C01,C06 enforce=sm2_verify_finish replace=sm2_signature_from_der,asn1_length_is_zero,sm2_fast_verify,sm3_finish
void h_sm2_verify_finish(void)
{
	RD_SETUP; SM2_VERIFY_CTX *ctx = malloc(sizeof(SM2_VERIFY_CTX)); ASSUME(ctx != NULL);
	int ret = sm2_verify_finish((I.mode & 1) ? NULL : ctx, (I.mode & 4) ? NULL : in, inlen);
	if (ret == 1) { CANARY("accepted"); }
	CANARY("returned");
}
