/* C11 — TLCP / TLS 1.2 record protection, sender side (src/tls.c tls_cbc_encrypt) */
#define CONTRACT_CBCE_RECORDING
#define G_MC_EXPR verif_gk
#define CONTRACT_MEMCPY_SMALL16
#include "tls_record.h"
#include "libc.h"
#include "src/tls.c"
#include "stubs_stdio.h"
#ifdef VERIF_CBMC
#define HMSET(c) do { HM_FED(c) = 0; HM_TSEEN(c) = 0; } while (0)
#define GK_BIND(e, t) ASSUME(G_ek == (e) && G_tk == (t) && G_ek < 70000 && G_tk < 70000);
#else
#define HMSET(c) sm3_hmac_init(c, (const uint8_t *)"0123456789abcdef0123456789abcdef", 32)
#define GK_BIND(e, t)
#endif
typedef struct { uint8_t seq[8]; uint8_t hdr[5]; uint8_t first[32]; size_t inlen, ek, tk; uint8_t mode; } enc_in;
DECL_INPUT(enc_in);

//@job name=tls_cbc_encrypt props=C11,C18 enforce=tls_cbc_encrypt replace=sm4_cbc_encrypt_blocks,sm3_hmac_update,sm3_hmac_finish,rand_bytes unwindset=tls_cbc_encrypt.*:18 timeout=900
void h_tls_cbc_encrypt(void)
{
	INPUT(enc_in, R); ASSUME(R.inlen <= 16500); GK_BIND(R.ek, R.tk)
	SM3_HMAC_CTX *hctx = malloc(sizeof(SM3_HMAC_CTX)); ASSUME(hctx != NULL); HMSET(hctx);
	SM4_KEY *key = malloc(sizeof(SM4_KEY)); ASSUME(key != NULL);
	MKBUF(in, R.first, R.inlen); MKOUT(out, 16 + (R.inlen - R.inlen % 16) + 48); size_t *outlen = malloc(sizeof(size_t)); ASSUME(outlen != NULL);
	uint8_t *seq = malloc(8), *hdr = malloc(5); ASSUME(seq != NULL && hdr != NULL); memcpy(seq, R.seq, 8); memcpy(hdr, R.hdr, 5);
	int ret = tls_cbc_encrypt((R.mode & 1) ? NULL : hctx, (R.mode & 2) ? NULL : key, seq, hdr, (R.mode & 4) ? NULL : in, R.inlen, (R.mode & 8) ? NULL : out, outlen);
	OBSERVE_INT("ret", ret);
	if (ret == 1) { CANARY("protected"); if (R.inlen == 0) CANARY("empty-payload"); }
	CANARY("returned");
}
