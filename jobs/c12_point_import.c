/* C12 — point import / export of src/sm2_z256.c, relative to uninterpreted field operations. */
#include "sm2_point.h"
#include "src/sm2_z256.c"
#include "stubs_stdio.h"

typedef struct { uint8_t b[65]; size_t len; int odd; } oct_in;
typedef struct { uint64_t X[4], Y[4], Z[4]; } pt_in;
typedef struct { uint64_t v[4]; } z256_in;
DECL_INPUT(oct_in);
DECL_INPUT(pt_in);
DECL_INPUT(z256_in);

#define FIELD_R sm2_z256_modp_to_mont,sm2_z256_modp_from_mont,sm2_z256_modp_mont_mul,sm2_z256_modp_mont_sqr

//@job name=sm2_point_from_bytes props=C12,C20 enforce=sm2_z256_point_from_bytes replace=sm2_z256_modp_to_mont,sm2_z256_point_is_on_curve layer=proved-relative-to-UF-field
void h_sm2_point_from_bytes(void)
{
	SM2_STATICS_INIT;
	INPUT(oct_in, I); SM2_Z256_POINT P;
	MKBUF(in, I.b, 64);
	int ret = sm2_z256_point_from_bytes(&P, in);
	OBSERVE_INT("ret", ret);
	NCHECK(!(ret == 1) || !sm2_z256_is_zero(P.Z), "from_bytes == 1 never leaves the point at infinity");
	if (ret == 1) { CANARY("accepted"); }
	if (ret == 0) { CANARY("infinity"); }
	CANARY("returned");
}

//@job name=sm2_point_set_xy props=C12 enforce=sm2_z256_point_set_xy replace=sm2_z256_modp_to_mont,sm2_z256_point_is_on_curve layer=proved-relative-to-UF-field
void h_sm2_point_set_xy(void)
{
	SM2_STATICS_INIT;
	INPUT(z256_in, A); INPUT(z256_in, B); SM2_Z256_POINT P;
	int ret = sm2_z256_point_set_xy(&P, A.v, B.v);
	if (ret == 1) { CANARY("accepted"); }
	CANARY("returned");
}

//@job name=sm2_point_from_x_bytes props=C12 enforce=sm2_z256_point_from_x_bytes replace=sm2_z256_modp_to_mont,sm2_z256_modp_from_mont,sm2_z256_modp_mont_mul,sm2_z256_modp_mont_sqr,sm2_z256_modp_mont_sqrt layer=proved-relative-to-UF-field
void h_sm2_point_from_x_bytes(void)
{
	SM2_STATICS_INIT;
	INPUT(oct_in, I); SM2_Z256_POINT P;
	MKBUF(in, I.b, 32);
	int ret = sm2_z256_point_from_x_bytes(&P, in, I.odd);
	if (ret == 1) { CANARY("accepted"); }
	CANARY("returned");
}

/* every prefix byte, every length 1..65 (exact-size buffer) */
//@job name=sm2_point_from_octets props=C12,C06 enforce=sm2_z256_point_from_octets replace=sm2_z256_point_from_bytes,sm2_z256_point_from_x_bytes,sm2_z256_point_is_on_curve,sm2_z256_point_set_infinity layer=proved-relative-to-UF-field
void h_sm2_point_from_octets(void)
{
	SM2_STATICS_INIT;
	INPUT(oct_in, I); ASSUME(I.len >= 1 && I.len <= 65); SM2_Z256_POINT P;
	MKBUF(in0, I.b, I.len);
	/* bytes 32..64 of the recorded input (MKBUF copies the first 32) */
	if (I.len > 32) in0[32] = I.b[32]; if (I.len > 33) in0[33] = I.b[33]; if (I.len > 63) in0[63] = I.b[63]; if (I.len > 64) in0[64] = I.b[64];
	int ret = sm2_z256_point_from_octets(&P, in0, I.len);
	OBSERVE_INT("ret", ret);
	NCHECK(!(ret == 1 && I.len == 65) || !sm2_z256_is_zero(P.Z), "an accepted 65-byte encoding is never the point at infinity");
	if (ret == 1) { CANARY("accepted"); }
	CANARY("returned");
}

//@job name=sm2_point_to_compressed_octets props=C12 enforce=sm2_z256_point_to_compressed_octets replace=sm2_z256_point_get_xy layer=proved-relative-to-UF-field
void h_sm2_point_to_compressed_octets(void)
{
	SM2_STATICS_INIT;
	INPUT(pt_in, Q); SM2_Z256_POINT P; uint8_t out[33];
	memcpy(P.X, Q.X, 32); memcpy(P.Y, Q.Y, 32); memcpy(P.Z, Q.Z, 32);
	int ret = sm2_z256_point_to_compressed_octets(&P, out);
	NATIVE(uint64_t x[4], y[4]; uint8_t xb[32]; int r2 = sm2_z256_point_get_xy(&P, x, y); sm2_z256_to_bytes(x, xb););
	NCHECK(ret != 1 || memcmp(out + 1, xb, 32) == 0, "compressed octets carry the x coordinate");
	if (ret == 1) { CANARY("encoded"); }
	CANARY("returned");
}

//@job name=sm2_point_to_bytes props=C12 enforce=sm2_z256_point_to_bytes replace=sm2_z256_point_get_xy layer=proved-relative-to-UF-field
void h_sm2_point_to_bytes(void)
{
	SM2_STATICS_INIT;
	INPUT(pt_in, Q); SM2_Z256_POINT P; uint8_t out[64];
	memcpy(P.X, Q.X, 32); memcpy(P.Y, Q.Y, 32); memcpy(P.Z, Q.Z, 32);
	int ret = sm2_z256_point_to_bytes(&P, out);
	if (ret == 1) { CANARY("encoded"); }
	CANARY("returned");
}

//@job name=sm2_point_to_uncompressed_octets props=C12 enforce=sm2_z256_point_to_uncompressed_octets replace=sm2_z256_point_is_at_infinity,sm2_z256_point_to_bytes layer=proved-relative-to-UF-field
void h_sm2_point_to_uncompressed_octets(void)
{
	SM2_STATICS_INIT;
	INPUT(pt_in, Q); SM2_Z256_POINT P; uint8_t out[65];
	memcpy(P.X, Q.X, 32); memcpy(P.Y, Q.Y, 32); memcpy(P.Z, Q.Z, 32);
	int ret = sm2_z256_point_to_uncompressed_octets(&P, out);
	if (ret == 1) { CANARY("encoded"); }
	CANARY("returned");
}

//@job name=sm2_point_get_xy props=C12 enforce=sm2_z256_point_get_xy replace=sm2_z256_point_is_at_infinity,sm2_z256_modp_from_mont,sm2_z256_modp_mont_mul,sm2_z256_modp_mont_sqr,sm2_z256_modp_mont_inv trusted=sm2_z256_modp_mont_inv layer=proved-relative-to-UF-field
void h_sm2_point_get_xy(void)
{
	SM2_STATICS_INIT;
	INPUT(pt_in, Q); INPUT(oct_in, I); SM2_Z256_POINT P; uint64_t x[4], y[4];
	memcpy(P.X, Q.X, 32); memcpy(P.Y, Q.Y, 32); memcpy(P.Z, Q.Z, 32);
	int ret = sm2_z256_point_get_xy(&P, x, I.odd ? y : NULL);
	if (ret == 1) { CANARY("finite"); }
	CANARY("returned");
}
