/* C05 / C04 — SM4-GCM streaming interface (src/sm4_gcm.c): tag hold-back, release order, reported sizes */
#define G_MC_EXPR verif_gk
/* memcpy is described at the byte that ends up at position verif_gk of ctx->mac (or of a local staging array):
 * index = verif_gk + (offset of ctx->mac when dst lies in the context object, else 0) - offset(dst).
 * The memcpy clauses hold for every index value, so this choice only selects WHICH true fact the caller learns. */
#define G_MC_MEMCPY_EXPR (verif_gk + ((size_t)__CPROVER_POINTER_OBJECT(dst) == G_ctx_obj ? G_mac_off : (size_t)0) - (size_t)__CPROVER_POINTER_OFFSET(dst))
#define G_MC_MEMCPY_EXPR2 (G_sk + ((size_t)__CPROVER_POINTER_OBJECT(dst) == G_ctx_obj ? G_mac_off : (size_t)0) - (size_t)__CPROVER_POINTER_OFFSET(dst))
#include <stddef.h>
#ifdef VERIF_CBMC
size_t G_ctx_obj, G_mac_off; extern size_t G_sk;
#endif
#define CONTRACT_MEMCMP_RECORDING
#define CONTRACT_MEMCMP_SEQ
#define CONTRACT_SECURE_MEMCMP_RECORDING
#define CONTRACT_MEMXOR_RECORDING
#include <gmssl/sm4.h>
#include <gmssl/ghash.h>
#define GCM_KEY_T SM4_KEY
#define GCM_BLK sm4_encrypt
#define GCM_CTR32 sm4_ctr32_encrypt
#define GCM_ENCRYPT sm4_gcm_encrypt
#define GCM_DECRYPT sm4_gcm_decrypt
#define GCM_IV_MIN 1
#define GCM_IV_MAX 64
#define GCM_TAG_MIN 12
#define GCM_TAG_MAX 16
#define GCM_PT_MAX ((((uint64_t)1 << 39) - 256) >> 3)
#define GCM_STREAM
#define GCM_COARSE_OUT_FRAME
#ifndef GCM_NO_CONTENT
#define CONTRACT_MEMCPY_SMALL16
#endif
#include "gcm_tpl.h"
#include "src/sm4_gcm.c"
#include "stubs_stdio.h"

#ifdef VERIF_CBMC
#define GK_BIND(g, s) ASSUME(verif_gk == (g) && verif_gk < 16 && G_sk == (s));
#define SNAP_MAC(c) do { G_ctx_obj = (size_t)__CPROVER_POINTER_OBJECT(c); G_mac_off = (size_t)__CPROVER_POINTER_OFFSET((c)->mac); int i_; for (i_ = 0; i_ < 16; i_++) G_mac0[i_] = (c)->mac[i_]; } while (0)
#else
#define GK_BIND(g, s)
#define SNAP_MAC(c)
#endif

#ifndef GSU_MAXLEN
#define GSU_MAXLEN 5000
#endif
typedef struct { SM4_GCM_CTX ctx; uint8_t in[32]; size_t inlen; size_t sk; uint8_t gk, mode; } gsu_in;
DECL_INPUT(gsu_in);

/* every context state satisfying the invariant, every input length 0..4096+, exact-size output of the REPORTED size */
/* measured: 612 s (lengths / hold-back bookkeeping / memory safety), so both variants run in the thorough tier */
//@job name=sm4_gcm_decrypt_update props=C05,C04 enforce=sm4_gcm_decrypt_update replace=ghash_update,sm4_ctr32_encrypt_update,memcpy unwind=17 timeout=1800 tier=thorough defs=-DGSU_MAXLEN=33,-DGCM_NO_CONTENT bounded=input-chunk<=33-bytes(loop-free-function;covers-every-branch-combination-of-taglen,maclen,buffered-bytes)
//@job name=sm4_gcm_decrypt_update_content props=C05,C04 enforce=sm4_gcm_decrypt_update replace=ghash_update,sm4_ctr32_encrypt_update,memcpy unwind=17 timeout=3600 tier=thorough defs=-DGSU_MAXLEN=33 harness=h_sm4_gcm_decrypt_update bounded=input-chunk<=33-bytes
void h_sm4_gcm_decrypt_update(void)
{
	INPUT(gsu_in, U); ASSUME(U.inlen <= GSU_MAXLEN);
	GK_BIND(U.gk, U.sk)
	SM4_GCM_CTX *ctx = malloc(sizeof(SM4_GCM_CTX)); ASSUME(ctx != NULL); *ctx = U.ctx;
	ASSUME(ctx->taglen >= 12 && ctx->taglen <= 16 && ctx->maclen <= ctx->taglen && ctx->enc_ctx.block_nbytes < 16);
	SNAP_MAC(ctx);
	MKBUF(in, U.in, U.inlen);
	size_t cap = 16 * ((U.inlen + 15) / 16);
	MKOUT(out, cap);
	size_t *outlen = malloc(sizeof(size_t)); ASSUME(outlen != NULL);
	int ret = sm4_gcm_decrypt_update((U.mode & 1) ? NULL : ctx, (U.mode & 2) ? NULL : in, U.inlen, (U.mode & 4) ? NULL : out, (U.mode & 8) ? NULL : outlen);
	OBSERVE_INT("ret", ret);
	if (ret == 1 && !(U.mode & 8)) { OBSERVE_INT("outlen", *outlen); NCHECK(*outlen <= cap, "decrypt_update reports no more output than the size query promised"); }
	if (ret == 1 && !(U.mode & 4)) { CANARY("updated"); if (U.ctx.maclen + U.inlen <= U.ctx.taglen) CANARY("all-held-back"); else if (U.inlen > U.ctx.taglen) CANARY("bulk"); else CANARY("rotate"); }
	if (ret == 1 && (U.mode & 4)) CANARY("size-query");
	CANARY("returned");
}

typedef struct { SM4_GCM_CTX ctx; uint8_t gk, mode; size_t sk; } gsf_in;
DECL_INPUT(gsf_in);

//@job name=sm4_gcm_decrypt_finish props=C05,C04 enforce=sm4_gcm_decrypt_finish replace=ghash_finish,sm4_ctr32_encrypt_finish,gmssl_memxor,memcmp,gmssl_secure_memcmp,memset timeout=600
void h_sm4_gcm_decrypt_finish(void)
{
	INPUT(gsf_in, F);
	GK_BIND(F.gk, F.sk)
	SM4_GCM_CTX *ctx = malloc(sizeof(SM4_GCM_CTX)); ASSUME(ctx != NULL); *ctx = F.ctx;
	ASSUME(ctx->taglen >= 12 && ctx->taglen <= 16 && ctx->enc_ctx.block_nbytes < 16);
	MKOUT(out, 16);
	size_t *outlen = malloc(sizeof(size_t)); ASSUME(outlen != NULL);
	int ret = sm4_gcm_decrypt_finish((F.mode & 1) ? NULL : ctx, (F.mode & 4) ? NULL : out, (F.mode & 8) ? NULL : outlen);
	OBSERVE_INT("ret", ret);
	NATIVE(if (!(F.mode & 13)) { NCHECK(!(ret == 1 && F.ctx.maclen != F.ctx.taglen), "finish succeeds only with a complete held-back tag"); })
	if (ret == 1 && !(F.mode & 4)) CANARY("authenticated");
	if (ret != 1 && !(F.mode & 13) && F.ctx.maclen == F.ctx.taglen) CANARY("rejected-tag");
	CANARY("returned");
}

typedef struct { SM4_GCM_CTX ctx; uint8_t in[32]; size_t inlen; size_t sk; uint8_t gk, mode; } gse_in;
DECL_INPUT(gse_in);

//@job name=sm4_gcm_encrypt_update props=C04 enforce=sm4_gcm_encrypt_update replace=ghash_update,sm4_ctr32_encrypt_update timeout=900 defs=-DGSU_MAXLEN=4200 bounded=input-chunk<=4200-bytes(loop-free-function)
void h_sm4_gcm_encrypt_update(void)
{
	INPUT(gse_in, U); ASSUME(U.inlen <= GSU_MAXLEN);
	GK_BIND(U.gk, U.sk)
	SM4_GCM_CTX *ctx = malloc(sizeof(SM4_GCM_CTX)); ASSUME(ctx != NULL); *ctx = U.ctx;
	ASSUME(ctx->taglen >= 12 && ctx->taglen <= 16 && ctx->maclen <= ctx->taglen && ctx->enc_ctx.block_nbytes < 16);
	size_t cap = 16 * ((U.inlen + 15) / 16);
	/* separate buffers, or in place (then `in` must have the reported capacity too) when nothing is buffered */
	int inplace = (U.mode & 16) && ctx->enc_ctx.block_nbytes == 0;
	MKBUF(in, U.in, inplace ? cap : U.inlen);
	uint8_t *out; if (inplace) out = in; else { out = malloc(cap); ASSUME(out != NULL); }
	size_t *outlen = malloc(sizeof(size_t)); ASSUME(outlen != NULL);
	int ret = sm4_gcm_encrypt_update((U.mode & 1) ? NULL : ctx, (U.mode & 2) ? NULL : in, U.inlen, (U.mode & 4) ? NULL : out, (U.mode & 8) ? NULL : outlen);
	OBSERVE_INT("ret", ret);
	if (ret == 1 && !(U.mode & 4)) { CANARY("updated"); if (inplace) CANARY("in-place"); }
	CANARY("returned");
}

//@job name=sm4_gcm_encrypt_finish props=C04 enforce=sm4_gcm_encrypt_finish replace=ghash_update,ghash_finish,sm4_ctr32_encrypt_finish,gmssl_memxor,memcpy timeout=600
void h_sm4_gcm_encrypt_finish(void)
{
	INPUT(gsf_in, F);
	GK_BIND(F.gk, F.sk)
	SM4_GCM_CTX *ctx = malloc(sizeof(SM4_GCM_CTX)); ASSUME(ctx != NULL); *ctx = F.ctx;
	ASSUME(ctx->taglen >= 12 && ctx->taglen <= 16 && ctx->maclen <= ctx->taglen && ctx->enc_ctx.block_nbytes < 16);
	MKOUT(out, 32);
	size_t *outlen = malloc(sizeof(size_t)); ASSUME(outlen != NULL);
	int ret = sm4_gcm_encrypt_finish((F.mode & 1) ? NULL : ctx, (F.mode & 4) ? NULL : out, (F.mode & 8) ? NULL : outlen);
	OBSERVE_INT("ret", ret);
	if (ret == 1 && !(F.mode & 4)) CANARY("finished");
	CANARY("returned");
}

typedef struct { uint8_t key[16], iv[32], aad[32]; size_t keylen, ivlen, aadlen, taglen; uint8_t gk, mode; } gsi_in;
DECL_INPUT(gsi_in);

//@job name=sm4_gcm_encrypt_init props=C04,C05 enforce=sm4_gcm_encrypt_init replace=sm4_ctr32_encrypt_init,sm4_encrypt,ghash,ghash_init,memcpy,gmssl_secure_clear unwindset=ctr32_incr.0:5 timeout=600
void h_sm4_gcm_encrypt_init(void)
{
	INPUT(gsi_in, I); ASSUME(I.keylen <= 40 && I.ivlen <= 80 && I.aadlen <= 4096);
	GK_BIND(I.gk, 0)
	SM4_GCM_CTX *ctx = malloc(sizeof(SM4_GCM_CTX)); ASSUME(ctx != NULL);
	MKBUF(key, I.key, I.keylen); MKBUF(iv, I.iv, I.ivlen); MKBUF(aad, I.aad, I.aadlen);
	int ret = sm4_gcm_encrypt_init((I.mode & 1) ? NULL : ctx, (I.mode & 2) ? NULL : key, I.keylen, (I.mode & 4) ? NULL : iv, I.ivlen, (I.mode & 8) ? NULL : aad, I.aadlen, I.taglen);
	OBSERVE_INT("ret", ret);
	if (ret == 1) { CANARY("initialised"); if (I.ivlen != 12) CANARY("hashed-iv"); }
	CANARY("returned");
}
