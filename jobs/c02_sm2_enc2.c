/* C02 — DER-level decryption wrapper and the KDF / all-zero helpers (src/sm2_enc.c) */
#define CONTRACT_DECRYPT_RECORDING
#include "sm2_enc.h"
#include "src/sm2_enc.c"
#include "stubs_stdio.h"
#define MAXIN 32
typedef struct { uint8_t buf[MAXIN]; size_t inlen; int tag; uint8_t mode; size_t outlen; } der_in;
DECL_INPUT(der_in);
#define RD_SETUP \
	INPUT(der_in, I); ASSUME(I.inlen <= 4096); \
	MKBUF(buf, I.buf, I.inlen); const uint8_t *in = buf; size_t inlen = I.inlen

//@job name=sm2_decrypt props=C02,C06 enforce=sm2_decrypt replace=sm2_ciphertext_from_der,asn1_length_is_zero,sm2_do_decrypt
void h_sm2_decrypt(void)
{
	RD_SETUP; SM2_KEY key; MKOUT(out, SM2_MAX_PLAINTEXT_SIZE); size_t outlen;
	int ret = sm2_decrypt((I.mode & 1) ? NULL : &key, (I.mode & 2) ? NULL : in, inlen, (I.mode & 4) ? NULL : out, (I.mode & 8) ? NULL : &outlen);
	if (ret == 1) { CANARY("decrypted"); }
	CANARY("returned");
}

//@job name=sm2_all_zero props=C02,C06,C20 enforce=all_zero loops=1
void h_sm2_all_zero(void)
{
	RD_SETUP;
	int ret = all_zero(in, inlen);
	NCHECK(ret != 1 || inlen == 0 || in[0] == 0, "all_zero == 1 implies first byte zero");
	if (ret == 1) { CANARY("zero"); }
	CANARY("returned");
}

/* the loop writes through a walking pointer (memcpy to out): loop contracts ran out of memory (DESIGN 1.2), so the loop is
   unwound completely for outlen <= 255 = SM2_MAX_PLAINTEXT_SIZE, the largest value any caller in the library passes */
//@job name=sm2_kdf props=C02,C03,C06 enforce=sm2_kdf replace=sm3_init,sm3_update,sm3_finish unwindset=sm2_kdf.*:9 objbits=12 bounded="outlen <= 255 (exported parameter is size_t; in-library callers pass <= SM2_MAX_PLAINTEXT_SIZE)" timeout=900
void h_sm2_kdf(void)
{
	RD_SETUP; ASSUME(I.outlen <= 255); MKOUT(out, I.outlen);
	int ret = sm2_kdf(in, inlen, I.outlen, out);
	CANARY("returned");
}
