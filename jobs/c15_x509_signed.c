/* C15 / C07 — the signed wrapper: x509_signed_from_der, x509_signed_verify (src/x509_cer.c) */
#define CONTRACT_SIGNED
#define CONTRACT_VERIFY_FINISH_RECORDING
#include "x509.h"
#include "src/x509_cer.c"
#include "stubs_stdio.h"
#define MAXIN 24
typedef struct { uint8_t buf[MAXIN]; size_t len; size_t idlen; } sg_in;
DECL_INPUT(sg_in);

//@job name=x509_signed_verify props=C15,C07,C06 enforce=x509_signed_verify replace=x509_signed_from_der,asn1_length_is_zero,sm2_verify_init,sm2_verify_update,sm2_verify_finish
void h_x509_signed_verify(void)
{
	INPUT(sg_in, I); ASSUME(I.len <= (size_t)INT_MAX);
	MKBUF(a, I.buf, I.len); SM2_KEY key;
	int ret = x509_signed_verify(a, I.len, &key, "1234567812345678", I.idlen);
	if (ret == 1) { CANARY("verified"); }
	CANARY("returned");
}
