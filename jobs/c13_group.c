/* C13 layer 2 — Jacobian point doubling / addition / negation of src/sm2_z256.c relative to an uninterpreted Montgomery product */
#ifdef JOB_ADD
#define CONTRACT_POINT_DBL_RECORDING
#endif
#include "sm2_group.h"
#include "libc.h"
#include "src/sm2_z256.c"
#include "stubs_stdio.h"

typedef struct { uint64_t aX[4], aY[4], aZ[4], bX[4], bY[4], bZ[4]; uint8_t alias; } grp_in;
DECL_INPUT(grp_in);
#define LOADPT(P, x, y, z) do { memcpy((P)->X, x, 32); memcpy((P)->Y, y, 32); memcpy((P)->Z, z, 32); } while (0)
#ifdef VERIF_CBMC
#define COORDS_ASSUME(P) ASSUME(COORDS_OK(P))
#else
#define COORDS_ASSUME(P)
#endif
#define FIELD_L0 sm2_z256_modp_add,sm2_z256_modp_sub,sm2_z256_modp_dbl,sm2_z256_modp_tri,sm2_z256_modp_haf,sm2_z256_modp_neg

//@job name=sm2_point_dbl props=C13 enforce=sm2_z256_point_dbl replace=sm2_z256_modp_mont_mul,sm2_z256_modp_mont_sqr,sm2_z256_modp_add,sm2_z256_modp_sub,sm2_z256_modp_dbl,sm2_z256_modp_tri,sm2_z256_modp_haf layer=proved-relative-to-UF-field timeout=900
void h_sm2_point_dbl(void)
{
	INPUT(grp_in, G);
	SM2_Z256_POINT *A = malloc(sizeof *A), *R; ASSUME(A != NULL); LOADPT(A, G.aX, G.aY, G.aZ); COORDS_ASSUME(A);
	if (G.alias & 1) R = A; else { R = malloc(sizeof *R); ASSUME(R != NULL); }
	sm2_z256_point_dbl(R, A);
	CANARY("returned");
}

//@job name=sm2_point_add props=C13 enforce=sm2_z256_point_add replace=sm2_z256_point_dbl,sm2_z256_modp_mont_mul,sm2_z256_modp_mont_sqr,sm2_z256_modp_sub,sm2_z256_modp_dbl,sm2_z256_equ,sm2_z256_copy_conditional defs=-DJOB_ADD layer=proved-relative-to-UF-field timeout=1800
void h_sm2_point_add(void)
{
	INPUT(grp_in, G);
	SM2_Z256_POINT *a = malloc(sizeof *a), *b = malloc(sizeof *b), *r; ASSUME(a != NULL && b != NULL);
	LOADPT(a, G.aX, G.aY, G.aZ); LOADPT(b, G.bX, G.bY, G.bZ); COORDS_ASSUME(a); COORDS_ASSUME(b);
	if ((G.alias & 3) == 1) r = a; else if ((G.alias & 3) == 2) r = b; else { r = malloc(sizeof *r); ASSUME(r != NULL); }
	sm2_z256_point_add(r, a, b);
	NATIVE({ SM2_Z256_POINT chk; int ainf = sm2_z256_is_zero(G.aZ) == 1, binf = sm2_z256_is_zero(G.bZ) == 1;
		if (binf) { LOADPT(&chk, G.aX, G.aY, G.aZ); CHECK(memcmp(r, &chk, sizeof chk) == 0, "P + O == P"); }
		else if (ainf) { LOADPT(&chk, G.bX, G.bY, G.bZ); CHECK(memcmp(r, &chk, sizeof chk) == 0, "O + Q == Q"); }
		/* the counterexample is over an uninterpreted product; re-evaluate the identity law on the encodings of infinity the
		   library itself produces, (0:0:0) and (1:1:0), with the generator as the finite operand */
		{ SM2_Z256_POINT Gp, O, R2; sm2_z256_t one_; sm2_z256_set_one(one_); sm2_z256_point_mul_generator(&Gp, one_); memset(&O, 0, sizeof O);
		  sm2_z256_point_add(&R2, &Gp, &O); CHECK(memcmp(&R2, &Gp, sizeof Gp) == 0, "G + (0:0:0) == G");
		  sm2_z256_point_add(&R2, &O, &Gp); CHECK(memcmp(&R2, &Gp, sizeof Gp) == 0, "(0:0:0) + G == G");
		  sm2_z256_point_set_infinity(&O);
		  sm2_z256_point_add(&R2, &Gp, &O); CHECK(memcmp(&R2, &Gp, sizeof Gp) == 0, "G + (1:1:0) == G"); } })
	CANARY("returned");
}

//@job name=sm2_point_neg props=C13 enforce=sm2_z256_point_neg replace=sm2_z256_copy,sm2_z256_modp_neg timeout=600
void h_sm2_point_neg(void)
{
	INPUT(grp_in, G);
	SM2_Z256_POINT *P = malloc(sizeof *P), *R; ASSUME(P != NULL); LOADPT(P, G.aX, G.aY, G.aZ); COORDS_ASSUME(P);
	if (G.alias & 1) R = P; else { R = malloc(sizeof *R); ASSUME(R != NULL); }
	sm2_z256_point_neg(R, P);
	CANARY("returned");
}
