/* C15 — CRL lookup by serial number (src/x509_crl.c) */
#include "x509_crl.h"
#include "src/x509_crl.c"
#include "stubs_stdio.h"
typedef struct { uint8_t first[32]; size_t dlen; uint8_t serial[20]; size_t serial_len; unsigned ci; } crl_in;
DECL_INPUT(crl_in);
//@job name=x509_crl_lookup props=C15,C06 enforce=x509_revoked_certs_find_revoked_cert_by_serial_number replace=x509_revoked_cert_from_der,memcmp loops=1 timeout=900 native=0
void h_x509_crl_lookup(void)
{
	INPUT(crl_in, C); ASSUME(C.dlen <= 5000 && C.serial_len >= 1 && C.serial_len <= 20);
#ifdef VERIF_CBMC
	ASSUME(verif_rv_ci == C.ci);
#endif
	MKBUF(d, C.first, C.dlen); MKBUF(serial, C.serial, C.serial_len);
	time_t *rd = malloc(sizeof(time_t)); const uint8_t **ex = malloc(sizeof(*ex)); size_t *exl = malloc(sizeof(size_t)); ASSUME(rd != NULL && ex != NULL && exl != NULL);
	int ret = x509_revoked_certs_find_revoked_cert_by_serial_number(d, C.dlen, serial, C.serial_len, rd, ex, exl);
	if (ret == 1) { CANARY("revoked"); }
	if (ret == 0) { CANARY("not-listed"); }
	CANARY("returned");
}
