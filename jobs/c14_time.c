/* C14 — time conversion (src/asn1.c asn1_time_to_str / asn1_time_from_str) against the Gregorian calendar, every year 1970..9999 */
#include "asn1_time.h"
#include "libc.h"
#include "src/asn1.c"
#include "stubs_stdio.h"

typedef struct { char str[16]; int64_t t; int utc; } tm_in;
DECL_INPUT(tm_in);

/* year loop closed by its invariant (days == D(year0) - D(year)); digit scan (<= 14) and month loop (<= 11) unwound completely */
//@job name=asn1_time_from_str props=C14,C06 enforce=asn1_time_from_str loops=1 timeout=2400 solver=kissat
void h_asn1_time_from_str(void)
{
	INPUT(tm_in, T);
	size_t n = (T.utc & 1) ? 13 : 15;
	char *s = malloc(n); ASSUME(s != NULL); { size_t i; for (i = 0; i < 15; i++) if (i < n) s[i] = T.str[i]; }
	time_t ts = 0;
	int ret = asn1_time_from_str(T.utc, &ts, s);
	OBSERVE_INT("ret", ret); OBSERVE_INT("ts", ts);
	NATIVE(if (ret == 1) { struct tm g; time_t tt = ts; char b[32]; gmtime_r(&tt, &g); strftime(b, sizeof b, (T.utc & 1) ? "%y%m%d%H%M%SZ" : "%Y%m%d%H%M%SZ", &g);
		CHECK(memcmp(b, s, n) == 0, "accepted text denotes the returned instant (checked against gmtime)"); })
	if (ret == 1) { CANARY("accepted"); }
	CANARY("returned");
}

//@job name=asn1_time_to_str props=C14 enforce=asn1_time_to_str loops=1 timeout=5400 solver=kissat tier=thorough
void h_asn1_time_to_str(void)
{
	INPUT(tm_in, T);
	size_t n = (T.utc & 1) ? 13 : 15;
	char *s = malloc(n); ASSUME(s != NULL);
	int ret = asn1_time_to_str(T.utc, (time_t)T.t, s);
	OBSERVE_INT("ret", ret);
	NATIVE(if (ret == 1) { struct tm g; time_t tt = (time_t)T.t; char b[32]; gmtime_r(&tt, &g); strftime(b, sizeof b, (T.utc & 1) ? "%y%m%d%H%M%SZ" : "%Y%m%d%H%M%SZ", &g);
		OBSERVE_BYTES("str", s, n); CHECK(T.t >= 0 && memcmp(b, s, n) == 0, "emitted text is the calendar text of the instant (checked against gmtime)"); })
	if (ret == 1) { CANARY("encoded"); }
	CANARY("returned");
}

/* lemma over the two contracts: decode(encode(t)) == t for every t the encoder accepts.  The two calls are represented by
   their postcondition predicates (the very macros the contracts consist of), assumed over arbitrary results: this is what
   --replace-call-with-contract does, without the thousands of frame obligations DFCC would add to a harness that has no code */
typedef struct { char s[15]; int64_t t, back; int utc, r1, r2; } lem_in;
DECL_INPUT(lem_in);
//@job name=asn1_time_roundtrip props=C14 unwind=2 layer=lemma-over-contract-predicates timeout=900 checks=-signed,-ptrarith native=0 solver=kissat
void h_asn1_time_roundtrip(void)
{
	INPUT(lem_in, L);
	ASSUME(T_TO_STR_POST(L.r1, L.utc, L.t, L.s));
	ASSUME(T_FROM_STR_POST(L.r2, L.utc, L.back, L.s));
	if (L.r1 == 1) {
		CHECK(L.r2 == 1, "the encoder's text is accepted by the decoder");
		CHECK(L.r2 != 1 || L.back == L.t, "decode(encode(t)) == t");
		CANARY("roundtrip");
	}
	CANARY("returned");
}
