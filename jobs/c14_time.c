/* C14 — time conversion (src/asn1.c asn1_time_to_str / asn1_time_from_str) against the Gregorian calendar, every year 1970..9999 */
#include "asn1_time.h"
#include "libc.h"
#include "src/asn1.c"
#include "stubs_stdio.h"

typedef struct { char str[16]; int64_t t; int utc; } tm_in;
DECL_INPUT(tm_in);

/* year loop closed by its invariant (days == D(year0) - D(year)); digit scan (<= 14) and month loop (<= 11) unwound completely */
//@job name=asn1_time_from_str props=C14,C06 enforce=asn1_time_from_str loops=1 timeout=2400 solver=kissat
void h_asn1_time_from_str(void)
{
	INPUT(tm_in, T);
	size_t n = (T.utc & 1) ? 13 : 15;
	char *s = malloc(n); ASSUME(s != NULL); { size_t i; for (i = 0; i < 15; i++) if (i < n) s[i] = T.str[i]; }
	time_t ts = 0;
	int ret = asn1_time_from_str(T.utc, &ts, s);
	OBSERVE_INT("ret", ret); OBSERVE_INT("ts", ts);
	NATIVE(if (ret == 1) { struct tm g; time_t tt = ts; char b[32]; gmtime_r(&tt, &g); strftime(b, sizeof b, (T.utc & 1) ? "%y%m%d%H%M%SZ" : "%Y%m%d%H%M%SZ", &g);
		CHECK(memcmp(b, s, n) == 0, "accepted text denotes the returned instant (checked against gmtime)"); })
	if (ret == 1) { CANARY("accepted"); }
	CANARY("returned");
}

//@job name=asn1_time_to_str props=C14 enforce=asn1_time_to_str loops=1 timeout=5400 solver=kissat tier=thorough
void h_asn1_time_to_str(void)
{
	INPUT(tm_in, T);
	size_t n = (T.utc & 1) ? 13 : 15;
	char *s = malloc(n); ASSUME(s != NULL);
	int ret = asn1_time_to_str(T.utc, (time_t)T.t, s);
	OBSERVE_INT("ret", ret);
	NATIVE(if (ret == 1) { struct tm g; time_t tt = (time_t)T.t; char b[32]; gmtime_r(&tt, &g); strftime(b, sizeof b, (T.utc & 1) ? "%y%m%d%H%M%SZ" : "%Y%m%d%H%M%SZ", &g);
		OBSERVE_BYTES("str", s, n); CHECK(T.t >= 0 && memcmp(b, s, n) == 0, "emitted text is the calendar text of the instant (checked against gmtime)"); })
	if (ret == 1) { CANARY("encoded"); }
	CANARY("returned");
}

/* lemma over the two contracts: decode(encode(t)) == t for every t the encoder accepts */
//@job name=asn1_time_roundtrip props=C14 replace=asn1_time_to_str,asn1_time_from_str layer=lemma timeout=900
void h_asn1_time_roundtrip(void)
{
	INPUT(tm_in, T);
	size_t n = (T.utc & 1) ? 13 : 15;
	char *s = malloc(n); ASSUME(s != NULL);
	time_t back = 0;
	int r1 = asn1_time_to_str(T.utc, (time_t)T.t, s);
	if (r1 == 1) {
		int r2 = asn1_time_from_str(T.utc, &back, s);
		CHECK(r2 == 1, "the encoder's text is accepted by the decoder");
		CHECK(r2 != 1 || (int64_t)back == T.t, "decode(encode(t)) == t");
		CANARY("roundtrip");
	}
	CANARY("returned");
}
