/* C04 — buffered streaming layer of SM4-CBC (src/sm4_cbc.c): encrypt_update, and decrypt_update with its held-back last block */
#define G_MC_EXPR verif_gk
#define CONTRACT_MEMCPY_SMALL16
#ifdef VERIF_CBMC
#include <stdint.h>
const uint8_t G_zero_byte = 0;
#endif
#ifdef ST_DEC
#define ST_UPDATE sm4_cbc_decrypt_update
#define ST_BLOCKS sm4_cbc_decrypt_blocks
#define ST_HOLDBACK 1
#else
#define ST_UPDATE sm4_cbc_encrypt_update
#define ST_BLOCKS sm4_cbc_encrypt_blocks
#define ST_HOLDBACK 0
#endif
#define ST_CTX_T SM4_CBC_CTX
#define ST_IVFIELD iv
#include "sm4_stream_tpl.h"
#include "src/sm4_cbc.c"
#include "stubs_stdio.h"
#ifdef VERIF_CBMC
#define GK_BIND(g, s) ASSUME(verif_gk == (g) && verif_gk < 16 && G_sk == (s));
#define SNAP_BLK(c) do { int i_; for (i_ = 0; i_ < 16; i_++) G_blk0[i_] = (c)->block[i_]; } while (0)
#else
#define GK_BIND(g, s)
#define SNAP_BLK(c)
#endif
#ifndef ST_MAXLEN
#define ST_MAXLEN 70
#endif
typedef struct { SM4_CBC_CTX ctx; uint8_t in[32]; size_t inlen, sk; uint8_t gk, mode; } st_in;
DECL_INPUT(st_in);

//@job name=sm4_cbc_encrypt_update props=C04 enforce=sm4_cbc_encrypt_update replace=sm4_cbc_encrypt_blocks,memcpy unwind=17 timeout=1800 bounded=input-chunk<=70-bytes(loop-free-function)
//@job name=sm4_cbc_decrypt_update props=C04,C05 enforce=sm4_cbc_decrypt_update replace=sm4_cbc_decrypt_blocks,memcpy unwind=17 timeout=1800 defs=-DST_DEC harness=h_sm4_cbc_encrypt_update bounded=input-chunk<=70-bytes(loop-free-function)
void h_sm4_cbc_encrypt_update(void)
{
	INPUT(st_in, U); ASSUME(U.inlen <= ST_MAXLEN); GK_BIND(U.gk, U.sk)
	SM4_CBC_CTX *ctx = malloc(sizeof *ctx); ASSUME(ctx != NULL); *ctx = U.ctx; ASSUME(ctx->block_nbytes <= 18); SNAP_BLK(ctx);
	size_t cap = 16 * ((U.inlen + 15) / 16);
	MKBUF(in, U.in, U.inlen); MKOUT(out, cap);
	size_t *outlen = malloc(sizeof(size_t)); ASSUME(outlen != NULL);
	int ret = ST_UPDATE((U.mode & 1) ? NULL : ctx, (U.mode & 2) ? NULL : in, U.inlen, (U.mode & 4) ? NULL : out, (U.mode & 8) ? NULL : outlen);
	OBSERVE_INT("ret", ret);
	if (ret == 1 && !(U.mode & 4)) { CANARY("updated"); if (U.ctx.block_nbytes && U.inlen >= 40) CANARY("two-calls"); }
	CANARY("returned");
}
