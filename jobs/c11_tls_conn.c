/* C11 — application-data send/receive path of TLCP / TLS 1.2 (src/tls.c tls_decrypt_recv, tls_encrypt_send) */
#define G_MC_EXPR verif_gk
#define CONTRACT_SEQ_INCR_RECORDING
#include "tls_conn.h"
#include "src/tls.c"
#include "stubs_stdio.h"
typedef struct { int is_client, protocol, sock, type; size_t datalen, inlen, gk; uint8_t in[32]; uint8_t mode; } tc_in;
DECL_INPUT(tc_in);
#ifdef VERIF_CBMC
#define GK_BIND(g) ASSUME(verif_gk == (g) && verif_gk < 20000);
#else
#define GK_BIND(g)
#endif

//@job name=tls_decrypt_recv props=C11 enforce=tls_decrypt_recv replace=tls_record_recv,tls_record_decrypt,tls_seq_num_incr timeout=900 native=0
void h_tls_decrypt_recv(void)
{
	INPUT(tc_in, T); GK_BIND(T.gk)
	TLS_CONNECT *conn = malloc(sizeof(TLS_CONNECT)); ASSUME(conn != NULL);
	conn->is_client = T.is_client; conn->protocol = T.protocol; conn->sock = T.sock; conn->datalen = T.datalen;
	int ret = tls_decrypt_recv(conn);
	if (ret == 1) { CANARY("received"); }
	if (ret == -1) { CANARY("refused"); }
	CANARY("returned");
}

/* tls_encrypt_send: the contract in contracts/tls_conn.h was written, but every variant of the job (real or replaced memcpy,
   payload bounded to 40 bytes) exhausted 12 GB in propositional reduction within a minute (three 18 KB buffers inside one
   60 KB object); not covered. */
