/* C06 — simple handshake-message getters of src/tls.c: outputs are slices of the record */
#define CONTRACT_TLS_GETTERS
#define CONTRACT_TLS_HELLO
#include "tls_names.h"
#include "tls_handshake.h"
#include "src/tls.c"
#include "stubs_stdio.h"
typedef struct { uint8_t first[32]; size_t len; uint8_t mode; } gt_in;
DECL_INPUT(gt_in);
#define GT_H(fn) \
	INPUT(gt_in, H); ASSUME(H.len >= 5 && H.len <= 5 + 65535); \
	MKBUF(record, H.first, H.len); ASSUME(((((size_t)record[3]) << 8) | record[4]) + 5 == H.len); \
	const uint8_t **out = malloc(sizeof(*out)); size_t *outlen = malloc(sizeof(size_t)); ASSUME(out && outlen); \
	int ret = fn((H.mode & 1) ? NULL : record, (H.mode & 2) ? NULL : out, (H.mode & 4) ? NULL : outlen); \
	if (ret == 1) { CANARY("parsed"); } \
	CANARY("returned");
//@job name=tls_get_client_key_exchange_pke props=C06 enforce=tls_record_get_handshake_client_key_exchange_pke replace=tls_record_get_handshake,tls_uint16array_from_bytes,tls_length_is_zero timeout=600
void h_tls_get_client_key_exchange_pke(void) { GT_H(tls_record_get_handshake_client_key_exchange_pke) }
//@job name=tls_get_certificate_verify props=C06 enforce=tls_record_get_handshake_certificate_verify replace=tls_record_get_handshake,tls_uint16array_from_bytes,tls_length_is_zero timeout=600
void h_tls_get_certificate_verify(void) { GT_H(tls_record_get_handshake_certificate_verify) }
//@job name=tls_get_finished props=C06 enforce=tls_record_get_handshake_finished replace=tls_record_get_handshake timeout=600
void h_tls_get_finished(void) { GT_H(tls_record_get_handshake_finished) }
//@job name=tls_get_server_hello_done props=C06 enforce=tls_record_get_handshake_server_hello_done replace=tls_record_get_handshake timeout=600
void h_tls_get_server_hello_done(void)
{
	INPUT(gt_in, H); ASSUME(H.len >= 5 && H.len <= 5 + 65535);
	MKBUF(record, H.first, H.len); ASSUME(((((size_t)record[3]) << 8) | record[4]) + 5 == H.len);
	int ret = tls_record_get_handshake_server_hello_done((H.mode & 1) ? NULL : record);
	if (ret == 1) { CANARY("parsed"); }
	CANARY("returned");
}

//@job name=tls_get_server_hello props=C06 enforce=tls_record_get_handshake_server_hello replace=tls_record_get_handshake,tls_uint16_from_bytes,tls_uint8_from_bytes,tls_array_from_bytes,tls_uint8array_from_bytes,tls_uint16array_from_bytes,tls_protocol_name,tls_cipher_suite_name timeout=600
void h_tls_get_server_hello(void)
{
	INPUT(gt_in, H); ASSUME(H.len >= 5 && H.len <= 5 + 65535);
	MKBUF(record, H.first, H.len); ASSUME(((((size_t)record[3]) << 8) | record[4]) + 5 == H.len);
	int *protocol = malloc(sizeof(int)), *cs = malloc(sizeof(int)); const uint8_t **rnd = malloc(sizeof(*rnd)), **sid = malloc(sizeof(*sid)), **exts = malloc(sizeof(*exts));
	size_t *sidlen = malloc(sizeof(size_t)), *extslen = malloc(sizeof(size_t)); ASSUME(protocol && cs && rnd && sid && exts && sidlen && extslen);
	int ret = tls_record_get_handshake_server_hello((H.mode & 1) ? NULL : record, protocol, rnd, sid, sidlen, cs, exts, extslen);
	if (ret == 1) { CANARY("parsed"); if (*sid) CANARY("session-id"); if (*exts) CANARY("extensions"); }
	CANARY("returned");
}

//@job name=tls_get_client_hello props=C06 enforce=tls_record_get_handshake_client_hello replace=tls_record_get_handshake,tls_uint16_from_bytes,tls_array_from_bytes,tls_uint8array_from_bytes,tls_uint16array_from_bytes,tls_protocol_name timeout=600
void h_tls_get_client_hello(void)
{
	INPUT(gt_in, H); ASSUME(H.len >= 5 && H.len <= 5 + 65535);
	MKBUF(record, H.first, H.len); ASSUME(((((size_t)record[3]) << 8) | record[4]) + 5 == H.len);
	int *protocol = malloc(sizeof(int)); const uint8_t **rnd = malloc(sizeof(*rnd)), **sid = malloc(sizeof(*sid)), **cs = malloc(sizeof(*cs)), **exts = malloc(sizeof(*exts));
	size_t *sidlen = malloc(sizeof(size_t)), *cslen = malloc(sizeof(size_t)), *extslen = malloc(sizeof(size_t)); ASSUME(protocol && cs && rnd && sid && exts && sidlen && cslen && extslen);
	int ret = tls_record_get_handshake_client_hello((H.mode & 1) ? NULL : record, protocol, rnd, sid, sidlen, cs, cslen, exts, extslen);
	if (ret == 1) { CANARY("parsed"); if (*sid) CANARY("session-id"); if (*exts) CANARY("extensions"); }
	CANARY("returned");
}

//@job name=tls_get_certificate_request props=C06 enforce=tls_record_get_handshake_certificate_request replace=tls_record_get_handshake,tls_uint8array_from_bytes,tls_uint16array_from_bytes,tls_length_is_zero,tls_cert_type_name unwindset=tls_record_get_handshake_certificate_request.*:4 partial=1 bounded=at-most-3-certificate-types-and-3-CA-names(loops-unwound,no-unwinding-assertion) trusted=tls_cert_type_name timeout=900
void h_tls_get_certificate_request(void)
{
	INPUT(gt_in, H); ASSUME(H.len >= 5 && H.len <= 5 + 65535);
	MKBUF(record, H.first, H.len); ASSUME(((((size_t)record[3]) << 8) | record[4]) + 5 == H.len);
	const uint8_t **ct = malloc(sizeof(*ct)), **ca = malloc(sizeof(*ca)); size_t *ctl = malloc(sizeof(size_t)), *cal = malloc(sizeof(size_t)); ASSUME(ct && ca && ctl && cal);
	int ret = tls_record_get_handshake_certificate_request((H.mode & 1) ? NULL : record, ct, ctl, ca, cal);
	if (ret == 1) { CANARY("parsed"); if (*ca) CANARY("ca-names"); }
	CANARY("returned");
}
