/* C04 — counter advance of sm4_ctr_encrypt_blocks / sm4_ctr32_encrypt_blocks (src/sm4.c, default table implementation).
 * BOUNDED stand-in: a loop contract over the block loop (32 table-driven rounds per iteration) exhausted memory (DESIGN 7.2),
 * so the loop is unwound: at most 2 blocks per call, every entry counter value (so every carry position is covered). */
#include "sm4_ctr_blocks.h"
#include "src/sm4.c"
#include "stubs_stdio.h"
typedef struct { uint8_t ctr[16]; size_t nblocks; } cb_in;
DECL_INPUT(cb_in);
#define CB_H(fn) \
	INPUT(cb_in, H); ASSUME(H.nblocks <= 2); \
	SM4_KEY *key = malloc(sizeof(*key)); ASSUME(key); \
	MKBUF(ctr, H.ctr, 16); MKOUT(in, 32); MKOUT(out, 32); \
	fn(key, ctr, in, H.nblocks, out); \
	if (H.nblocks == 2) CANARY("two-blocks"); \
	if (H.nblocks == 2 && H.ctr[15] == 0xff && H.ctr[8] == 0xff && ctr[7] != H.ctr[7]) CANARY("carry-into-high-half"); \
	CANARY("returned");
//@job name=sm4_ctr_encrypt_blocks_counter props=C04 enforce=sm4_ctr_encrypt_blocks unwindset=sm4_ctr_encrypt_blocks.*:3 partial=1 bounded=at-most-2-blocks-per-call(no-unwinding-assertion) timeout=900 native=0
void h_sm4_ctr_encrypt_blocks_counter(void) { CB_H(sm4_ctr_encrypt_blocks) }
//@job name=sm4_ctr32_encrypt_blocks_counter props=C04 enforce=sm4_ctr32_encrypt_blocks unwindset=sm4_ctr32_encrypt_blocks.*:3 partial=1 bounded=at-most-2-blocks-per-call(no-unwinding-assertion) timeout=900 native=0
void h_sm4_ctr32_encrypt_blocks_counter(void)
{
	INPUT(cb_in, H); ASSUME(H.nblocks <= 2);
	SM4_KEY *key = malloc(sizeof(*key)); ASSUME(key);
	MKBUF(ctr, H.ctr, 16); MKOUT(in, 32); MKOUT(out, 32);
	sm4_ctr32_encrypt_blocks(key, ctr, in, H.nblocks, out);
	if (H.nblocks == 2) CANARY("two-blocks");
	if (H.nblocks == 2 && H.ctr[15] == 0xff && H.ctr[12] == 0xff && H.ctr[13] == 0xff && H.ctr[14] == 0xff) CANARY("wraps-mod-2^32");
	CANARY("returned");
}
