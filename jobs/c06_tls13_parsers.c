/* C06 — TLS 1.3 parsers that walk peer-supplied windows (src/tls13.c) */
#define CONTRACT_TLS_GETTERS
#define CONTRACT_TLS13_PARSERS
#include "tls_handshake.h"
#include "src/tls13.c"
#include "stubs_stdio.h"
typedef struct { uint8_t first[32]; size_t len; int alg0; } tp_in;
DECL_INPUT(tp_in);
//@job name=tls13_server_hello_extensions_get props=C06 enforce=tls13_server_hello_extensions_get replace=tls_uint16_from_bytes,tls_uint16array_from_bytes,tls13_process_server_key_share loops=1 timeout=900
void h_tls13_server_hello_extensions_get(void)
{
	INPUT(tp_in, H); ASSUME(H.len <= 65535);
	MKBUF(exts, H.first, H.len); SM2_Z256_POINT *pt = malloc(sizeof *pt); ASSUME(pt != NULL);
	int ret = tls13_server_hello_extensions_get(exts, H.len, pt);
	OBSERVE_INT("ret", ret);
	if (ret == 1) { CANARY("accepted"); }
	CANARY("returned");
}
//@job name=tls13_get_certificate_verify props=C06 enforce=tls13_record_get_handshake_certificate_verify replace=tls_record_get_handshake,tls_uint16_from_bytes,tls_uint16array_from_bytes,tls_length_is_zero timeout=600
void h_tls13_get_certificate_verify(void)
{
	INPUT(tp_in, H); ASSUME(H.len >= 5 && H.len <= 5 + 65535);
	MKBUF(record, H.first, H.len); ASSUME(((((size_t)record[3]) << 8) | record[4]) + 5 == H.len);
	int *alg = malloc(sizeof(int)); const uint8_t **sig = malloc(sizeof(*sig)); size_t *siglen = malloc(sizeof(size_t)); ASSUME(alg && sig && siglen);
	*alg = H.alg0;
	int ret = tls13_record_get_handshake_certificate_verify(record, alg, sig, siglen);
	OBSERVE_INT("ret", ret);
	if (ret == 1) { CANARY("parsed"); }
	CANARY("returned");
}
