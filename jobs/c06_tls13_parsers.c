/* C06 — TLS 1.3 parsers that walk peer-supplied windows (src/tls13.c) */
#define CONTRACT_TLS_GETTERS
#define CONTRACT_TLS13_PARSERS
#define CONTRACT_TLS13_GETTERS
#include "tls_handshake.h"
#include "src/tls13.c"
#include "stubs_stdio.h"
typedef struct { uint8_t first[32]; size_t len; int alg0; } tp_in;
DECL_INPUT(tp_in);
//@job name=tls13_server_hello_extensions_get props=C06 enforce=tls13_server_hello_extensions_get replace=tls_uint16_from_bytes,tls_uint16array_from_bytes,tls13_process_server_key_share loops=1 timeout=900
void h_tls13_server_hello_extensions_get(void)
{
	INPUT(tp_in, H); ASSUME(H.len <= 65535);
	MKBUF(exts, H.first, H.len); SM2_Z256_POINT *pt = malloc(sizeof *pt); ASSUME(pt != NULL);
	int ret = tls13_server_hello_extensions_get(exts, H.len, pt);
	OBSERVE_INT("ret", ret);
	if (ret == 1) { CANARY("accepted"); }
	CANARY("returned");
}
//@job name=tls13_get_certificate_verify props=C06 enforce=tls13_record_get_handshake_certificate_verify replace=tls_record_get_handshake,tls_uint16_from_bytes,tls_uint16array_from_bytes,tls_length_is_zero timeout=600
void h_tls13_get_certificate_verify(void)
{
	INPUT(tp_in, H); ASSUME(H.len >= 5 && H.len <= 5 + 65535);
	MKBUF(record, H.first, H.len); ASSUME(((((size_t)record[3]) << 8) | record[4]) + 5 == H.len);
	int *alg = malloc(sizeof(int)); const uint8_t **sig = malloc(sizeof(*sig)); size_t *siglen = malloc(sizeof(size_t)); ASSUME(alg && sig && siglen);
	*alg = H.alg0;
	int ret = tls13_record_get_handshake_certificate_verify(record, alg, sig, siglen);
	OBSERVE_INT("ret", ret);
	if (ret == 1) { CANARY("parsed"); }
	CANARY("returned");
}

//@job name=tls13_get_finished props=C06 enforce=tls13_record_get_handshake_finished replace=tls_record_get_handshake timeout=600
void h_tls13_get_finished(void)
{
	INPUT(tp_in, H); ASSUME(H.len >= 5 && H.len <= 5 + 65535);
	MKBUF(record, H.first, H.len); ASSUME(((((size_t)record[3]) << 8) | record[4]) + 5 == H.len);
	const uint8_t **out = malloc(sizeof(*out)); size_t *outlen = malloc(sizeof(size_t)); ASSUME(out && outlen);
	int ret = tls13_record_get_handshake_finished(record, out, outlen);
	if (ret == 1) { CANARY("parsed"); }
	CANARY("returned");
}
//@job name=tls13_get_certificate_request props=C06 enforce=tls13_record_get_handshake_certificate_request replace=tls_record_get_handshake,tls_uint8array_from_bytes,tls_uint16array_from_bytes,tls_length_is_zero timeout=600
void h_tls13_get_certificate_request(void)
{
	INPUT(tp_in, H); ASSUME(H.len >= 5 && H.len <= 5 + 65535);
	MKBUF(record, H.first, H.len); ASSUME(((((size_t)record[3]) << 8) | record[4]) + 5 == H.len);
	const uint8_t **rc = malloc(sizeof(*rc)), **ex = malloc(sizeof(*ex)); size_t *rcl = malloc(sizeof(size_t)), *exl = malloc(sizeof(size_t)); ASSUME(rc && ex && rcl && exl);
	int ret = tls13_record_get_handshake_certificate_request(record, rc, rcl, ex, exl);
	if (ret == 1) { CANARY("parsed"); }
	CANARY("returned");
}

//@job name=tls13_get_encrypted_extensions props=C06 enforce=tls13_record_get_handshake_encrypted_extensions replace=tls_record_get_handshake,tls_uint16array_from_bytes timeout=600
void h_tls13_get_encrypted_extensions(void)
{
	INPUT(tp_in, H); ASSUME(H.len >= 5 && H.len <= 5 + 65535);
	MKBUF(record, H.first, H.len); ASSUME(((((size_t)record[3]) << 8) | record[4]) + 5 == H.len);
	int ret = tls13_record_get_handshake_encrypted_extensions(record);
	if (ret == 1) { CANARY("parsed"); }
	CANARY("returned");
}

//@job name=tls13_get_certificate props=C06 enforce=tls13_record_get_handshake_certificate replace=tls_record_get_handshake,tls_uint8array_from_bytes,tls_uint24array_from_bytes,tls_length_is_zero timeout=600
void h_tls13_get_certificate(void)
{
	INPUT(tp_in, H); ASSUME(H.len >= 5 && H.len <= 5 + 65535);
	MKBUF(record, H.first, H.len); ASSUME(((((size_t)record[3]) << 8) | record[4]) + 5 == H.len);
	const uint8_t **rc = malloc(sizeof(*rc)), **cl = malloc(sizeof(*cl)); size_t *rcl = malloc(sizeof(size_t)), *cll = malloc(sizeof(size_t)); ASSUME(rc && cl && rcl && cll);
	int ret = tls13_record_get_handshake_certificate(record, rc, rcl, cl, cll);
	if (ret == 1) { CANARY("parsed"); }
	CANARY("returned");
}
