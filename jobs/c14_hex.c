/* C14 — hexadecimal decoder (src/hex.c) */
#include "hex.h"
#ifdef VERIF_CBMC
/* src/hex.c stores the address of memset in a volatile function pointer (gmssl_secure_clear); goto-instrument --dfcc aborts on
   the address of a bodyless library function.  None of the functions under contract here uses it: give it a body. */
static void *verif_hex_memset(void *p, int c, size_t n) { (void)c; (void)n; return p; }
#define memset verif_hex_memset
#endif
#include "src/hex.c"
#ifdef VERIF_CBMC
#undef memset
#endif
#include "stubs_stdio.h"
typedef struct { char c; char first[32]; size_t len; size_t gk; } hx_in;
DECL_INPUT(hx_in);
#ifdef VERIF_CBMC
#define GK_BIND(g) ASSUME(verif_gk == (g));
#else
#define GK_BIND(g)
#endif
//@job name=hexchar2int props=C14 enforce=hexchar2int timeout=300
void h_hexchar2int(void)
{
	INPUT(hx_in, H);
	int v = hexchar2int(H.c);
	NCHECK((v >= 0) == ((H.c >= '0' && H.c <= '9') || (H.c >= 'a' && H.c <= 'f') || (H.c >= 'A' && H.c <= 'F')), "a character is accepted exactly when it is a hexadecimal digit");
	OBSERVE_INT("c", (unsigned char)H.c); OBSERVE_INT("v", v);
	CANARY("returned");
}
/* a loop-contract variant exhausted 12 GB; bounded stand-in: texts of at most 16 characters, loop unwound completely */
//@job name=hex2bin props=C14,C06 enforce=hex2bin replace=hexchar2int unwindset=hex2bin.*:10 timeout=900 bounded=text<=16-characters
void h_hex2bin(void)
{
	INPUT(hx_in, H); ASSUME(H.len <= 16); GK_BIND(H.gk)
	char *in = malloc(H.len); ASSUME(in != NULL); { size_t i; for (i = 0; i < 32; i++) if (i < H.len) in[i] = H.first[i]; }
	MKOUT(out, H.len / 2);
	int ret = hex2bin(in, H.len, out);
	if (ret == 1) { CANARY("decoded"); }
	CANARY("returned");
}
//@job name=hex_to_bytes props=C14 enforce=hex_to_bytes replace=hex2bin timeout=300
void h_hex_to_bytes(void)
{
	INPUT(hx_in, H); ASSUME(H.len <= 9000); GK_BIND(H.gk)
	char *in = malloc(H.len); ASSUME(in != NULL); MKOUT(out, H.len / 2); size_t *outlen = malloc(sizeof(size_t)); ASSUME(outlen != NULL);
	int ret = hex_to_bytes(in, H.len, out, outlen);
	if (ret == 1) { CANARY("decoded"); }
	CANARY("returned");
}

/* gmssl_memxor (src/hex.c): r = a xor b over len bytes, r may be a or b themselves (the contract every AEAD job assumes) */
typedef struct { uint8_t a[32], b[32]; size_t len, gk; uint8_t alias; } mx_in;
DECL_INPUT(mx_in);
void gmssl_memxor(void *r, const void *a, const void *b, size_t len)
REQUIRES(len >= 1 && len <= 70000 && WR_OK(r, len) && RD_OK(a, len) && RD_OK(b, len))
/* exact aliasing or disjoint */
REQUIRES(len == 0 || ((r == a || SEPARATE(r, a)) && (r == b || SEPARATE(r, b))))
ASSIGNS(len != 0: OBJ_UPTO((uint8_t *)r, len))
ENSURES(verif_gk < len IMPLIES ((const uint8_t *)r)[verif_gk] == (uint8_t)(OLD(((const uint8_t *)a)[verif_gk < len ? verif_gk : 0]) ^ OLD(((const uint8_t *)b)[verif_gk < len ? verif_gk : 0])))
;
//@job name=gmssl_memxor props=C04,C05 enforce=gmssl_memxor loops=1 timeout=900
void h_gmssl_memxor(void)
{
	INPUT(mx_in, X); ASSUME(X.len >= 1 && X.len <= 4200); GK_BIND(X.gk)
	MKBUF(a, X.a, X.len); MKBUF(b, X.b, X.len); uint8_t *r;
	if ((X.alias & 3) == 1) r = a; else if ((X.alias & 3) == 2) r = b; else { r = malloc(X.len); ASSUME(r != NULL); }
	gmssl_memxor(r, a, b, X.len);
	NATIVE({ size_t i; int ok = 1; for (i = 0; i < X.len && i < 32; i++) if (r[i] != (uint8_t)(X.a[i] ^ X.b[i])) ok = 0; CHECK(ok, "r == a xor b (first 32 bytes)"); })
	CANARY("returned");
}
