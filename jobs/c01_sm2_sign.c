/* C01 — SM2 signature verification / DER / ID binding (src/sm2_sign.c), point operations uninterpreted. */
#define CONTRACT_GET_XY_UF
#include "sm2_sign.h"
#include "src/sm2_z256.c"
#include "src/sm2_sign.c"
#include "stubs_stdio.h"

typedef struct { uint8_t r[32], s[32], dgst[32]; uint64_t X[4], Y[4], Z[4]; } vfy_in;
DECL_INPUT(vfy_in);
#define POINT_OPS sm2_z256_point_mul_generator,sm2_z256_point_mul,sm2_z256_point_mul_ex,sm2_z256_point_add,sm2_z256_point_get_xy

//@job name=sm2_do_verify props=C01 enforce=sm2_do_verify replace=sm2_z256_point_mul_generator,sm2_z256_point_mul,sm2_z256_point_add,sm2_z256_point_get_xy,sm2_z256_from_bytes,sm2_z256_is_zero,sm2_z256_cmp,sm2_z256_modn_add,sm2_z256_sub layer=proved-relative-to-UF-points timeout=900
void h_sm2_do_verify(void)
{
	SM2_STATICS_INIT;
	INPUT(vfy_in, V); SM2_KEY key; SM2_SIGNATURE sig; uint8_t dgst[32];
	memcpy(key.public_key.X, V.X, 32); memcpy(key.public_key.Y, V.Y, 32); memcpy(key.public_key.Z, V.Z, 32);
	memcpy(sig.r, V.r, 32); memcpy(sig.s, V.s, 32); memcpy(dgst, V.dgst, 32);
	int ret = sm2_do_verify(&key, dgst, &sig);
	OBSERVE_INT("ret", ret);
	NATIVE(uint64_t r4[4], s4[4]; sm2_z256_from_bytes(r4, V.r); sm2_z256_from_bytes(s4, V.s); nr_t rr = nr_from(r4, 4), ss = nr_from(s4, 4););
	NCHECK(ret != 1 || (nr_cmp(rr, nr_u64(1)) >= 0 && nr_cmp(rr, NR_N) < 0 && nr_cmp(ss, nr_u64(1)) >= 0 && nr_cmp(ss, NR_N) < 0), "verify accepts only r, s in [1, n-1]");
	if (ret == 1) { CANARY("accepted"); }
	CANARY("returned");
}

//@job name=sm2_fast_verify props=C01 enforce=sm2_fast_verify replace=sm2_z256_point_mul_generator,sm2_z256_point_mul_ex,sm2_z256_point_add,sm2_z256_point_get_xy,sm2_z256_from_bytes,sm2_z256_is_zero,sm2_z256_cmp,sm2_z256_modn_add,sm2_z256_sub layer=proved-relative-to-UF-points timeout=900
void h_sm2_fast_verify(void)
{
	SM2_STATICS_INIT;
	INPUT(vfy_in, V); SM2_Z256_POINT table[16]; SM2_SIGNATURE sig; uint8_t dgst[32];
	memcpy(table[0].X, V.X, 32); memcpy(table[0].Y, V.Y, 32); memcpy(table[0].Z, V.Z, 32);
	memcpy(sig.r, V.r, 32); memcpy(sig.s, V.s, 32); memcpy(dgst, V.dgst, 32);
	int ret = sm2_fast_verify(table, dgst, &sig);
	OBSERVE_INT("ret", ret);
	NATIVE(uint64_t r4[4], s4[4]; sm2_z256_from_bytes(r4, V.r); sm2_z256_from_bytes(s4, V.s); nr_t rr = nr_from(r4, 4), ss = nr_from(s4, 4););
	NCHECK(ret != 1 || (nr_cmp(rr, nr_u64(1)) >= 0 && nr_cmp(rr, NR_N) < 0 && nr_cmp(ss, nr_u64(1)) >= 0 && nr_cmp(ss, NR_N) < 0), "verify accepts only r, s in [1, n-1]");
	if (ret == 1) { CANARY("accepted"); }
	CANARY("returned");
}
