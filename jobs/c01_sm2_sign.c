/* C01 — SM2 signature verification / DER / ID binding (src/sm2_sign.c), point operations uninterpreted. */
#define CONTRACT_GET_XY_UF
#include "sm2_sign.h"
#include "src/sm2_z256.c"
#include "src/sm2_sign.c"
#include "stubs_stdio.h"
#ifdef VERIF_CBMC
#define LTN_(x) (VAL4(x) < BV_N)
#else
#define LTN_(x) (nr_cmp(nr_from(x, 4), NR_N) < 0)
#endif

typedef struct { uint8_t r[32], s[32], dgst[32]; uint64_t X[4], Y[4], Z[4]; } vfy_in;
DECL_INPUT(vfy_in);
#define POINT_OPS sm2_z256_point_mul_generator,sm2_z256_point_mul,sm2_z256_point_mul_ex,sm2_z256_point_add,sm2_z256_point_get_xy

//@job name=sm2_do_verify props=C01 enforce=sm2_do_verify replace=sm2_z256_point_mul_generator,sm2_z256_point_mul,sm2_z256_point_add,sm2_z256_point_get_xy,sm2_z256_from_bytes,sm2_z256_is_zero,sm2_z256_cmp,sm2_z256_modn_add,sm2_z256_sub layer=proved-relative-to-UF-points timeout=900
void h_sm2_do_verify(void)
{
	SM2_STATICS_INIT;
	INPUT(vfy_in, V); SM2_KEY key; SM2_SIGNATURE sig; uint8_t dgst[32];
	memcpy(key.public_key.X, V.X, 32); memcpy(key.public_key.Y, V.Y, 32); memcpy(key.public_key.Z, V.Z, 32);
	memcpy(sig.r, V.r, 32); memcpy(sig.s, V.s, 32); memcpy(dgst, V.dgst, 32);
	int ret = sm2_do_verify(&key, dgst, &sig);
	OBSERVE_INT("ret", ret);
	NATIVE(uint64_t r4[4], s4[4]; sm2_z256_from_bytes(r4, V.r); sm2_z256_from_bytes(s4, V.s); nr_t rr = nr_from(r4, 4), ss = nr_from(s4, 4););
	NCHECK(ret != 1 || (nr_cmp(rr, nr_u64(1)) >= 0 && nr_cmp(rr, NR_N) < 0 && nr_cmp(ss, nr_u64(1)) >= 0 && nr_cmp(ss, NR_N) < 0), "verify accepts only r, s in [1, n-1]");
	if (ret == 1) { CANARY("accepted"); }
	CANARY("returned");
}

//@job name=sm2_fast_verify props=C01 enforce=sm2_fast_verify replace=sm2_z256_point_mul_generator,sm2_z256_point_mul_ex,sm2_z256_point_add,sm2_z256_point_get_xy,sm2_z256_from_bytes,sm2_z256_is_zero,sm2_z256_cmp,sm2_z256_modn_add,sm2_z256_sub layer=proved-relative-to-UF-points timeout=900
void h_sm2_fast_verify(void)
{
	SM2_STATICS_INIT;
	INPUT(vfy_in, V); SM2_Z256_POINT table[16]; SM2_SIGNATURE sig; uint8_t dgst[32];
	memcpy(table[0].X, V.X, 32); memcpy(table[0].Y, V.Y, 32); memcpy(table[0].Z, V.Z, 32);
	memcpy(sig.r, V.r, 32); memcpy(sig.s, V.s, 32); memcpy(dgst, V.dgst, 32);
	int ret = sm2_fast_verify(table, dgst, &sig);
	OBSERVE_INT("ret", ret);
	NATIVE(uint64_t r4[4], s4[4]; sm2_z256_from_bytes(r4, V.r); sm2_z256_from_bytes(s4, V.s); nr_t rr = nr_from(r4, 4), ss = nr_from(s4, 4););
	NCHECK(ret != 1 || (nr_cmp(rr, nr_u64(1)) >= 0 && nr_cmp(rr, NR_N) < 0 && nr_cmp(ss, nr_u64(1)) >= 0 && nr_cmp(ss, NR_N) < 0), "verify accepts only r, s in [1, n-1]");
	if (ret == 1) { CANARY("accepted"); }
	CANARY("returned");
}

typedef struct { uint8_t dgst[32]; uint64_t d[4], k[4], x1[4]; } sgn_in;
DECL_INPUT(sgn_in);
#define L0_R sm2_z256_from_bytes,sm2_z256_to_bytes,sm2_z256_is_zero,sm2_z256_cmp,sm2_z256_modn_add,sm2_z256_modn_sub,sm2_z256_sub,sm2_z256_add

//@job name=sm2_fast_sign props=C01 enforce=sm2_fast_sign replace=sm2_z256_from_bytes,sm2_z256_to_bytes,sm2_z256_cmp,sm2_z256_modn_add,sm2_z256_modn_sub,sm2_z256_sub,sm2_z256_modn_to_mont,sm2_z256_modn_mont_mul layer=proved-relative-to-UF-Zn timeout=900
void h_sm2_fast_sign(void)
{
	SM2_STATICS_INIT;
	INPUT(sgn_in, S); SM2_SIGN_PRE_COMP pc; SM2_SIGNATURE sig; uint8_t dgst[32]; uint64_t fp[4];
	memcpy(pc.k, S.k, 32); memcpy(pc.x1_modn, S.x1, 32); memcpy(fp, S.d, 32); memcpy(dgst, S.dgst, 32);
	ASSUME(LTN_(pc.k) && LTN_(pc.x1_modn) && LTN_(fp));
	int ret = sm2_fast_sign(fp, &pc, dgst, &sig);
	OBSERVE_INT("ret", ret); OBSERVE_BYTES("r", sig.r, 32); OBSERVE_BYTES("s", sig.s, 32);
	NATIVE(int rz = 1, sz = 1, i; for (i = 0; i < 32; i++) { rz &= (sig.r[i] == 0); sz &= (sig.s[i] == 0); });
	NCHECK(ret != 1 || (!rz && !sz), "a signature that is emitted never has r == 0 or s == 0");
	if (ret == 1) { CANARY("signed"); }
	CANARY("returned");
}

//@job name=sm2_do_sign props=C01,C18 enforce=sm2_do_sign replace=sm2_z256_from_bytes,sm2_z256_to_bytes,sm2_z256_is_zero,sm2_z256_cmp,sm2_z256_modn_add,sm2_z256_modn_sub,sm2_z256_sub,sm2_z256_add,sm2_z256_modn_to_mont,sm2_z256_modn_mont_mul,sm2_z256_modn_mont_inv,sm2_z256_rand_range,sm2_z256_point_mul_generator,sm2_z256_point_get_xy,gmssl_secure_clear unwindset=sm2_do_sign.*:3 partial=1 objbits=13 bounded="retry loop (goto retry) and zero-nonce redraw unwound 2 times, unwinding assumptions: at most 2 retries explored" layer=proved-relative-to-UF-Zn timeout=900
void h_sm2_do_sign(void)
{
	SM2_STATICS_INIT;
	INPUT(sgn_in, S); SM2_KEY key; SM2_SIGNATURE sig; uint8_t dgst[32];
	memcpy(key.private_key, S.d, 32); memcpy(dgst, S.dgst, 32);
	ASSUME(LTN_(key.private_key));
	int ret = sm2_do_sign(&key, dgst, &sig);
	if (ret == 1) { CANARY("signed"); }
	CANARY("returned");
}
