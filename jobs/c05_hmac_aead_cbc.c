/* C05 — SM4-CBC + SM3-HMAC streaming AEAD (src/sm4_cbc_sm3_hmac.c) */
#define G_MC_EXPR verif_gk
#define CONTRACT_MEMCMP_RECORDING
#define CONTRACT_MEMCMP_SEQ
#define CONTRACT_SECURE_MEMCMP_RECORDING
#include <gmssl/sm4.h>
#include <gmssl/sm4_cbc_sm3_hmac.h>
#define AE_CTX_T SM4_CBC_SM3_HMAC_CTX
#define AE_ENC_CTX_T SM4_CBC_CTX
#define AE(n) sm4_cbc_sm3_hmac_##n
#define AE_DEC_INIT sm4_cbc_decrypt_init
#define AE_DEC_FINISH sm4_cbc_decrypt_finish
#define AE_DEC_FINISH_MAXOUT 16
#include "hmac_aead_tpl.h"
#include "src/sm4_cbc_sm3_hmac.c"
#include "stubs_stdio.h"
#include "c05_hmac_aead_harness.h"

//@job name=sm4_cbc_sm3_hmac_decrypt_init props=C05 enforce=sm4_cbc_sm3_hmac_decrypt_init replace=sm4_cbc_decrypt_init,sm3_hmac_init,sm3_hmac_update timeout=600
void h_sm4_cbc_sm3_hmac_decrypt_init(void) { AE_H_INIT(sm4_cbc_sm3_hmac_decrypt_init) }
/* the nonce-binding clause alone: fails on the current tree (recorded finding) */
//@job name=sm4_cbc_sm3_hmac_decrypt_init_ivbind props=C05 enforce=sm4_cbc_sm3_hmac_decrypt_init replace=sm4_cbc_decrypt_init,sm3_hmac_init,sm3_hmac_update timeout=600 defs=-DAE_IV_CLAUSE_ONLY harness=h_sm4_cbc_sm3_hmac_decrypt_init
//@job name=sm4_cbc_sm3_hmac_decrypt_finish props=C05 enforce=sm4_cbc_sm3_hmac_decrypt_finish replace=sm3_hmac_finish,sm4_cbc_decrypt_finish,memcmp,gmssl_secure_memcmp timeout=600
void h_sm4_cbc_sm3_hmac_decrypt_finish(void) { AE_H_FINISH(sm4_cbc_sm3_hmac_decrypt_finish) }
