/* C12 — SM9 G1 point import (src/sm9_z256.c), relative to uninterpreted field operations (contracts/sm9_point.h) */
#include "sm9_point.h"
#include "src/sm9_z256.c"
#include "stubs_stdio.h"
typedef struct { uint8_t b[65]; } o9_in;
DECL_INPUT(o9_in);
//@job name=sm9_point_from_uncompressed_octets props=C12,C06 enforce=sm9_z256_point_from_uncompressed_octets replace=sm9_z256_modp_to_mont,sm9_z256_point_is_on_curve layer=proved-relative-to-UF-field timeout=900 native=0
void h_sm9_point_from_uncompressed_octets(void)
{
	INPUT(o9_in, I); SM9_Z256_POINT *P = malloc(sizeof(*P)); ASSUME(P);
	uint8_t *octets = malloc(65); ASSUME(octets); memcpy(octets, I.b, 65);
	int ret = sm9_z256_point_from_uncompressed_octets(P, octets);
	if (ret == 1) { CANARY("accepted"); }
	CANARY("returned");
}

typedef struct { uint8_t b[129]; } o9t_in;
DECL_INPUT(o9t_in);
//@job name=sm9_fp2_from_bytes props=C12,C06 enforce=sm9_z256_fp2_from_bytes replace=sm9_z256_modp_to_mont layer=proved-relative-to-UF-field timeout=900 native=0
void h_sm9_fp2_from_bytes(void)
{
	INPUT(o9t_in, I); uint64_t (*r)[4] = malloc(64); ASSUME(r);
	uint8_t *buf = malloc(64); ASSUME(buf); memcpy(buf, I.b, 64);
	int ret = sm9_z256_fp2_from_bytes(r, buf);
	if (ret == 1) { CANARY("accepted"); }
	CANARY("returned");
}
//@job name=sm9_twist_point_from_uncompressed_octets props=C12,C06 enforce=sm9_z256_twist_point_from_uncompressed_octets replace=sm9_z256_fp2_from_bytes,sm9_z256_twist_point_is_on_curve layer=proved-relative-to-UF-field timeout=900 native=0
void h_sm9_twist_point_from_uncompressed_octets(void)
{
	INPUT(o9t_in, I); SM9_Z256_TWIST_POINT *P = malloc(sizeof(*P)); ASSUME(P);
	uint8_t *octets = malloc(129); ASSUME(octets); memcpy(octets, I.b, 129);
	int ret = sm9_z256_twist_point_from_uncompressed_octets(P, octets);
	if (ret == 1) { CANARY("accepted"); }
	CANARY("returned");
}
