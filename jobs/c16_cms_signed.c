/* C16 — SignedData verification (src/cms.c cms_signed_data_verify_from_der): no signer, no success */
#include "cms.h"
#include "src/cms.c"
#include "stubs_stdio.h"
typedef struct { uint8_t first[32]; size_t len; size_t tk; } cms_in;
DECL_INPUT(cms_in);
//@job name=cms_signed_data_verify props=C16,C06 enforce=cms_signed_data_verify_from_der replace=cms_signed_data_from_der,asn1_check,cms_content_info_header_to_der,sm3_init,sm3_update,cms_signer_info_verify_from_der loops=1 timeout=900 native=0
void h_cms_signed_data_verify(void)
{
	INPUT(cms_in, C); ASSUME(C.len >= 1 && C.len <= 20000);
#ifdef VERIF_CBMC
	ASSUME(G_tk == C.tk && G_tk < ((size_t)1 << 25));
#endif
	MKBUF(buf, C.first, C.len); const uint8_t **in = malloc(sizeof(*in)); size_t *inlen = malloc(sizeof(size_t)); ASSUME(in && inlen); *in = buf; *inlen = C.len;
	int *ct = malloc(sizeof(int)); const uint8_t **content = malloc(sizeof(*content)), **certs = malloc(sizeof(*certs)), **crls = malloc(sizeof(*crls)), **si = malloc(sizeof(*si));
	size_t *cl = malloc(sizeof(size_t)), *cel = malloc(sizeof(size_t)), *crl = malloc(sizeof(size_t)), *sil = malloc(sizeof(size_t));
	ASSUME(ct && content && certs && crls && si && cl && cel && crl && sil);
	int ret = cms_signed_data_verify_from_der(NULL, 0, NULL, 0, ct, content, cl, certs, cel, crls, crl, si, sil, in, inlen);
	if (ret == 1) { CANARY("verified"); }
	CANARY("returned");
}
