/* C18 — rejection sampling into [0, range): bounded retries, failure propagation, result is the last draw */
#include "sm9_z256.h"
#include "rand.h"
int sm9_z256_rand_range(sm9_z256_t r, const sm9_z256_t range)
REQUIRES(WR_OK(r, 32) && RD_OK(range, 32) && SEPARATE(r, range))
ASSIGNS(OBJ_UPTO(r, 32), G_rb_fail, G_rb_calls, G_rb_buf, G_rb_len)
ENSURES(RET == 1 || RET == 0 || RET == -1)
/* fail closed: a failed draw is reported, a success means no draw failed, at least one draw was made, into r, of 32 bytes */
ENSURES((RET == -1) == (G_rb_fail != OLD(G_rb_fail)) || OLD(G_rb_fail) == 1)
ENSURES(RET == 1 IMPLIES G_rb_fail == OLD(G_rb_fail))
ENSURES(RET == 1 IMPLIES VAL4(r) < VAL4(range))
ENSURES(RET == 1 IMPLIES G_rb_calls - OLD(G_rb_calls) >= 1 && G_rb_calls - OLD(G_rb_calls) <= 100)
ENSURES(RET == 1 IMPLIES G_rb_buf == (const void *)r && G_rb_len == 32)
/* gives up (0) only after 100 rejected draws */
ENSURES(RET == 0 IMPLIES G_rb_calls == OLD(G_rb_calls) + 100 && G_rb_fail == OLD(G_rb_fail))
;
#include "src/sm9_z256.c"
#include "stubs_stdio.h"
typedef struct { uint64_t v[4]; } z256_in;
DECL_INPUT(z256_in);

//@job name=sm9_rand_range props=C18,C17 enforce=sm9_z256_rand_range replace=rand_bytes loops=1
void h_sm9_rand_range(void)
{
	INPUT(z256_in, R); uint64_t r[4];
	int ret = sm9_z256_rand_range(r, R.v);
	if (ret == 1) { CANARY("drawn"); }
	if (ret == 0) { CANARY("gave up"); }
	CANARY("returned");
}
