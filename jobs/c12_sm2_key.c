/* C12 / C14 / C06 — SM2 key containers and key-share import (src/sm2_key.c, src/sm2_exch.c). */
#define CONTRACT_FROM_OCTETS_RECORDING
#define CONTRACT_KEYGEN
#define CONTRACT_IS_AT_INFINITY_RECORDING
#include "sm2_key.h"
#include "libc.h"
#include "src/sm2_z256.c"
#include "src/sm2_key.c"
#include "src/sm2_exch.c"
#include "stubs_stdio.h"

#define MAXIN 32
typedef struct { uint8_t buf[MAXIN]; size_t inlen; int tag; } der_in;
typedef struct { uint64_t v[4]; uint8_t mode; } z256m_in;
typedef struct { uint8_t b[65]; size_t len; uint8_t mode; } share_in;
DECL_INPUT(der_in);
DECL_INPUT(z256m_in);
DECL_INPUT(share_in);
#define RD_SETUP \
	INPUT(der_in, I); ASSUME(I.inlen <= (size_t)INT_MAX); \
	MKBUF(buf, I.buf, I.inlen); const uint8_t *in = buf; size_t inlen = I.inlen

//@job name=sm2_key_set_private_key props=C12,C20 enforce=sm2_key_set_private_key replace=sm2_z256_point_mul_generator
void h_sm2_key_set_private_key(void)
{
	INPUT(z256m_in, D); SM2_KEY key;
	int ret = sm2_key_set_private_key((D.mode & 1) ? NULL : &key, (D.mode & 2) ? NULL : D.v);
	OBSERVE_INT("ret", ret);
	NATIVE(nr_t d = nr_from(D.v, 4); nr_t nm1 = NR_N; nm1.w[0] -= 1;);
	NCHECK(D.mode != 0 || ((ret == 1) == (nr_cmp(d, nr_u64(1)) >= 0 && nr_cmp(d, nm1) < 0)), "set_private_key accepts exactly 1 <= d <= n-2");
	if (ret == 1) { CANARY("accepted"); }
	CANARY("returned");
}

//@job name=sm2_public_key_from_der props=C12,C06,C14 enforce=sm2_public_key_from_der replace=asn1_bit_octets_from_der_ex,sm2_z256_point_from_octets
void h_sm2_public_key_from_der(void)
{
	RD_SETUP; SM2_KEY key;
	int ret = sm2_public_key_from_der(&key, &in, &inlen);
	if (ret == 1) { CANARY("accepted"); }
	CANARY("returned");
}

//@job name=sm2_private_key_from_der props=C12,C06,C14 enforce=sm2_private_key_from_der replace=asn1_type_from_der,asn1_nonempty_type_from_der,asn1_int_from_der_ex,asn1_check,asn1_length_is_zero,ec_named_curve_from_der,sm2_key_set_private_key,sm2_public_key_from_der,sm2_public_key_equ,gmssl_secure_clear
void h_sm2_private_key_from_der(void)
{
	RD_SETUP; SM2_KEY key;
	int ret = sm2_private_key_from_der(&key, &in, &inlen);
	OBSERVE_INT("ret", ret);
	if (ret == 1) { CANARY("accepted"); }
	CANARY("returned");
}

//@job name=sm2_ecdh props=C12,C02 enforce=sm2_ecdh replace=sm2_z256_point_from_octets,sm2_z256_point_is_at_infinity,sm2_z256_point_mul,sm2_z256_point_to_bytes
void h_sm2_ecdh(void)
{
	INPUT(share_in, S); ASSUME(S.len <= 65); SM2_KEY key; uint8_t out[64];
	MKBUF(pp, S.b, S.len);
	int ret = sm2_ecdh(&key, (S.mode & 1) ? NULL : pp, S.len, out);
	OBSERVE_INT("ret", ret);
	NCHECK(!(ret == 1) || S.len == 33 || S.len == 65, "sm2_ecdh accepts only a 33- or 65-octet peer share");
	if (ret == 1) { CANARY("accepted"); }
	CANARY("returned");
}

//@job name=sm2_key_generate props=C18,C12 enforce=sm2_key_generate replace=sm2_z256_rand_range,sm2_z256_point_mul_generator loops=1
void h_sm2_key_generate(void)
{
	INPUT(z256m_in, D); SM2_KEY key;
	int ret = sm2_key_generate((D.mode & 1) ? NULL : &key);
	if (ret == 1) { CANARY("generated"); }
	CANARY("returned");
}
