/* C11 — TLS 1.3 application-data receive path (src/tls13.c tls13_do_recv) */
#define CONTRACT_MEMXOR_RECORDING
#define G_MC_EXPR verif_gk
#include "verif.h"
#include "libc.h"
#include <gmssl/tls.h>
#ifdef VERIF_CBMC
unsigned G_ev; unsigned G_rr_calls; int G_rr_ret; size_t G_rr_rec; unsigned G_rr_ev;
unsigned G_gd13_calls; int G_gd13_ret; size_t G_gd13_key; size_t G_gd13_iv; size_t G_gd13_seq; size_t G_gd13_in; size_t G_gd13_inlen; size_t G_gd13_out; int G_gd13_type; unsigned G_gd13_ev;
unsigned G_si_calls; size_t G_si_seq; unsigned G_si_ev;
#define T13R_GHOSTS G_ev, G_rr_calls, G_rr_ret, G_rr_rec, G_rr_ev, G_gd13_calls, G_gd13_ret, G_gd13_key, G_gd13_iv, G_gd13_seq, G_gd13_in, G_gd13_inlen, G_gd13_out, G_gd13_type, G_gd13_ev, G_si_calls, G_si_seq, G_si_ev
#endif
int tls_record_recv(uint8_t *record, size_t *recordlen, tls_socket_t sock)
REQUIRES(WR_OK(record, TLS_MAX_RECORD_SIZE) && WR_OK(recordlen, sizeof(size_t)))
ASSIGNS(OBJ_UPTO(record, TLS_MAX_RECORD_SIZE), *recordlen, G_ev, G_rr_calls, G_rr_ret, G_rr_rec, G_rr_ev)
ENSURES(G_rr_calls == OLD(G_rr_calls) + 1 && G_rr_ret == RET && G_rr_rec == (size_t)record && G_ev == OLD(G_ev) + 1 && G_rr_ev == G_ev)
ENSURES(RET == 1 IMPLIES (*recordlen >= 5 && *recordlen <= TLS_MAX_RECORD_SIZE))
;
int tls13_gcm_decrypt(const BLOCK_CIPHER_KEY *key, const uint8_t iv[12], const uint8_t seq_num[8], const uint8_t *in, size_t inlen, int *record_type, uint8_t *out, size_t *outlen)
REQUIRES(RD_OK(key, sizeof(*key)) && RD_OK(iv, 12) && RD_OK(seq_num, 8) && inlen <= TLS_MAX_RECORD_SIZE && (inlen == 0 || RD_OK(in, inlen)) && WR_OK(record_type, sizeof(int)) && WR_OK(outlen, sizeof(size_t)))
/* constant-size frame (the callers here pass conn->databuf, TLS_MAX_RECORD_SIZE bytes): a symbolic-size havoc inside the 63 KB
   connection object exhausted memory */
REQUIRES(WR_OK(out, TLS_MAX_RECORD_SIZE))
ASSIGNS(OBJ_UPTO(out, TLS_MAX_RECORD_SIZE), *record_type, *outlen, G_ev, G_gd13_calls, G_gd13_ret, G_gd13_key, G_gd13_iv, G_gd13_seq, G_gd13_in, G_gd13_inlen, G_gd13_out, G_gd13_type, G_gd13_ev)
ENSURES((RET == 1 || RET == -1) && G_gd13_calls == OLD(G_gd13_calls) + 1 && G_gd13_ret == RET && G_gd13_key == (size_t)key && G_gd13_iv == (size_t)iv && G_gd13_seq == (size_t)seq_num
	&& G_gd13_in == (size_t)in && G_gd13_inlen == inlen && G_gd13_out == (size_t)out && G_ev == OLD(G_ev) + 1 && G_gd13_ev == G_ev)
ENSURES(RET == 1 IMPLIES (inlen >= 17 && *outlen < inlen - 16 && G_gd13_type == *record_type && (*record_type == 20 || *record_type == 21 || *record_type == 22 || *record_type == 23)))
;
int tls_seq_num_incr(uint8_t seq_num[8])
REQUIRES(RW_OK(seq_num, 8))
ASSIGNS(OBJ_UPTO(seq_num, 8), G_ev, G_si_calls, G_si_seq, G_si_ev)
ENSURES(G_si_calls == OLD(G_si_calls) + 1 && G_si_seq == (size_t)seq_num && G_ev == OLD(G_ev) + 1 && G_si_ev == G_ev)
;
int tls_record_set_data(uint8_t *record, const uint8_t *data, size_t datalen)
REQUIRES(datalen <= TLS_MAX_RECORD_SIZE - 5 && WR_OK(record, 5 + datalen) && (datalen == 0 || RD_OK(data, datalen)))
ASSIGNS(OBJ_UPTO(record, TLS_MAX_RECORD_SIZE))
ENSURES(RET == 1 || RET == -1)
;
/* peer's write key / iv / counter by role; counter advanced once, after the record was accepted, never on refusal;
   only application data is handed up */
int tls13_do_recv(TLS_CONNECT *conn)
REQUIRES(RW_OK(conn, sizeof(TLS_CONNECT)) && G_ev == 0 && G_rr_calls == 0 && G_gd13_calls == 0 && G_si_calls == 0)
ASSIGNS(OBJ_UPTO((uint8_t *)conn, sizeof(TLS_CONNECT)), T13R_GHOSTS)
ENSURES(G_rr_calls == 1 && G_rr_rec == (size_t)conn->record)
ENSURES(G_rr_ret != 1 IMPLIES (RET == G_rr_ret && G_gd13_calls == 0 && G_si_calls == 0))
ENSURES(RET == 1 IMPLIES (G_rr_ret == 1 && G_gd13_calls == 1 && G_gd13_ret == 1 && G_gd13_in == (size_t)(conn->record + 5) && G_gd13_out == (size_t)conn->databuf
	&& G_gd13_key == (size_t)(OLD(conn->is_client) ? &conn->server_write_key : &conn->client_write_key)
	&& G_gd13_iv == (size_t)(OLD(conn->is_client) ? conn->server_write_iv : conn->client_write_iv)
	&& G_gd13_seq == (size_t)(OLD(conn->is_client) ? conn->server_seq_num : conn->client_seq_num)
	&& G_si_calls == 1 && G_si_seq == G_gd13_seq && G_si_ev > G_gd13_ev && G_gd13_type == 23 && conn->data == conn->databuf))
ENSURES((G_rr_ret == 1 && G_gd13_ret != 1) IMPLIES (RET == -1 && G_si_calls == 0))
;
#include "src/tls13.c"
#include "stubs_stdio.h"
typedef struct { int is_client, sock; } t13r_in;
DECL_INPUT(t13r_in);
//@job name=tls13_do_recv props=C11 enforce=tls13_do_recv replace=tls_record_recv,tls13_gcm_decrypt,tls_seq_num_incr,tls_record_set_data timeout=1500 native=0
void h_tls13_do_recv(void)
{
	INPUT(t13r_in, S);
	TLS_CONNECT *conn = malloc(sizeof(TLS_CONNECT)); ASSUME(conn != NULL); conn->is_client = S.is_client; conn->sock = S.sock;
	int ret = tls13_do_recv(conn);
	if (ret == 1) { CANARY("received"); }
	if (ret == -1) { CANARY("refused"); }
	CANARY("returned");
}
