/* C04 / C05 — encryption side of SM4-CBC + SM3-HMAC (src/sm4_cbc_sm3_hmac.c): encrypt-then-MAC order and tag placement */
#define G_MC_EXPR verif_gk
#include <gmssl/sm4.h>
#include <gmssl/sm4_cbc_sm3_hmac.h>
#define AE_CTX_T SM4_CBC_SM3_HMAC_CTX
#define AE_ENC_CTX_T SM4_CBC_CTX
#define AE(n) sm4_cbc_sm3_hmac_##n
#define AE_ENC_ONLY
#define AE_WITH_ENCRYPT
#define AE_ENC_UPDATE sm4_cbc_encrypt_update
#define AE_ENC_FINISH sm4_cbc_encrypt_finish
#include "hmac_aead_tpl.h"
#include "src/sm4_cbc_sm3_hmac.c"
#include "stubs_stdio.h"
#ifdef VERIF_CBMC
#define GK_BIND(g, s) ASSUME(verif_gk == (g) && verif_gk < 32 && G_sk == (s));
#else
#define GK_BIND(g, s)
#endif
typedef struct { AE_CTX_T ctx; uint8_t in[32]; size_t inlen, sk; uint8_t gk, mode; } aee_in;
DECL_INPUT(aee_in);

//@job name=sm4_cbc_sm3_hmac_encrypt_update props=C04,C05 enforce=sm4_cbc_sm3_hmac_encrypt_update replace=sm4_cbc_encrypt_update,sm3_hmac_update timeout=600 native=0
void h_sm4_cbc_sm3_hmac_encrypt_update(void)
{
	INPUT(aee_in, U); ASSUME(U.inlen <= 5000); GK_BIND(U.gk, U.sk)
	AE_CTX_T *ctx = malloc(sizeof *ctx); ASSUME(ctx != NULL); *ctx = U.ctx;
	MKBUF(in, U.in, U.inlen); MKOUT(out, 16 * ((U.inlen + 15) / 16)); size_t *outlen = malloc(sizeof(size_t)); ASSUME(outlen != NULL);
	int ret = sm4_cbc_sm3_hmac_encrypt_update((U.mode & 1) ? NULL : ctx, (U.mode & 2) ? NULL : in, U.inlen, (U.mode & 4) ? NULL : out, (U.mode & 8) ? NULL : outlen);
	if (ret == 1) { CANARY("updated"); }
	CANARY("returned");
}
//@job name=sm4_cbc_sm3_hmac_encrypt_finish props=C04,C05 enforce=sm4_cbc_sm3_hmac_encrypt_finish replace=sm4_cbc_encrypt_finish,sm3_hmac_update,sm3_hmac_finish timeout=600 native=0
void h_sm4_cbc_sm3_hmac_encrypt_finish(void)
{
	INPUT(aee_in, U); GK_BIND(U.gk, U.sk) ASSUME(U.sk < 16);
	AE_CTX_T *ctx = malloc(sizeof *ctx); ASSUME(ctx != NULL); *ctx = U.ctx;
	MKOUT(out, 48); size_t *outlen = malloc(sizeof(size_t)); ASSUME(outlen != NULL);
	int ret = sm4_cbc_sm3_hmac_encrypt_finish((U.mode & 1) ? NULL : ctx, (U.mode & 4) ? NULL : out, (U.mode & 8) ? NULL : outlen);
	if (ret == 1) { CANARY("finished"); }
	CANARY("returned");
}
