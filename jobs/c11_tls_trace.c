/* C11 support — record content type table of src/tls_trace.c (used by tls13_gcm_decrypt to refuse unknown inner types) */
#define CONTRACT_MEMXOR_RECORDING
#include "tls13_record.h"
#include "src/tls_trace.c"
#include "stubs_stdio.h"
typedef struct { int type; } tt_in;
DECL_INPUT(tt_in);
//@job name=tls_record_type_name props=C11 enforce=tls_record_type_name timeout=300
void h_tls_record_type_name(void)
{
	INPUT(tt_in, T);
	const char *n = tls_record_type_name(T.type);
	if (n) { CANARY("known"); }
	CANARY("returned");
}
//@job name=tls_protocol_name props=C11 enforce=tls_protocol_name timeout=300
void h_tls_protocol_name(void)
{
	INPUT(tt_in, T);
	const char *n = tls_protocol_name(T.type);
	if (n) { CANARY("known"); }
	CANARY("returned");
}
//@job name=tls_handshake_type_name props=C11,C06 enforce=tls_handshake_type_name timeout=300
void h_tls_handshake_type_name(void)
{
	INPUT(tt_in, T);
	const char *n = tls_handshake_type_name(T.type);
	if (n) { CANARY("known"); }
	CANARY("returned");
}
