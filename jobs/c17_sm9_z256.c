/* C17 — linear 256-bit limb arithmetic of src/sm9_z256.c against the integers.
 * All functions are loop-free: each job is a complete proof over all 2^512 (resp. 2^256)
 * operand values and every aliasing pattern of the pointer parameters. */
#include "sm9_z256.h"
#include "src/sm9_z256.c"
#include "stubs_stdio.h"
#ifdef VERIF_NATIVE
#undef NR_P
#undef NR_N
static const uint64_t NR9_P4[4] = { 0xe56f9b27e351457dULL, 0x21f2934b1a7aeedbULL, 0xd603ab4ff58ec745ULL, 0xb640000002a3a6f1ULL };
static const uint64_t NR9_N4[4] = { 0xe56ee19cd69ecf25ULL, 0x49f2934b18ea8beeULL, 0xd603ab4ff58ec744ULL, 0xb640000002a3a6f1ULL };
#define NR_P nr_from(NR9_P4, 4)
#define NR_N nr_from(NR9_N4, 4)
#endif

typedef struct { uint64_t v[4]; } z256_in;
typedef struct { uint8_t v[32]; } b32_in;
typedef struct { uint8_t alias; uint64_t s; unsigned int n; } misc_in;
DECL_INPUT(z256_in);
DECL_INPUT(b32_in);
DECL_INPUT(misc_in);

/* r may alias a or b; b may alias a — exactly the patterns used in sm9_z256.c and its callers */
#define SETUP3 \
	INPUT(z256_in, A); INPUT(z256_in, B); INPUT(z256_in, Rb); INPUT(misc_in, M); \
	uint64_t *a = A.v; \
	uint64_t *b = (M.alias & 4) ? A.v : B.v; \
	uint64_t *r = (M.alias & 3) == 1 ? a : ((M.alias & 3) == 2 ? b : Rb.v); \
	NATIVE(nr_t a0 = nr_from(a, 4); nr_t b0 = nr_from(b, 4); nr_t r0 = nr_from(r, 4);)
#define SETUP2 \
	INPUT(z256_in, A); INPUT(z256_in, Rb); INPUT(misc_in, M); \
	uint64_t *a = A.v; \
	uint64_t *r = (M.alias & 1) ? a : Rb.v; \
	NATIVE(nr_t a0 = nr_from(a, 4); nr_t r0 = nr_from(r, 4);)
#define DONE  OBSERVE_BYTES("r", r, 32); CANARY("returned")
#define RV    nr_from(r, 4)
#define NLT(x, m) (nr_cmp(x, m) < 0)
#ifdef VERIF_CBMC
#define LTP(x) (VAL4(x) < BV_P)
#define LTN(x) (VAL4(x) < BV_N)
#else
#define LTP(x) NLT(nr_from(x, 4), NR_P)
#define LTN(x) NLT(nr_from(x, 4), NR_N)
#endif

//@job name=sm9_z256_add props=C17 enforce=sm9_z256_add layer=proved
void h_sm9_z256_add(void)
{
	SETUP3;
	uint64_t c = sm9_z256_add(r, a, b);
	NCHECK(c <= 1 && nr_eq(nr_add(RV, nr_shl(nr_u64(c), 256)), nr_add(a0, b0)), "r + c*2^256 == a + b");
	DONE;
}

//@job name=sm9_z256_sub props=C17 enforce=sm9_z256_sub layer=proved
void h_sm9_z256_sub(void)
{
	SETUP3;
	uint64_t c = sm9_z256_sub(r, a, b);
	NCHECK(c <= 1 && nr_eq(nr_add(RV, b0), nr_add(a0, nr_shl(nr_u64(c), 256))), "r + b == a + borrow*2^256");
	DONE;
}

//@job name=sm9_z256_modp_add props=C17 enforce=sm9_z256_modp_add layer=proved
void h_sm9_z256_modp_add(void)
{
	SETUP3;
	ASSUME(LTP(a) && LTP(b));
	sm9_z256_modp_add(r, a, b);
	NCHECK(NLT(RV, NR_P) && (nr_eq(RV, nr_add(a0, b0)) || nr_eq(nr_add(RV, NR_P), nr_add(a0, b0))), "r == a+b mod p, r < p");
	DONE;
}

//@job name=sm9_z256_modp_sub props=C17 enforce=sm9_z256_modp_sub layer=proved
void h_sm9_z256_modp_sub(void)
{
	SETUP3;
	ASSUME(LTP(a) && LTP(b));
	sm9_z256_modp_sub(r, a, b);
	NCHECK(NLT(RV, NR_P) && (nr_eq(nr_add(RV, b0), a0) || nr_eq(nr_add(RV, b0), nr_add(a0, NR_P))), "r == a-b mod p, r < p");
	DONE;
}

//@job name=sm9_z256_modp_dbl props=C17 enforce=sm9_z256_modp_dbl layer=proved
void h_sm9_z256_modp_dbl(void)
{
	SETUP2;
	ASSUME(LTP(a));
	sm9_z256_modp_dbl(r, a);
	NCHECK(NLT(RV, NR_P) && (nr_eq(RV, nr_add(a0, a0)) || nr_eq(nr_add(RV, NR_P), nr_add(a0, a0))), "r == 2a mod p, r < p");
	DONE;
}

//@job name=sm9_z256_modp_tri props=C17 enforce=sm9_z256_modp_tri layer=proved
void h_sm9_z256_modp_tri(void)
{
	SETUP2;
	ASSUME(LTP(a));
	sm9_z256_modp_tri(r, a);
	NATIVE(nr_t t3 = nr_add(a0, nr_add(a0, a0)););
	NCHECK(NLT(RV, NR_P) && (nr_eq(RV, t3) || nr_eq(nr_add(RV, NR_P), t3) || nr_eq(nr_add(RV, nr_add(NR_P, NR_P)), t3)), "r == 3a mod p, r < p");
	DONE;
}

//@job name=sm9_z256_modp_neg props=C17 enforce=sm9_z256_modp_neg layer=proved
void h_sm9_z256_modp_neg(void)
{
	SETUP2;
	ASSUME(LTP(a));
	sm9_z256_modp_neg(r, a);
	NCHECK(NLT(RV, NR_P) && (nr_eq(nr_add(RV, a0), NR_P) || (nr_eq(RV, nr_u64(0)) && nr_eq(a0, nr_u64(0)))), "r == -a mod p, r < p");
	DONE;
}

//@job name=sm9_z256_modp_haf props=C17 enforce=sm9_z256_modp_haf layer=proved
void h_sm9_z256_modp_haf(void)
{
	SETUP2;
	ASSUME(LTP(a));
	sm9_z256_modp_haf(r, a);
	NCHECK(NLT(RV, NR_P) && (nr_eq(nr_add(RV, RV), a0) || nr_eq(nr_add(RV, RV), nr_add(a0, NR_P))), "2r == a mod p, r < p");
	DONE;
}

//@job name=sm9_z256_modn_add props=C17 enforce=sm9_z256_modn_add layer=proved
void h_sm9_z256_modn_add(void)
{
	SETUP3;
	ASSUME(LTN(a) && LTN(b));
	sm9_z256_modn_add(r, a, b);
	NCHECK(NLT(RV, NR_N) && (nr_eq(RV, nr_add(a0, b0)) || nr_eq(nr_add(RV, NR_N), nr_add(a0, b0))), "r == a+b mod n, r < n");
	DONE;
}

//@job name=sm9_z256_modn_sub props=C17 enforce=sm9_z256_modn_sub layer=proved
void h_sm9_z256_modn_sub(void)
{
	SETUP3;
	ASSUME(LTN(a) && LTN(b));
	sm9_z256_modn_sub(r, a, b);
	NCHECK(NLT(RV, NR_N) && (nr_eq(nr_add(RV, b0), a0) || nr_eq(nr_add(RV, b0), nr_add(a0, NR_N))), "r == a-b mod n, r < n");
	DONE;
}



//@job name=sm9_z256_copy props=C17 enforce=sm9_z256_copy layer=proved
void h_sm9_z256_copy(void)
{
	SETUP2;
	sm9_z256_copy(r, a);
	NCHECK(nr_eq(RV, a0), "r == a");
	DONE;
}

//@job name=sm9_z256_copy_conditional props=C17 enforce=sm9_z256_copy_conditional layer=proved
void h_sm9_z256_copy_conditional(void)
{
	SETUP2;
	ASSUME(M.s <= 1);
	sm9_z256_copy_conditional(r, a, M.s);
	NCHECK(nr_eq(RV, M.s ? a0 : r0), "dst == (move ? src : dst)");
	DONE;
}

//@job name=sm9_z256_set_one props=C17 enforce=sm9_z256_set_one layer=proved
void h_sm9_z256_set_one(void)
{
	INPUT(z256_in, Rb); uint64_t *r = Rb.v;
	sm9_z256_set_one(r);
	NCHECK(nr_eq(RV, nr_u64(1)), "r == 1");
	DONE;
}

//@job name=sm9_z256_set_zero props=C17 enforce=sm9_z256_set_zero layer=proved
void h_sm9_z256_set_zero(void)
{
	INPUT(z256_in, Rb); uint64_t *r = Rb.v;
	sm9_z256_set_zero(r);
	NCHECK(nr_eq(RV, nr_u64(0)), "r == 0");
	DONE;
}

//@job name=sm9_z256_cmp props=C17 enforce=sm9_z256_cmp layer=proved
void h_sm9_z256_cmp(void)
{
	INPUT(z256_in, A); INPUT(z256_in, B); INPUT(misc_in, M);
	uint64_t *a = A.v; uint64_t *b = (M.alias & 1) ? A.v : B.v;
	int c = sm9_z256_cmp(a, b);
	NCHECK(c == nr_cmp(nr_from(a, 4), nr_from(b, 4)), "cmp == sign(a-b)");
	OBSERVE_INT("ret", c); CANARY("returned");
}

//@job name=sm9_z256_equ props=C17 enforce=sm9_z256_equ layer=proved
void h_sm9_z256_equ(void)
{
	INPUT(z256_in, A); INPUT(z256_in, B); INPUT(misc_in, M);
	uint64_t *a = A.v; uint64_t *b = (M.alias & 1) ? A.v : B.v;
	uint64_t c = sm9_z256_equ(a, b);
	NCHECK(c == (uint64_t)nr_eq(nr_from(a, 4), nr_from(b, 4)), "equ == (a == b)");
	OBSERVE_INT("ret", c); CANARY("returned");
}

//@job name=sm9_z256_is_zero props=C17 enforce=sm9_z256_is_zero layer=proved
void h_sm9_z256_is_zero(void)
{
	INPUT(z256_in, A);
	uint64_t c = sm9_z256_is_zero(A.v);
	NCHECK(c == (uint64_t)nr_eq(nr_from(A.v, 4), nr_u64(0)), "is_zero == (a == 0)");
	OBSERVE_INT("ret", c); CANARY("returned");
}


//@job name=sm9_z256_from_bytes props=C17 enforce=sm9_z256_from_bytes layer=proved
void h_sm9_z256_from_bytes(void)
{
	INPUT(b32_in, I); INPUT(z256_in, Rb); uint64_t *r = Rb.v;
	sm9_z256_from_bytes(r, I.v);
	NATIVE(int k; int ok = 1; for (k = 0; k < 32; k++) ok &= (I.v[k] == (uint8_t)(r[3 - k / 8] >> (56 - 8 * (k % 8)))););
	NCHECK(ok, "r is the big-endian value of in[0..32)");
	DONE;
}

//@job name=sm9_z256_to_bytes props=C17 enforce=sm9_z256_to_bytes layer=proved
void h_sm9_z256_to_bytes(void)
{
	INPUT(z256_in, A); INPUT(b32_in, O);
	sm9_z256_to_bytes(A.v, O.v);
	NATIVE(int k; int ok = 1; for (k = 0; k < 32; k++) ok &= (O.v[k] == (uint8_t)(A.v[3 - k / 8] >> (56 - 8 * (k % 8)))););
	NCHECK(ok, "out is the big-endian encoding of a");
	OBSERVE_BYTES("out", O.v, 32); CANARY("returned");
}

/* lemma over the two real bodies: from_bytes(to_bytes(a)) == a and to_bytes(from_bytes(x)) == x */
//@job name=sm9_z256_bytes_roundtrip props=C17,C14 expect=assertion layer=proved
void h_sm9_z256_bytes_roundtrip(void)
{
	INPUT(z256_in, A); INPUT(b32_in, X);
	uint8_t buf[32]; uint64_t t[4]; uint8_t buf2[32];
	sm9_z256_to_bytes(A.v, buf);
	sm9_z256_from_bytes(t, buf);
	CHECK(t[0] == A.v[0] && t[1] == A.v[1] && t[2] == A.v[2] && t[3] == A.v[3], "from_bytes(to_bytes(a)) == a");
	sm9_z256_from_bytes(t, X.v);
	sm9_z256_to_bytes(t, buf2);
	CHECK(memcmp(buf2, X.v, 32) == 0, "to_bytes(from_bytes(x)) == x");
	CANARY("returned");
}
