/* C04 — buffered streaming layer of SM4-CTR / SM4-CTR32 (src/sm4_ctr.c) */
#define G_MC_EXPR verif_gk
#define CONTRACT_MEMCPY_SMALL16
#ifdef VERIF_CBMC
#include <stdint.h>
const uint8_t G_zero_byte = 0;
#endif
#ifdef ST_CTR32
#define ST_UPDATE sm4_ctr32_encrypt_update
#define ST_FINISH sm4_ctr32_encrypt_finish
#define ST_BLOCKS sm4_ctr32_encrypt_blocks
#else
#define ST_UPDATE sm4_ctr_encrypt_update
#define ST_FINISH sm4_ctr_encrypt_finish
#define ST_BLOCKS sm4_ctr_encrypt_blocks
#endif
#define ST_CTX_T SM4_CTR_CTX
#define ST_IVFIELD ctr
#define ST_HOLDBACK 0
#include "sm4_stream_tpl.h"
#include "src/sm4_ctr.c"
#include "stubs_stdio.h"
#ifdef VERIF_CBMC
#define GK_BIND(g, s) ASSUME(verif_gk == (g) && verif_gk < 16 && G_sk == (s));
#define SNAP_BLK(c) do { int i_; for (i_ = 0; i_ < 16; i_++) G_blk0[i_] = (c)->block[i_]; } while (0)
#else
#define GK_BIND(g, s)
#define SNAP_BLK(c)
#endif
#ifdef ST_EXACT_FRAME
#define ST_INPLACE_MODE 1
#define ST_CANARY2 if (inplace) CANARY("in-place");
#else
#define ST_INPLACE_MODE 0
#define ST_CANARY2 if (U.ctx.block_nbytes && U.inlen >= 32) CANARY("two-calls");
#endif
#ifndef ST_MAXLEN
#define ST_MAXLEN 70
#endif
typedef struct { SM4_CTR_CTX ctx; uint8_t in[32]; size_t inlen, sk; uint8_t gk, mode; } st_in;
DECL_INPUT(st_in);

#define ST_H_UPDATE \
	INPUT(st_in, U); ASSUME(U.inlen <= ST_MAXLEN); GK_BIND(U.gk, U.sk) \
	SM4_CTR_CTX *ctx = malloc(sizeof *ctx); ASSUME(ctx != NULL); *ctx = U.ctx; ASSUME(ctx->block_nbytes <= 17); SNAP_BLK(ctx); \
	size_t cap = 16 * ((U.inlen + 15) / 16); int inplace = ST_INPLACE_MODE && ctx->block_nbytes == 0; \
	MKBUF(in, U.in, inplace ? cap : U.inlen); uint8_t *out; if (inplace) out = in; else { out = malloc(cap); ASSUME(out != NULL); } \
	size_t *outlen = malloc(sizeof(size_t)); ASSUME(outlen != NULL); \
	int ret = ST_UPDATE((U.mode & 1) ? NULL : ctx, (U.mode & 2) ? NULL : in, U.inlen, (U.mode & 4) ? NULL : out, (U.mode & 8) ? NULL : outlen); \
	OBSERVE_INT("ret", ret); \
	if (ret == 1 && !(U.mode & 4)) { CANARY("updated"); ST_CANARY2 } \
	CANARY("returned");
#define ST_H_FINISH \
	INPUT(st_in, U); GK_BIND(U.gk, U.sk) \
	SM4_CTR_CTX *ctx = malloc(sizeof *ctx); ASSUME(ctx != NULL); *ctx = U.ctx; ASSUME(ctx->block_nbytes <= 17); \
	MKOUT(out, 16); size_t *outlen = malloc(sizeof(size_t)); ASSUME(outlen != NULL); \
	int ret = ST_FINISH((U.mode & 1) ? NULL : ctx, (U.mode & 4) ? NULL : out, (U.mode & 8) ? NULL : outlen); \
	OBSERVE_INT("ret", ret); \
	if (ret == 1 && !(U.mode & 4)) { CANARY("finished"); } \
	CANARY("returned");

//@job name=sm4_ctr_encrypt_update props=C04 enforce=sm4_ctr_encrypt_update replace=sm4_ctr_encrypt_blocks,memcpy unwind=17 timeout=1800 bounded=input-chunk<=70-bytes(loop-free-function)
void h_sm4_ctr_encrypt_update(void) { ST_H_UPDATE }
/* in place (in == out, nothing buffered), exact frame of the block function */
//@job name=sm4_ctr_encrypt_update_inplace props=C04 enforce=sm4_ctr_encrypt_update replace=sm4_ctr_encrypt_blocks,memcpy unwind=17 timeout=1800 defs=-DST_EXACT_FRAME,-DST_MAXLEN=40 harness=h_sm4_ctr_encrypt_update tier=thorough bounded=input-chunk<=40-bytes(loop-free-function)
//@job name=sm4_ctr_encrypt_finish props=C04 enforce=sm4_ctr_encrypt_finish replace=sm4_ctr_encrypt_blocks,memcpy timeout=600
void h_sm4_ctr_encrypt_finish(void) { ST_H_FINISH }
//@job name=sm4_ctr32_encrypt_update props=C04,C05 enforce=sm4_ctr32_encrypt_update replace=sm4_ctr32_encrypt_blocks,memcpy unwind=17 timeout=1800 defs=-DST_CTR32 harness=h_sm4_ctr_encrypt_update bounded=input-chunk<=70-bytes(loop-free-function)
//@job name=sm4_ctr32_encrypt_finish props=C04,C05 enforce=sm4_ctr32_encrypt_finish replace=sm4_ctr32_encrypt_blocks,memcpy timeout=600 defs=-DST_CTR32 harness=h_sm4_ctr_encrypt_finish
