/* C04 / C05 — SM4-CCM (src/sm4_ccm.c) against RFC 3610 / SP 800-38C formatting */
#define G_MC_EXPR verif_gk
/* both memcpy calls copy the nonce to offset 1 of a block: describe them at the bytes that land on block[verif_gk] and block[G_sk] */
#define G_MC_MEMCPY_EXPR (verif_gk - 1)
#define G_MC_MEMCPY_EXPR2 (G_sk - 1)
#include <stddef.h>
#ifdef VERIF_CBMC
extern size_t G_sk;
#endif
#define CONTRACT_MEMCMP_RECORDING
#define CONTRACT_MEMCMP_SEQ
#define CONTRACT_SECURE_MEMCMP_RECORDING
#define CONTRACT_MEMXOR_RECORDING
#define CONTRACT_CCM_CTR_INCR
#include "sm4_ccm.h"
#include "src/sm4_ccm.c"
#include "stubs_stdio.h"
#ifdef VERIF_CBMC
#define GK_BIND(g, s) ASSUME(verif_gk == (g) && verif_gk < 16 && G_sk == (s));
#else
#define GK_BIND(g, s)
#endif
#ifndef CCM_MAXLEN
#define CCM_MAXLEN 70000
#endif
typedef struct { uint8_t iv[16], aad[32], in[32], tag[16]; size_t ivlen, aadlen, inlen, taglen, sk; uint8_t gk, mode; } ccm_in;
DECL_INPUT(ccm_in);

#define CCM_SETUP \
	INPUT(ccm_in, C); ASSUME(C.ivlen <= 16 && C.aadlen <= CCM_MAXLEN && C.inlen <= CCM_MAXLEN && C.taglen <= 20); \
	GK_BIND(C.gk, C.sk) \
	SM4_KEY *key = malloc(sizeof(SM4_KEY)); ASSUME(key != NULL); NATIVE({ uint8_t kb_[16]; memset(kb_, 0x5a, 16); sm4_set_encrypt_key(key, kb_); }) \
	MKBUF(iv, C.iv, C.ivlen); MKBUF(aad, C.aad, C.aadlen); MKBUF(in, C.in, C.inlen); MKOUT(out, C.inlen);

#ifdef VERIF_NATIVE
/* independent CCM (RFC 3610 section 2) built on the block function only, to re-evaluate the formatting on the counterexample */
static void ref_ccm_tag(const SM4_KEY *key, const uint8_t *iv, size_t ivlen, const uint8_t *aad, size_t aadlen, const uint8_t *msg, size_t mlen, size_t t, uint8_t *tag)
{
	uint8_t x[16], b[16], s0[16]; size_t q = 15 - ivlen, i, pos; uint64_t l = mlen;
	memset(b, 0, 16); b[0] = (uint8_t)((aadlen ? 64 : 0) + 8 * ((t - 2) / 2) + (q - 1)); memcpy(b + 1, iv, ivlen);
	for (i = 0; i < q; i++) { b[15 - i] = (uint8_t)l; l = (i < 7) ? l >> 8 : 0; }
	sm4_encrypt(key, b, x);
#define ABSORB(byte) do { x[pos++] ^= (byte); if (pos == 16) { sm4_encrypt(key, x, x); pos = 0; } } while (0)
	pos = 0;
	if (aadlen) {
		if (aadlen < 0xff00) { ABSORB((uint8_t)(aadlen >> 8)); ABSORB((uint8_t)aadlen); }
		else if ((uint64_t)aadlen < ((uint64_t)1 << 32)) { ABSORB(0xff); ABSORB(0xfe); for (i = 0; i < 4; i++) ABSORB((uint8_t)(aadlen >> (8 * (3 - i)))); }
		else { ABSORB(0xff); ABSORB(0xff); for (i = 0; i < 8; i++) ABSORB((uint8_t)((uint64_t)aadlen >> (8 * (7 - i)))); }
		for (i = 0; i < aadlen; i++) ABSORB(aad[i]);
		if (pos) { sm4_encrypt(key, x, x); pos = 0; }
	}
	for (i = 0; i < mlen; i++) ABSORB(msg[i]);
	if (pos) { sm4_encrypt(key, x, x); pos = 0; }
	memset(b, 0, 16); b[0] = (uint8_t)(q - 1); memcpy(b + 1, iv, ivlen); sm4_encrypt(key, b, s0);
	for (i = 0; i < t; i++) tag[i] = x[i] ^ s0[i];
}
#endif

//@job name=sm4_ccm_encrypt props=C04 enforce=sm4_ccm_encrypt replace=sm4_cbc_mac_update,sm4_cbc_mac_finish,sm4_encrypt,sm4_ctr_n_encrypt,gmssl_memxor,memcpy,gmssl_secure_clear unwindset=length_to_bytes.0:10 timeout=900 checks=-ptrarith
void h_sm4_ccm_encrypt(void)
{
	CCM_SETUP
	MKOUT(tag, C.taglen);
	int ret = sm4_ccm_encrypt(key, iv, C.ivlen, (C.mode & 1) ? NULL : aad, C.aadlen, in, C.inlen, out, C.taglen, tag);
	OBSERVE_INT("ret", ret);
	NATIVE(if (ret == 1) { uint8_t rt[16]; ref_ccm_tag(key, iv, C.ivlen, aad, C.aadlen, in, C.inlen, C.taglen, rt); OBSERVE_BYTES("tag", tag, C.taglen); OBSERVE_BYTES("ref", rt, C.taglen);
		CHECK(memcmp(rt, tag, C.taglen) == 0, "CCM tag equals the tag of an independent RFC 3610 implementation"); })
	if (ret == 1) { CANARY("encrypted"); if (C.aadlen >= 0xff00) CANARY("long-aad"); if (C.aadlen == 0) CANARY("no-aad"); }
	CANARY("returned");
}

//@job name=sm4_ccm_decrypt props=C05,C04 enforce=sm4_ccm_decrypt replace=sm4_cbc_mac_update,sm4_cbc_mac_finish,sm4_encrypt,sm4_ctr_n_encrypt,gmssl_memxor,memcmp,gmssl_secure_memcmp,memcpy,gmssl_secure_clear unwindset=length_to_bytes.0:10 timeout=900 checks=-ptrarith
void h_sm4_ccm_decrypt(void)
{
	CCM_SETUP
	MKBUF(tag, C.tag, C.taglen);
	int ret = sm4_ccm_decrypt(key, iv, C.ivlen, (C.mode & 1) ? NULL : aad, C.aadlen, in, C.inlen, tag, C.taglen, out);
	OBSERVE_INT("ret", ret);
	if (ret == 1) { CANARY("accepted"); }
	if (ret != 1 && C.ivlen >= 7 && C.ivlen <= 13 && C.taglen == 8) CANARY("rejected-tag");
	CANARY("returned");
}

typedef struct { uint8_t a[16]; size_t n; } inc_in;
DECL_INPUT(inc_in);
//@job name=sm4_ccm_ctr_n_incr props=C04 enforce=ctr_n_incr unwindset=ctr_n_incr.*:10 timeout=300
void h_sm4_ccm_ctr_n_incr(void)
{
	INPUT(inc_in, I); ASSUME(I.n >= 2 && I.n <= 8);
	MKBUF(a, I.a, 16);
	ctr_n_incr(a, I.n);
	NATIVE({ unsigned __int128 v0 = 0, v1 = 0, m; size_t i; for (i = 16 - I.n; i < 16; i++) { v0 = (v0 << 8) | I.a[i]; v1 = (v1 << 8) | a[i]; }
		m = I.n >= 16 ? ~(unsigned __int128)0 : (((unsigned __int128)1 << (8 * I.n)) - 1);
		CHECK(v1 == ((v0 + 1) & m) && memcmp(a, I.a, 16 - I.n) == 0, "low n bytes incremented as one big-endian integer, the rest unchanged"); })
	OBSERVE_BYTES("a", a, 16);
	CANARY("returned");
}
