/* C02 / C18 — SM2 encryption core (src/sm2_enc.c sm2_do_encrypt) */
#define G_MC_EXPR verif_gk
#include "sm2_encrypt.h"
#include "src/sm2_enc.c"
#include "stubs_stdio.h"
typedef struct { uint8_t first[32]; size_t inlen; size_t tk; } enc2_in;
DECL_INPUT(enc2_in);
#ifdef VERIF_CBMC
#define GK_BIND(t) ASSUME(G_tk == (t) && G_tk < 4096);
#else
#define GK_BIND(t)
#endif
/* the two retry loops (k == 0, t all zero) are unwound 3 times without unwinding assertions: bounded stand-in for the
   termination-free part; every path with at most 2 retries of each kind is covered */
//@job name=sm2_do_encrypt props=C02,C18 enforce=sm2_do_encrypt replace=sm2_z256_rand_range,sm2_z256_point_mul_generator,sm2_z256_point_mul,sm2_z256_point_to_bytes,sm2_kdf,all_zero,gmssl_memxor,sm3_init,sm3_update,sm3_finish,gmssl_secure_clear,sm2_z256_is_zero,sm2_z256_order unwindset=sm2_do_encrypt.*:3 partial=1 bounded=at-most-2-retries-of-each-kind(no-unwinding-assertion) timeout=900 native=0
void h_sm2_do_encrypt(void)
{
	INPUT(enc2_in, E); ASSUME(E.inlen <= 300); GK_BIND(E.tk)
	SM2_KEY *key = malloc(sizeof *key); SM2_CIPHERTEXT *out = malloc(sizeof *out); ASSUME(key && out);
	MKBUF(in, E.first, E.inlen);
	int ret = sm2_do_encrypt(key, in, E.inlen, out);
	if (ret == 1) { CANARY("encrypted"); }
	CANARY("returned");
}
