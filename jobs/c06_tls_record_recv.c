/* C06 — tls_record_recv (src/tls.c): the peer's byte stream arrives through recv(); every recv() call must ask for no more
 * than the record buffer still holds (the obligation is recv's precondition WR_OK(buf, len) at both call sites), and a
 * returned record has 5 <= *recordlen <= TLS_MAX_RECORD_SIZE and *recordlen == 5 + the length field.
 * recv() is an assumed contract (trusted: writes at most len bytes, returns -1..len).  The two receive loops have no
 * variant (they wait on EAGAIN), so this is a BOUNDED stand-in: at most 3 recv() calls per loop. */
#define CONTRACT_TLS_RECORD_RECV_REAL
#include "tls_names.h"
#include <sys/types.h>
#include <sys/socket.h>
#include <unistd.h>
#include <errno.h>
#include "verif.h"
ssize_t recv(int fd, void *buf, size_t len, int flags)
REQUIRES(WR_OK(buf, len))
ASSIGNS(OBJ_WHOLE(buf))
ENSURES(RET >= -1 && RET <= (ssize_t)len)
;
#include <gmssl/tls.h>
int tls_record_recv(uint8_t *record, size_t *recordlen, tls_socket_t sock)
REQUIRES(WR_OK(record, TLS_MAX_RECORD_SIZE) && WR_OK(recordlen, sizeof(size_t)))
ASSIGNS(OBJ_WHOLE(record), *recordlen)
ENSURES(RET == 1 IMPLIES (*recordlen >= 5 && *recordlen <= TLS_MAX_RECORD_SIZE))
;
#include "src/tls.c"
#include "stubs_stdio.h"
#ifdef VERIF_CBMC
void perror(const char *s) { (void)s; }
int usleep(useconds_t us) { (void)us; return 0; }
#endif
typedef struct { int err; int sock; } rr_in;
DECL_INPUT(rr_in);
//@job name=tls_record_recv props=C06 enforce=tls_record_recv replace=recv,tls_record_type_name,tls_protocol_name unwindset=tls_record_recv.*:4 partial=1 bounded=at-most-3-recv-calls-per-receive-loop(no-unwinding-assertion;loops-wait-on-EAGAIN-and-have-no-variant) trusted=recv timeout=3600 native=0
void h_tls_record_recv(void)
{
	INPUT(rr_in, H);
	MKOUT(record, TLS_MAX_RECORD_SIZE);
	size_t *recordlen = malloc(sizeof(size_t)); ASSUME(recordlen);
	errno = H.err;
	int ret = tls_record_recv(record, recordlen, H.sock);
	if (ret == 1) { CANARY("received"); if (*recordlen == TLS_MAX_RECORD_SIZE) CANARY("largest"); }
	if (ret == 0) CANARY("closed");
	if (ret == -EAGAIN) CANARY("again");
	CANARY("returned");
}
