/* C07 / C06 — x509_exts_check (src/x509_ext.c): the per-certificate extension profile */
#define CONTRACT_BC_RECORDING
#include "x509.h"
#include "src/x509_ext.c"
#include "stubs_stdio.h"
#define MAXIN 24
typedef struct { uint8_t buf[MAXIN]; size_t inlen; int type; } xe_in;
DECL_INPUT(xe_in);

//@job name=x509_exts_check props=C07,C06 enforce=x509_exts_check replace=x509_ext_from_der,asn1_type_from_der,asn1_length_is_zero,asn1_bits_from_der_ex,x509_key_usage_check,x509_basic_constraints_from_der,x509_basic_constraints_check,x509_ext_key_usage_from_der,x509_ext_key_usage_check loops=1 timeout=900
void h_x509_exts_check(void)
{
	INPUT(xe_in, I); ASSUME(I.inlen <= (size_t)INT_MAX);
	MKBUF(buf, I.buf, I.inlen); int plc;
	int ret = x509_exts_check(buf, I.inlen, I.type, &plc);
	OBSERVE_INT("ret", ret);
	NCHECK(!(I.inlen == 0 && (I.type == X509_cert_ca || I.type == X509_cert_root_ca || I.type == X509_cert_crl_sign)) || ret != 1,
		"a certificate with no extensions at all (hence no basicConstraints cA=TRUE) is not accepted in an issuing role");
	if (ret == 1) { CANARY("ok"); }
	CANARY("returned");
}
