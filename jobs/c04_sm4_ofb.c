/* C04 — src/sm4_ofb.c streaming interface vs. the size it reports (contracts/sm4_ofb.h, two modes of one contract) */
#define CONTRACT_OFB_ONESHOT_FRAME
#include "sm4_ofb.h"
#include "src/sm4_ofb.c"
#include "stubs_stdio.h"
typedef struct { SM4_OFB_CTX ctx; size_t inlen; size_t cap; } of_in;
DECL_INPUT(of_in);
#define OF_SETUP \
	INPUT(of_in, H); ASSUME(H.inlen <= 65536 && H.cap <= 65536 + 32 && H.ctx.block_nbytes < 16); \
	SM4_OFB_CTX *ctx = malloc(sizeof(*ctx)); ASSUME(ctx); *ctx = H.ctx; \
	MKOUT(in, H.inlen ? H.inlen : 1); size_t *n = malloc(sizeof(size_t)); ASSUME(n);
//@job name=sm4_ofb_encrypt_update_write props=C04 enforce=sm4_ofb_encrypt_update replace=sm4_ofb_encrypt,memcpy timeout=900
void h_sm4_ofb_encrypt_update_write(void)
{
	OF_SETUP
	ASSUME(H.cap >= OFB_W(H.ctx.block_nbytes, H.inlen)); G_cfb_cap = H.cap;
	MKOUT(out, H.cap ? H.cap : 1);
	int ret = sm4_ofb_encrypt_update(ctx, in, H.inlen, out, n);
	if (ret == 1) { CANARY("written"); if (*n == H.cap && *n > 16) CANARY("fills-capacity"); if (ctx->block_nbytes) CANARY("buffers-tail"); }
	CANARY("returned");
}
//@job name=sm4_ofb_encrypt_update_reported_size props=C04 enforce=sm4_ofb_encrypt_update replace=sm4_ofb_encrypt,memcpy timeout=900
void h_sm4_ofb_encrypt_update_reported_size(void)
{
	OF_SETUP
	int ret = sm4_ofb_encrypt_update(ctx, in, H.inlen, NULL, n);
	if (ret == 1) { CANARY("size-reported"); }
	CANARY("returned");
}
//@job name=sm4_ofb_encrypt_finish_write props=C04 enforce=sm4_ofb_encrypt_finish replace=sm4_ofb_encrypt timeout=900
void h_sm4_ofb_encrypt_finish_write(void)
{
	OF_SETUP
	ASSUME(H.cap >= H.ctx.block_nbytes); G_cfb_cap = H.cap;
	MKOUT(out, H.cap ? H.cap : 1);
	int ret = sm4_ofb_encrypt_finish(ctx, out, n);
	if (ret == 1) { CANARY("written"); if (*n == 15) CANARY("longest-tail"); }
	CANARY("returned");
}
//@job name=sm4_ofb_encrypt_finish_reported_size props=C04 enforce=sm4_ofb_encrypt_finish replace=sm4_ofb_encrypt timeout=900
void h_sm4_ofb_encrypt_finish_reported_size(void)
{
	OF_SETUP
	int ret = sm4_ofb_encrypt_finish(ctx, NULL, n);
	if (ret == 1) { CANARY("size-reported"); }
	CANARY("returned");
}
