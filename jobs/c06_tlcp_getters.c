/* C06 — TLCP ServerKeyExchange (PKE) getter of src/tlcp.c: the signature is a slice of the record */
#define CONTRACT_TLS_GETTERS
#define CONTRACT_TLCP_GETTERS
#include "tls_names.h"
#include "tls_handshake.h"
#include "src/tlcp.c"
#include "stubs_stdio.h"
typedef struct { uint8_t first[32]; size_t len; uint8_t mode; } gt_in;
DECL_INPUT(gt_in);
//@job name=tlcp_get_server_key_exchange_pke props=C06 enforce=tlcp_record_get_handshake_server_key_exchange_pke replace=tls_record_get_handshake,tls_uint16array_from_bytes timeout=600
void h_tlcp_get_server_key_exchange_pke(void)
{
	INPUT(gt_in, H); ASSUME(H.len >= 5 && H.len <= 5 + 65535);
	MKBUF(record, H.first, H.len); ASSUME(((((size_t)record[3]) << 8) | record[4]) + 5 == H.len);
	const uint8_t **out = malloc(sizeof(*out)); size_t *outlen = malloc(sizeof(size_t)); ASSUME(out && outlen);
	int ret = tlcp_record_get_handshake_server_key_exchange_pke((H.mode & 1) ? NULL : record, (H.mode & 2) ? NULL : out, (H.mode & 4) ? NULL : outlen);
	if (ret == 1) { CANARY("parsed"); }
	CANARY("returned");
}
