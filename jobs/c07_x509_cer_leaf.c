/* C07 — validity window check of src/x509_cer.c */
#include "x509.h"
#include "src/x509_cer.c"
#include "stubs_stdio.h"
typedef struct { long t1, t2, t3; int m; } xv_in;
DECL_INPUT(xv_in);

//@job name=x509_validity_check props=C07,C20 enforce=x509_validity_check
void h_x509_validity_check(void)
{
	INPUT(xv_in, I); ASSUME(I.t1 >= -1 && I.t2 >= -1 && I.t3 >= 0 && I.m >= 0 && I.t1 <= (1L << 40) && I.t2 <= (1L << 40));
	int ret = x509_validity_check(I.t1, I.t2, I.t3, I.m);
	if (ret == 1) { CANARY("ok"); }
	CANARY("returned");
}
