/* C18 — the single entropy gateway (src/rand_unix.c): length guard, failure propagation */
#define CONTRACT_RAND_BYTES_ENFORCE
#include "rand.h"
#ifdef VERIF_CBMC
int G_ge_ret; unsigned G_ge_calls;
#endif
/* OS source: fills the buffer and returns 0, or returns -1 */
int getentropy(void *buffer, size_t length)
REQUIRES(length <= 256 && WR_OK(buffer, length))
ASSIGNS(length != 0: OBJ_UPTO((uint8_t *)buffer, length); G_ge_ret, G_ge_calls)
ENSURES((RET == 0 || RET == -1) && G_ge_ret == RET && G_ge_calls == OLD(G_ge_calls) + 1)
;
int rand_bytes(uint8_t *buf, size_t len)
REQUIRES(buf == NULL || len == 0 || len > 256 || WR_OK(buf, len))
ASSIGNS(buf != NULL && len >= 1 && len <= 256: OBJ_UPTO(buf, len); G_ge_ret, G_ge_calls)
ENSURES(RET == 1 || RET == -1)
/* refuses NULL, empty and over-long requests without touching the OS source */
ENSURES((buf == NULL || len == 0 || len > 256) IMPLIES (RET == -1 && G_ge_calls == OLD(G_ge_calls)))
/* otherwise exactly one draw of exactly len bytes, and its failure is reported */
ENSURES((buf != NULL && len >= 1 && len <= 256) IMPLIES (G_ge_calls == OLD(G_ge_calls) + 1 && (RET == 1) == (G_ge_ret == 0)))
;
#include "src/rand_unix.c"
#include "stubs_stdio.h"
typedef struct { size_t len; uint8_t mode; } rb_in;
DECL_INPUT(rb_in);

//@job name=rand_bytes props=C18,C20 enforce=rand_bytes replace=getentropy
void h_rand_bytes(void)
{
	INPUT(rb_in, I); ASSUME(I.len <= 100000);
	MKOUT(buf, I.len);
	int ret = rand_bytes((I.mode & 1) ? NULL : buf, I.len);
	if (ret == 1) { CANARY("drawn"); }
	CANARY("returned");
}
