/* C12 / C06 — sm2_z256_point_from_der (src/sm2_z256.c), importer replaced by its recording contract */
#define CONTRACT_FROM_OCTETS_RECORDING
#include "sm2_key.h"
#include "src/sm2_z256.c"
#include "stubs_stdio.h"
#define MAXIN 32
typedef struct { uint8_t buf[MAXIN]; size_t inlen; int tag; } der_in;
DECL_INPUT(der_in);

//@job name=sm2_point_from_der props=C12,C06 enforce=sm2_z256_point_from_der replace=asn1_type_from_der,sm2_z256_point_from_octets
void h_sm2_point_from_der(void)
{
	SM2_STATICS_INIT;
	INPUT(der_in, I); ASSUME(I.inlen <= (size_t)INT_MAX);
	MKBUF(buf, I.buf, I.inlen); const uint8_t *in = buf; size_t inlen = I.inlen; SM2_Z256_POINT P;
	int ret = sm2_z256_point_from_der(&P, &in, &inlen);
	if (ret == 1) { CANARY("accepted"); }
	CANARY("returned");
}
