/* C04 — buffered streaming layer of ZUC (src/zuc_modes.c: zuc_encrypt_update / zuc_encrypt_finish): chunking invariance
 * per call, relative to the recording contract of zuc_encrypt.  Loop-free functions, callees replaced: no unwinding bound.
 * The harness input buffer carries 32 chosen bytes; longer inputs continue with unconstrained bytes. */
#define G_MC_EXPR verif_gk
#define CONTRACT_MEMCPY_SMALL16
#ifdef VERIF_CBMC
#include <stdint.h>
const uint8_t G_zero_byte = 0;
#endif
#include "zuc_stream.h"
#include "src/zuc_modes.c"
#include "stubs_stdio.h"
#ifdef VERIF_CBMC
#define GK_BIND(g, s) ASSUME(verif_gk == (g) && verif_gk < 4 && G_sk == (s));
#define SNAP_BLK(c) do { int i_; for (i_ = 0; i_ < 4; i_++) G_blk0[i_] = (c)->block[i_]; } while (0)
#else
#define GK_BIND(g, s)
#define SNAP_BLK(c)
#endif
#ifndef ZS_MAXLEN
#define ZS_MAXLEN 70
#endif
typedef struct { ZUC_CTX ctx; uint8_t in[32]; size_t inlen, sk; uint8_t gk; } zs_in;
DECL_INPUT(zs_in);

//@job name=zuc_encrypt_update props=C04 enforce=zuc_encrypt_update replace=zuc_encrypt,memcpy unwind=17 timeout=1800 bounded=input-chunk<=70-bytes(loop-free-function)
//@job name=zuc_encrypt_update_inplace props=C04 enforce=zuc_encrypt_update replace=zuc_encrypt,memcpy unwind=17 timeout=1800 defs=-DZS_EXACT_FRAME,-DZS_MAXLEN=24 harness=h_zuc_encrypt_update tier=thorough bounded=input-chunk<=24-bytes(loop-free-function)
void h_zuc_encrypt_update(void)
{
	INPUT(zs_in, U); ASSUME(U.inlen <= ZS_MAXLEN); GK_BIND(U.gk, U.sk)
	ZUC_CTX *ctx = malloc(sizeof *ctx); ASSUME(ctx != NULL); *ctx = U.ctx; ASSUME(ctx->block_nbytes <= 5); SNAP_BLK(ctx);
	size_t cap = 4 * ((U.inlen + 3) / 4);
#ifdef ZS_EXACT_FRAME
	/* in place (in == out) when nothing is buffered: needs the exact frame of zuc_encrypt, the unwritten tail is still input */
	int inplace = ctx->block_nbytes == 0;
	MKBUF(in, U.in, inplace ? cap : U.inlen); uint8_t *out; if (inplace) out = in; else { out = malloc(cap); ASSUME(out != NULL); }
#else
	MKBUF(in, U.in, U.inlen); MKOUT(out, cap);
#endif
	size_t *outlen = malloc(sizeof(size_t)); ASSUME(outlen != NULL);
	int ret = zuc_encrypt_update(ctx, in, U.inlen, out, outlen);
	OBSERVE_INT("ret", ret);
	if (ret == 1) { CANARY("updated"); if (U.ctx.block_nbytes && U.inlen >= 8) CANARY("two-calls"); if (U.ctx.block_nbytes == 3 && U.inlen == 0) CANARY("empty-input");
#ifdef ZS_EXACT_FRAME
		if (inplace && U.inlen == 7) CANARY("in-place");
#endif
	}
	if (ret == -1) CANARY("refused");
	CANARY("returned");
}
//@job name=zuc_encrypt_finish props=C04 enforce=zuc_encrypt_finish replace=zuc_encrypt,memcpy unwind=17 timeout=600
void h_zuc_encrypt_finish(void)
{
	INPUT(zs_in, U); GK_BIND(U.gk, U.sk)
	ZUC_CTX *ctx = malloc(sizeof *ctx); ASSUME(ctx != NULL); *ctx = U.ctx; ASSUME(ctx->block_nbytes <= 5); SNAP_BLK(ctx);
	MKOUT(out, 4); size_t *outlen = malloc(sizeof(size_t)); ASSUME(outlen != NULL);
	int ret = zuc_encrypt_finish(ctx, out, outlen);
	OBSERVE_INT("ret", ret);
	if (ret == 1) { CANARY("finished"); if (U.ctx.block_nbytes == 0) CANARY("nothing-buffered"); }
	CANARY("returned");
}
