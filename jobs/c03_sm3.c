/* C03 — SM3 streaming: chunking invariance and padding of the real src/sm3.c */
#include "sm3_real.h"
/* memcpy is replaced by its contract; its ghost index is aligned with stream position G_tk:
   a byte of the input at stream position G_tk sits at data[G_tk - G_L0], i.e. at index (G_tk - G_L0) - (src - data) of the source of the call */
#ifdef VERIF_CBMC
uint64_t G_L0; size_t G_data_off; uint64_t G_blk_stream0; size_t G_blk_off;
/* memset in sm3_finish writes block bytes: index aligned with the stream position relative to the block start */
#define G_MC_MEMSET_EXPR ((G_tk - G_blk_stream0) - (__CPROVER_POINTER_OFFSET(dst) - G_blk_off))
#define G_MC_MEMCPY_EXPR ((G_tk - G_L0) - (__CPROVER_POINTER_OFFSET(src) - G_data_off))
#endif
#include "libc.h"
#include "src/sm3.c"
#include "stubs_stdio.h"
typedef struct { uint8_t first[32]; size_t len; uint64_t nblocks; size_t num; uint8_t blk[64]; } s3_in;
DECL_INPUT(s3_in);

//@job name=sm3_update props=C03,C06 enforce=sm3_update replace=sm3_compress_blocks,memcpy timeout=2400 tier=thorough
void h_sm3_update(void)
{
	INPUT(s3_in, I); ASSUME(I.len <= ((size_t)1 << 50) && I.num < 64 && I.nblocks <= ((uint64_t)1 << 56));
	SM3_CTX *ctx = malloc(sizeof(SM3_CTX)); ASSUME(ctx != NULL);
	ctx->nblocks = I.nblocks; ctx->num = I.num; memcpy(ctx->block, I.blk, 64);
	ASSUME(G_cfed == 64 * ctx->nblocks && (G_tk >= G_cfed || G_cseen == 1));
	MKBUF(data, I.first, I.len);
	G_L0 = 64 * ctx->nblocks + ctx->num; G_data_off = __CPROVER_POINTER_OFFSET(data);
	sm3_update(ctx, data, I.len);
	CANARY("returned");
}

/* the two-block case re-uses ctx->block for the second block: the stream position of block[0] moves by 64 after the first compress;
   the job is therefore run once per case (num <= 55 / num > 55) with the alignment of the LAST block for memset-after-compress */
//@job name=sm3_finish props=C03,C06 enforce=sm3_finish replace=sm3_compress_blocks,memset unwindset=sm3_finish.*:9 timeout=900
void h_sm3_finish(void)
{
	INPUT(s3_in, I); ASSUME(I.num < 64 && I.nblocks <= ((uint64_t)1 << 54));
	SM3_CTX *ctx = malloc(sizeof(SM3_CTX)); ASSUME(ctx != NULL);
	ctx->nblocks = I.nblocks; ctx->num = I.num; memcpy(ctx->block, I.blk, 64); memcpy(G_blk0, I.blk, 64);
	G_nb0 = I.nblocks; G_num0 = I.num;
	ASSUME(G_cfed == 64 * ctx->nblocks && (G_tk >= G_cfed || G_cseen == 1));
	/* which write of block[] carries stream position G_tk: first block for G_tk < 64*(nb+1), else the second */
	G_blk_stream0 = (G_tk < 64 * (I.nblocks + 1)) ? 64 * I.nblocks : 64 * (I.nblocks + 1);
	G_blk_off = __CPROVER_POINTER_OFFSET(ctx->block);
	uint8_t dgst[32];
	sm3_finish(ctx, dgst);
	CANARY("returned");
}
