/* C04 / C06 — zuc_encrypt (src/zuc.c): bounds of the byte-stream interface and the LFSR work-mode step.
 * BOUNDED stand-in: the word loop is unwound, messages of at most 8 bytes (two LFSR steps); every LFSR content. */
#include "zuc_core.h"
#include "src/zuc.c"
#include "stubs_stdio.h"
typedef struct { ZUC_STATE st; uint8_t first[8]; size_t inlen, gk; uint8_t same; } zu_in;
DECL_INPUT(zu_in);
//@job name=zuc_encrypt props=C04,C06 enforce=zuc_encrypt unwindset=zuc_encrypt.*:16 partial=1 bounded=inlen<=8(two-LFSR-steps;word-loop-unwound,no-unwinding-assertion) timeout=900 solver=kissat
void h_zuc_encrypt(void)
{
	INPUT(zu_in, H); ASSUME(H.inlen <= 8 && H.gk < 16); verif_gk = H.gk;
	ASSUME(H.st.LFSR[0] <= 0x7fffffffu && H.st.LFSR[1] <= 0x7fffffffu && H.st.LFSR[4] <= 0x7fffffffu && H.st.LFSR[5] <= 0x7fffffffu
		&& H.st.LFSR[10] <= 0x7fffffffu && H.st.LFSR[11] <= 0x7fffffffu && H.st.LFSR[13] <= 0x7fffffffu && H.st.LFSR[14] <= 0x7fffffffu && H.st.LFSR[15] <= 0x7fffffffu);
	/* H.same: the input is ctx->block of the ZUC_CTX that holds the state (the call shape of zuc_encrypt_update / finish) */
	ZUC_CTX *cx = malloc(sizeof(*cx)); ASSUME(cx); cx->zuc_state = H.st;
	cx->block[0] = H.first[0]; cx->block[1] = H.first[1]; cx->block[2] = H.first[2]; cx->block[3] = H.first[3];
	ZUC_STATE *st = &cx->zuc_state;
	MKBUF(in0, H.first, H.inlen); MKOUT(out, H.inlen);
	ASSUME(!H.same || H.inlen <= 4);
	const uint8_t *in = H.same ? cx->block : in0;
	zuc_encrypt(st, in, H.inlen, out);
	if (H.same && H.inlen == 3) CANARY("input-inside-ctx");
	if (H.inlen == 3) CANARY("tail-only");
	if (H.inlen == 7) CANARY("word-and-tail");
	if (H.inlen == 8) CANARY("two-words");
	CANARY("returned");
}
