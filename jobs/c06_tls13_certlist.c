/* C06 — TLS 1.3 CertificateEntry list parser copying peer certificates into a fixed-size buffer (src/tls13.c) */
#define CONTRACT_TLS13_CERT_LIST
#include "tls_handshake.h"
#include "src/tls13.c"
#include "stubs_stdio.h"
typedef struct { uint8_t first[32]; size_t len; } cl_in;
DECL_INPUT(cl_in);
//@job name=tls13_process_certificate_list props=C06 enforce=tls13_process_certificate_list replace=tls_uint24array_from_bytes,tls_uint16array_from_bytes,x509_cert_from_der,asn1_length_is_zero,x509_cert_to_der,tls_ext_from_bytes unwindset=tls13_process_certificate_list.*:3 partial=1 bounded=at-most-2-certificate-entries(loops-unwound-twice,no-unwinding-assertion) timeout=900
void h_tls13_process_certificate_list(void)
{
	INPUT(cl_in, H); ASSUME(H.len <= 16384);
	MKBUF(list, H.first, H.len);
	MKOUT(certs, TLS_MAX_CERTIFICATES_SIZE); size_t *certslen = malloc(sizeof(size_t)); ASSUME(certslen != NULL);
	int ret = tls13_process_certificate_list(list, H.len, certs, certslen);
	if (ret == 1) { CANARY("parsed"); if (*certslen > 0) CANARY("copied"); }
	CANARY("returned");
}
