/* C11 / C06 — TLCP / TLS 1.2 record unprotection (src/tls.c: tls_cbc_decrypt) */
#include "tls_record.h"
#include "libc.h"
#include "src/tls.c"
#include "stubs_stdio.h"
#ifdef VERIF_CBMC
#define HMSET(c) do { HM_FED(c) = 0; HM_TSEEN(c) = 0; } while (0)
#else
#define HMSET(c) sm3_hmac_init(c, (const uint8_t *)"0123456789abcdef0123456789abcdef", 32)
#endif

typedef struct { uint8_t seq[8]; uint8_t hdr[5]; uint8_t first[16]; size_t inlen; uint8_t mode; } rec_in;
DECL_INPUT(rec_in);

/* every ciphertext length 0..65536 (exact-size buffers: `out` has exactly inlen-16 bytes) */
//@job name=tls_cbc_decrypt props=C11,C06 enforce=tls_cbc_decrypt replace=sm4_cbc_decrypt_blocks,sm3_hmac_update,sm3_hmac_finish,gmssl_secure_memcmp loops=1 timeout=900
void h_tls_cbc_decrypt(void)
{
	INPUT(rec_in, R); ASSUME(R.inlen <= 65536);
	SM3_HMAC_CTX *hctx = malloc(sizeof(SM3_HMAC_CTX)); ASSUME(hctx != NULL); HMSET(hctx);
	SM4_KEY *key = malloc(sizeof(SM4_KEY)); ASSUME(key != NULL);
	MKBUF(in, R.first, R.inlen); MKOUT(out, R.inlen >= 16 ? R.inlen - 16 : 0); size_t outlen;
	uint8_t seq[8], hdr[5]; memcpy(seq, R.seq, 8); memcpy(hdr, R.hdr, 5);
	int ret = tls_cbc_decrypt(hctx, key, seq, hdr, (R.mode & 1) ? NULL : in, R.inlen, out, &outlen);
	OBSERVE_INT("ret", ret);
	if (ret == 1) { CANARY("accepted"); }
	CANARY("returned");
}
