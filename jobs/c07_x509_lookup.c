/* C07 — trust anchor lookup by subject name (src/x509_cer.c: x509_certs_get_cert_by_subject) */
#define CONTRACT_LOOKUP
#include "x509.h"
#include "src/x509_cer.c"
#include "stubs_stdio.h"
#define MAXIN 16
typedef struct { uint8_t buf[MAXIN]; size_t len; size_t slen; } lu_in;
DECL_INPUT(lu_in);

//@job name=x509_certs_get_cert_by_subject props=C07,C06 enforce=x509_certs_get_cert_by_subject replace=x509_cert_from_der,x509_cert_get_subject,x509_name_equ loops=1
void h_x509_certs_get_cert_by_subject(void)
{
	INPUT(lu_in, I); ASSUME(I.len <= (size_t)INT_MAX && I.slen <= (size_t)INT_MAX);
	MKBUF(d, I.buf, I.len); MKOUT(subj, I.slen); const uint8_t *cert; size_t certlen;
	int ret = x509_certs_get_cert_by_subject(d, I.len, subj, I.slen, &cert, &certlen);
	if (ret == 1) { CANARY("found"); }
	if (ret == 0) { CANARY("absent"); }
	CANARY("returned");
}
