/* C04 — src/sm4_ecb.c streaming interface vs. the size it reports (contracts/sm4_ecb.h) */
#include "sm4_ecb.h"
#include "src/sm4_ecb.c"
#include "stubs_stdio.h"
typedef struct { SM4_ECB_CTX ctx; size_t inlen; size_t cap; uint8_t q; } ec_in;
DECL_INPUT(ec_in);
#define EC_SETUP \
	INPUT(ec_in, H); ASSUME(H.inlen <= 65536 && H.cap <= 65536 + 32 && H.ctx.block_nbytes < 16); \
	SM4_ECB_CTX *ctx = malloc(sizeof(*ctx)); ASSUME(ctx); *ctx = H.ctx; \
	MKOUT(in, H.inlen ? H.inlen : 1); size_t *n = malloc(sizeof(size_t)); ASSUME(n);
#define EC_WRITE(fn) EC_SETUP \
	ASSUME(H.cap >= OFB_W(H.ctx.block_nbytes, H.inlen)); G_cfb_cap = H.cap; \
	MKOUT(out, H.cap ? H.cap : 1); \
	int ret = fn(ctx, in, H.inlen, out, n); \
	if (ret == 1) { CANARY("written"); if (*n == H.cap && *n > 16) CANARY("fills-capacity"); if (ctx->block_nbytes) CANARY("buffers-tail"); } \
	CANARY("returned");
#define EC_QUERY(fn) EC_SETUP \
	int ret = fn(ctx, in, H.inlen, NULL, n); \
	if (ret == 1) { CANARY("size-reported"); } \
	CANARY("returned");
#define EC_FINISH(fn) EC_SETUP \
	MKOUT(out, 1); \
	int ret = fn(ctx, H.q ? NULL : out, n); \
	if (ret == 1) { CANARY("finished"); } \
	CANARY("returned");
//@job name=sm4_ecb_encrypt_update_write props=C04 enforce=sm4_ecb_encrypt_update replace=sm4_encrypt_blocks,memcpy timeout=900
void h_sm4_ecb_encrypt_update_write(void) { EC_WRITE(sm4_ecb_encrypt_update) }
//@job name=sm4_ecb_decrypt_update_write props=C04 enforce=sm4_ecb_decrypt_update replace=sm4_encrypt_blocks,memcpy timeout=900
void h_sm4_ecb_decrypt_update_write(void) { EC_WRITE(sm4_ecb_decrypt_update) }
//@job name=sm4_ecb_encrypt_update_reported_size props=C04 enforce=sm4_ecb_encrypt_update replace=sm4_encrypt_blocks,memcpy timeout=900
void h_sm4_ecb_encrypt_update_reported_size(void) { EC_QUERY(sm4_ecb_encrypt_update) }
//@job name=sm4_ecb_decrypt_update_reported_size props=C04 enforce=sm4_ecb_decrypt_update replace=sm4_encrypt_blocks,memcpy timeout=900
void h_sm4_ecb_decrypt_update_reported_size(void) { EC_QUERY(sm4_ecb_decrypt_update) }
//@job name=sm4_ecb_encrypt_finish props=C04 enforce=sm4_ecb_encrypt_finish timeout=900
void h_sm4_ecb_encrypt_finish(void) { EC_FINISH(sm4_ecb_encrypt_finish) }
//@job name=sm4_ecb_decrypt_finish props=C04 enforce=sm4_ecb_decrypt_finish timeout=900
void h_sm4_ecb_decrypt_finish(void) { EC_FINISH(sm4_ecb_decrypt_finish) }
