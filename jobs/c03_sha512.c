/* C03 — SHA-512 streaming: chunking invariance and padding of the real src/sha512.c (template contracts/hash_stream_tpl.h) */
#define HS_CTX SHA512_CTX
#define HS_UPDATE sha512_update
#define HS_FINISH sha512_finish
#define HS_COMPRESS sha512_compress_blocks
#define HS_STATE_T uint64_t
#define HS_STATE_FIELD state
#define HS_NSTATE 8
#define HS_BLK 128
#define HS_LENB 16
#include <gmssl/sha2.h>
#include "hash_stream_tpl.h"
#ifdef VERIF_CBMC
uint64_t G_L0; size_t G_data_off; uint64_t G_blk_stream0; size_t G_blk_off;
#define G_MC_MEMSET_EXPR ((G_tk - G_blk_stream0) - (__CPROVER_POINTER_OFFSET(dst) - G_blk_off))
#define G_MC_MEMCPY_EXPR ((G_tk - G_L0) - (__CPROVER_POINTER_OFFSET(src) - G_data_off))
#endif
#include "libc.h"
#include "src/sha512.c"
#include "stubs_stdio.h"
typedef struct { uint8_t first[32]; size_t len; uint64_t nblocks; size_t num; uint8_t blk[128]; } hs_in;
DECL_INPUT(hs_in);

//@job name=sha512_update props=C03,C06 enforce=sha512_update replace=sha512_compress_blocks,memcpy timeout=5400 tier=thorough
void h_sha512_update(void)
{
	INPUT(hs_in, I); ASSUME(I.len <= ((size_t)1 << 50) && I.num < 128 && I.nblocks <= ((uint64_t)1 << 55));
	SHA512_CTX *ctx = malloc(sizeof(SHA512_CTX)); ASSUME(ctx != NULL);
	ctx->nblocks = I.nblocks; ctx->num = I.num; memcpy(ctx->block, I.blk, 128);
	ASSUME(G_cfed == 128 * ctx->nblocks && (G_tk >= G_cfed || G_cseen == 1));
	MKBUF(data, I.first, I.len);
	G_L0 = 128 * ctx->nblocks + ctx->num; G_data_off = __CPROVER_POINTER_OFFSET(data);
	sha512_update(ctx, data, I.len);
	CANARY("returned");
}

//@job name=sha512_finish props=C03,C06 enforce=sha512_finish replace=sha512_compress_blocks,memset unwindset=sha512_finish.*:9 timeout=900
void h_sha512_finish(void)
{
	INPUT(hs_in, I); ASSUME(I.num < 128 && I.nblocks <= ((uint64_t)1 << 53));
	SHA512_CTX *ctx = malloc(sizeof(SHA512_CTX)); ASSUME(ctx != NULL);
	ctx->nblocks = I.nblocks; ctx->num = I.num; memcpy(ctx->block, I.blk, 128); memcpy(G_blk0, I.blk, 128);
	G_nb0 = I.nblocks; G_num0 = I.num;
	ASSUME(G_cfed == 128 * ctx->nblocks && (G_tk >= G_cfed || G_cseen == 1));
	G_blk_stream0 = (G_tk < 128 * (I.nblocks + 1)) ? 128 * I.nblocks : 128 * (I.nblocks + 1);
	G_blk_off = __CPROVER_POINTER_OFFSET(ctx->block);
	uint8_t dgst[8 * sizeof(uint64_t)];
	sha512_finish(ctx, dgst);
	CANARY("returned");
}
