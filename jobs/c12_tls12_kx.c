/* C12 / C06 — TLS 1.2 ECDHE key-exchange parsers (src/tls12.c) */
#include "tls12_kx.h"
#include "src/tls12.c"
#include "stubs_stdio.h"
typedef struct { uint8_t first[32]; size_t len; uint8_t mode; } kx_in;
DECL_INPUT(kx_in);
#define KX_REC INPUT(kx_in, H); ASSUME(H.len >= 5 && H.len <= 5 + 65535); MKBUF(record, H.first, H.len); ASSUME(((((size_t)record[3]) << 8) | record[4]) + 5 == H.len); \
	SM2_Z256_POINT *pt = malloc(sizeof *pt); ASSUME(pt != NULL);
//@job name=tls12_get_client_key_exchange_ecdhe props=C12,C06 enforce=tls_record_get_handshake_client_key_exchange_ecdhe replace=tls_record_get_handshake,tls_uint8array_from_bytes,sm2_z256_point_from_octets timeout=600 native=0
void h_tls12_get_client_key_exchange_ecdhe(void)
{
	KX_REC
	int ret = tls_record_get_handshake_client_key_exchange_ecdhe(record, pt);
	if (ret == 1) { CANARY("imported"); }
	CANARY("returned");
}
//@job name=tls12_get_server_key_exchange_ecdhe props=C12,C06 enforce=tls_record_get_handshake_server_key_exchange_ecdhe replace=tls_record_get_handshake,tls_uint8_from_bytes,tls_uint16_from_bytes,tls_uint8array_from_bytes,tls_uint16array_from_bytes,tls_length_is_zero,sm2_z256_point_from_octets timeout=600 native=0
void h_tls12_get_server_key_exchange_ecdhe(void)
{
	KX_REC
	int *curve = malloc(sizeof(int)); const uint8_t **sig = malloc(sizeof(*sig)); size_t *siglen = malloc(sizeof(size_t)); ASSUME(curve && sig && siglen);
	int ret = tls_record_get_handshake_server_key_exchange_ecdhe((H.mode & 1) ? NULL : record, curve, (H.mode & 2) ? NULL : pt, sig, siglen);
	if (ret == 1) { CANARY("imported"); }
	CANARY("returned");
}
