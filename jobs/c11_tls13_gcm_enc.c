/* C11 — TLS 1.3 record protection, sender side (src/tls13.c tls13_gcm_encrypt) */
#define G_MC_EXPR verif_gk
#define G_MC_MEMCPY_EXPR (verif_gk - (size_t)__CPROVER_POINTER_OFFSET(dst))
#define G_MC_MEMSET_EXPR (verif_gk - (size_t)__CPROVER_POINTER_OFFSET(dst))
#define CONTRACT_MEMXOR_RECORDING
#define CONTRACT_TLS13_ENCRYPT
#include "tls13_record.h"
#include "src/tls13.c"
#include "stubs_stdio.h"
typedef struct { uint8_t iv[12], seq[8], first[32]; size_t inlen, padlen, gk; int type; } t13e_in;
DECL_INPUT(t13e_in);
#ifdef VERIF_CBMC
#define GK_BIND(g) ASSUME(verif_gk == (g) && verif_gk < 20000);
#else
#define GK_BIND(g)
#endif
/* note: the nonce is built with memcpy(nonce + 4, seq_num, 8): with the index expression above the copy is described at
   nonce[verif_gk], and the staging copies at mbuf[verif_gk] */
//@job name=tls13_gcm_encrypt props=C11 enforce=tls13_gcm_encrypt replace=gcm_encrypt,memcpy,memset,gmssl_memxor timeout=900 native=0
void h_tls13_gcm_encrypt(void)
{
	INPUT(t13e_in, R); ASSUME(R.inlen <= 16384 + 256 && R.padlen <= 255); GK_BIND(R.gk)
	BLOCK_CIPHER_KEY *key = malloc(sizeof(BLOCK_CIPHER_KEY)); ASSUME(key != NULL);
	MKBUF(iv, R.iv, 12); MKBUF(seq, R.seq, 8); MKBUF(in, R.first, R.inlen); MKOUT(out, R.inlen + 1 + R.padlen + 16);
	size_t *outlen = malloc(sizeof(size_t)); ASSUME(outlen != NULL);
	int ret = tls13_gcm_encrypt(key, iv, seq, R.type, in, R.inlen, R.padlen, out, outlen);
	if (ret == 1) { CANARY("protected"); }
	CANARY("returned");
}
