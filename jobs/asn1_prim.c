/* C06 / C14 — the ASN.1 DER primitives of src/asn1.c (loop-free or constant-bounded loops).
 * Inputs: an exact-size heap window of I.inlen bytes (I.inlen symbolic, up to INT_MAX); the first
 * MAXIN bytes are recorded in the counterexample, the rest are unconstrained. */
#include "asn1.h"
#include "src/asn1.c"
#include "stubs_stdio.h"

#define MAXIN 24
typedef struct { uint8_t buf[MAXIN]; size_t inlen; int tag; } der_in;
typedef struct { uint8_t data[MAXIN]; size_t dlen; int tag; int ival; uint8_t mode; size_t outlen0; } wr_in;
DECL_INPUT(der_in);
DECL_INPUT(wr_in);

#define RD_SETUP \
	INPUT(der_in, I); ASSUME(I.inlen <= (size_t)INT_MAX); \
	MKBUF(buf, I.buf, I.inlen); const uint8_t *in = buf; size_t inlen = I.inlen
/* writer harness: mode 0 = out NULL, 1 = *out NULL, 2 = exact-size buffer of `need` bytes */
#define WR_SETUP(need) \
	MKOUT(obuf, (need)); uint8_t *op = (W.mode % 3 == 2) ? obuf : NULL; \
	uint8_t **out = (W.mode % 3 == 0) ? NULL : &op; size_t outlen = W.outlen0

//@job name=asn1_length_from_der props=C06,C14,C01,C02 enforce=asn1_length_from_der
void h_asn1_length_from_der(void)
{
	RD_SETUP; size_t len;
	int ret = asn1_length_from_der(&len, &in, &inlen);
	OBSERVE_INT("ret", ret);
	if (ret == 1) { CANARY("success"); }
	CANARY("returned");
}

//@job name=asn1_length_to_der props=C06,C14 enforce=asn1_length_to_der
void h_asn1_length_to_der(void)
{
	INPUT(wr_in, W);
	WR_SETUP(DER_LEN_SZ(W.dlen));
	int ret = asn1_length_to_der(W.dlen, out, &outlen);
	OBSERVE_INT("ret", ret);
	if (ret == 1 && W.mode % 3 == 2) { CANARY("wrote"); }
	CANARY("returned");
}

/* lemma: decoding an encoded length yields the same value and consumes exactly the bytes written;
 * and re-encoding an accepted length reproduces the bytes consumed (canonicity) */
//@job name=asn1_length_roundtrip props=C14 expect=assertion
void h_asn1_length_roundtrip(void)
{
	INPUT(wr_in, W); ASSUME(W.dlen <= (size_t)INT_MAX);
	uint8_t enc[8]; uint8_t *p = enc; size_t n = 0, n0 = 0;
	CHECK(asn1_length_to_der(W.dlen, NULL, &n0) == 1, "dry run succeeds");
	CHECK(asn1_length_to_der(W.dlen, &p, &n) == 1, "encode succeeds");
	CHECK(n == n0 && p == enc + n, "two-pass: dry-run length == bytes written == pointer advance");
	/* decode from a window that has exactly the content bytes behind the header */
	size_t total = n + W.dlen; uint8_t *win = malloc(total); ASSUME(win != NULL);
	memcpy(win, enc, n);
	const uint8_t *in = win; size_t inlen = total, len = 0;
	CHECK(asn1_length_from_der(&len, &in, &inlen) == 1, "decode(encode(len)) accepted");
	CHECK(len == W.dlen && in == win + n && inlen == W.dlen, "decode(encode(len)) == len, consumed exactly the header");
	CANARY("returned");
}

//@job name=asn1_length_canonical props=C14 expect=assertion
void h_asn1_length_canonical(void)
{
	RD_SETUP; size_t len = 0;
	if (asn1_length_from_der(&len, &in, &inlen) == 1) {
		uint8_t enc[8]; uint8_t *p = enc; size_t n = 0;
		size_t used = I.inlen - inlen;
		CHECK(asn1_length_to_der(len, &p, &n) == 1, "accepted length re-encodes");
		CHECK(n == used, "re-encoding has the same size");
		CHECK(used < 1 || enc[0] == buf[0], "byte 0 identical");
		CHECK(used < 2 || enc[1] == buf[1], "byte 1 identical");
		CHECK(used < 3 || enc[2] == buf[2], "byte 2 identical");
		CHECK(used < 4 || enc[3] == buf[3], "byte 3 identical");
		CHECK(used < 5 || enc[4] == buf[4], "byte 4 identical");
		CANARY("accepted");
	}
	CANARY("returned");
}

//@job name=asn1_header_to_der props=C06,C14 enforce=asn1_header_to_der
void h_asn1_header_to_der(void)
{
	INPUT(wr_in, W); ASSUME(W.dlen <= (size_t)INT_MAX);
	WR_SETUP(1 + DER_LEN_SZ(W.dlen));
	int ret = asn1_header_to_der(W.tag, W.dlen, out, &outlen);
	if (W.mode % 3 == 2) { CANARY("wrote"); }
	CANARY("returned");
}

//@job name=asn1_type_from_der props=C06,C14,C01,C02 enforce=asn1_type_from_der replace=asn1_length_from_der
void h_asn1_type_from_der(void)
{
	RD_SETUP; const uint8_t *d; size_t dlen;
	int ret = asn1_type_from_der(I.tag, &d, &dlen, &in, &inlen);
	OBSERVE_INT("ret", ret);
	if (ret == 1) { CANARY("success"); }
	if (ret == 0) { CANARY("absent"); }
	CANARY("returned");
}

//@job name=asn1_nonempty_type_from_der props=C06,C14 enforce=asn1_nonempty_type_from_der replace=asn1_type_from_der
void h_asn1_nonempty_type_from_der(void)
{
	RD_SETUP; const uint8_t *d; size_t dlen;
	int ret = asn1_nonempty_type_from_der(I.tag, &d, &dlen, &in, &inlen);
	if (ret == 1) { CANARY("success"); }
	CANARY("returned");
}

//@job name=asn1_any_type_from_der props=C06,C14 enforce=asn1_any_type_from_der replace=asn1_length_from_der
void h_asn1_any_type_from_der(void)
{
	RD_SETUP; const uint8_t *d; size_t dlen; int tag;
	int ret = asn1_any_type_from_der(&tag, &d, &dlen, &in, &inlen);
	if (ret == 1) { CANARY("success"); }
	CANARY("returned");
}

//@job name=asn1_any_from_der props=C06,C14 enforce=asn1_any_from_der replace=asn1_any_type_from_der
void h_asn1_any_from_der(void)
{
	RD_SETUP; const uint8_t *a; size_t alen;
	int ret = asn1_any_from_der(&a, &alen, &in, &inlen);
	if (ret == 1) { CANARY("success"); }
	CANARY("returned");
}

//@job name=asn1_type_to_der props=C06,C14 enforce=asn1_type_to_der replace=asn1_length_to_der
void h_asn1_type_to_der(void)
{
	INPUT(wr_in, W); ASSUME(W.dlen <= (size_t)INT_MAX - 8);
	MKBUF(d0, W.data, W.dlen); const uint8_t *d = (W.mode & 0x80) ? NULL : d0;
	WR_SETUP(DER_TLV_SZ(W.dlen));
	int ret = asn1_type_to_der(W.tag, d, W.dlen, out, &outlen);
	if (ret == 1 && W.mode % 3 == 2) { CANARY("wrote"); }
	CANARY("returned");
}

//@job name=asn1_nonempty_type_to_der props=C06,C14 enforce=asn1_nonempty_type_to_der replace=asn1_type_to_der
void h_asn1_nonempty_type_to_der(void)
{
	INPUT(wr_in, W); ASSUME(W.dlen <= (size_t)INT_MAX - 8);
	MKBUF(d0, W.data, W.dlen); const uint8_t *d = (W.mode & 0x80) ? NULL : d0;
	WR_SETUP(DER_TLV_SZ(W.dlen));
	int ret = asn1_nonempty_type_to_der(W.tag, d, W.dlen, out, &outlen);
	if (ret == 1 && W.mode % 3 == 2) { CANARY("wrote"); }
	CANARY("returned");
}

//@job name=asn1_boolean_from_der props=C06,C14 enforce=asn1_boolean_from_der_ex
void h_asn1_boolean_from_der(void)
{
	RD_SETUP; int val;
	int ret = asn1_boolean_from_der_ex(I.tag, &val, &in, &inlen);
	if (ret == 1) { CANARY("success"); }
	CANARY("returned");
}

//@job name=asn1_boolean_to_der props=C06,C14 enforce=asn1_boolean_to_der_ex
void h_asn1_boolean_to_der(void)
{
	INPUT(wr_in, W);
	WR_SETUP(3);
	int ret = asn1_boolean_to_der_ex(W.tag, W.ival, out, &outlen);
	if (ret == 1 && W.mode % 3 == 2) { CANARY("wrote"); }
	CANARY("returned");
}

/* canonicity: an accepted BOOLEAN is exactly tag 01 00|FF and re-encodes identically; encode∘decode = id */
//@job name=asn1_boolean_roundtrip props=C14 expect=assertion
void h_asn1_boolean_roundtrip(void)
{
	RD_SETUP; int val = -2;
	ASSUME(0 <= I.tag && I.tag <= 255);
	if (asn1_boolean_from_der_ex(I.tag, &val, &in, &inlen) == 1) {
		uint8_t enc[3]; uint8_t *p = enc; size_t n = 0;
		CHECK(asn1_boolean_to_der_ex(I.tag, val, &p, &n) == 1 && n == 3, "accepted boolean re-encodes in 3 bytes");
		CHECK(enc[0] == buf[0] && enc[1] == buf[1] && enc[2] == buf[2], "re-encoding is byte-identical (only 00/FF accepted)");
		CHECK(in == buf + 3 && inlen == I.inlen - 3, "consumed exactly 3 bytes");
		CANARY("accepted");
	}
	INPUT(wr_in, W); ASSUME(W.ival == 0 || W.ival == 1);
	uint8_t e2[3]; uint8_t *q = e2; size_t m = 0; int v2 = -2;
	CHECK(asn1_boolean_to_der_ex(W.tag & 0xff, W.ival, &q, &m) == 1, "encode");
	const uint8_t *r = e2; size_t rl = 3;
	CHECK(asn1_boolean_from_der_ex(W.tag & 0xff, &v2, &r, &rl) == 1 && v2 == W.ival && rl == 0, "decode(encode(b)) == b");
	CANARY("returned");
}

//@job name=asn1_integer_from_der props=C06,C14,C01,C02 enforce=asn1_integer_from_der_ex replace=asn1_length_from_der
void h_asn1_integer_from_der(void)
{
	RD_SETUP; const uint8_t *a; size_t alen;
	int ret = asn1_integer_from_der_ex(I.tag, &a, &alen, &in, &inlen);
	OBSERVE_INT("ret", ret);
	if (ret == 1) { CANARY("success"); }
	CANARY("returned");
}

//@job name=asn1_null_from_der props=C06,C14 enforce=asn1_null_from_der
void h_asn1_null_from_der(void)
{
	RD_SETUP;
	int ret = asn1_null_from_der(&in, &inlen);
	if (ret == 1) { CANARY("success"); }
	CANARY("returned");
}

//@job name=asn1_null_to_der props=C06,C14 enforce=asn1_null_to_der
void h_asn1_null_to_der(void)
{
	INPUT(wr_in, W);
	WR_SETUP(2);
	int ret = asn1_null_to_der(out, &outlen);
	if (W.mode % 3 == 2) { CANARY("wrote"); }
	CANARY("returned");
}

//@job name=asn1_bit_string_from_der props=C06,C14 enforce=asn1_bit_string_from_der_ex replace=asn1_length_from_der
void h_asn1_bit_string_from_der(void)
{
	RD_SETUP; const uint8_t *bits; size_t nbits;
	int ret = asn1_bit_string_from_der_ex(I.tag, &bits, &nbits, &in, &inlen);
	if (ret == 1) { CANARY("success"); }
	CANARY("returned");
}

//@job name=asn1_bit_octets_from_der props=C06,C14 enforce=asn1_bit_octets_from_der_ex replace=asn1_bit_string_from_der_ex
void h_asn1_bit_octets_from_der(void)
{
	RD_SETUP; const uint8_t *octs; size_t nocts;
	int ret = asn1_bit_octets_from_der_ex(I.tag, &octs, &nocts, &in, &inlen);
	if (ret == 1) { CANARY("success"); }
	CANARY("returned");
}

//@job name=asn1_bit_string_to_der props=C06,C14 enforce=asn1_bit_string_to_der_ex replace=asn1_length_to_der
void h_asn1_bit_string_to_der(void)
{
	INPUT(wr_in, W); ASSUME(W.dlen <= (size_t)INT_MAX - 16);
	size_t nbytes = (W.dlen + 7) / 8;
	MKBUF(d0, W.data, nbytes); const uint8_t *d = (W.mode & 0x80) ? NULL : d0;
	WR_SETUP(DER_TLV_SZ(nbytes + 1));
	int ret = asn1_bit_string_to_der_ex(W.tag, d, W.dlen, out, &outlen);
	if (ret == 1 && W.mode % 3 == 2) { CANARY("wrote"); }
	CANARY("returned");
}

//@job name=asn1_bit_octets_to_der props=C06,C14 enforce=asn1_bit_octets_to_der_ex replace=asn1_bit_string_to_der_ex
void h_asn1_bit_octets_to_der(void)
{
	INPUT(wr_in, W); ASSUME(W.dlen <= ((size_t)INT_MAX - 16) / 8);
	MKBUF(d0, W.data, W.dlen); const uint8_t *d = (W.mode & 0x80) ? NULL : d0;
	WR_SETUP(DER_TLV_SZ(W.dlen + 1));
	int ret = asn1_bit_octets_to_der_ex(W.tag, d, W.dlen, out, &outlen);
	if (ret == 1 && W.mode % 3 == 2) { CANARY("wrote"); }
	CANARY("returned");
}

//@job name=asn1_small_predicates props=C06,C14 enforce=asn1_length_is_zero,asn1_length_le,asn1_check
void h_asn1_small_predicates(void)
{
	INPUT(wr_in, W);
	asn1_length_is_zero(W.dlen);
	asn1_length_le(W.dlen, W.outlen0);
	asn1_check(W.ival);
	CANARY("returned");
}
