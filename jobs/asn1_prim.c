/* C06 / C14 — the ASN.1 DER primitives of src/asn1.c (loop-free or constant-bounded loops).
 * Inputs: an exact-size heap window of I.inlen bytes (I.inlen symbolic, up to INT_MAX); the first
 * MAXIN bytes are recorded in the counterexample, the rest are unconstrained. */
#include "asn1.h"
#include "libc.h"
#include "src/asn1.c"
#include "stubs_stdio.h"

#define MAXIN 24
typedef struct { uint8_t buf[MAXIN]; size_t inlen; int tag; } der_in;
typedef struct { uint8_t data[MAXIN]; size_t dlen; int tag; int ival; uint8_t mode; size_t outlen0; } wr_in;
DECL_INPUT(der_in);
DECL_INPUT(wr_in);

#define RD_SETUP \
	INPUT(der_in, I); ASSUME(I.inlen <= (size_t)INT_MAX); \
	MKBUF(buf, I.buf, I.inlen); const uint8_t *in = buf; size_t inlen = I.inlen
/* writer harness: mode 0 = out NULL, 1 = *out NULL, 2 = exact-size buffer of `need` bytes */
#define WR_SETUP(need) \
	MKOUT(obuf, (need)); uint8_t *op = (W.mode % 3 == 2) ? obuf : NULL; \
	uint8_t **out = (W.mode % 3 == 0) ? NULL : &op; size_t outlen = W.outlen0

//@job name=asn1_length_from_der props=C06,C14,C01,C02,C20 enforce=asn1_length_from_der
void h_asn1_length_from_der(void)
{
	RD_SETUP; size_t len;
	int ret = asn1_length_from_der(&len, &in, &inlen);
	OBSERVE_INT("ret", ret);
	if (ret == 1) { CANARY("success"); }
	CANARY("returned");
}

//@job name=asn1_length_to_der props=C06,C14 enforce=asn1_length_to_der
void h_asn1_length_to_der(void)
{
	INPUT(wr_in, W);
	WR_SETUP(DER_LEN_SZ(W.dlen));
	int ret = asn1_length_to_der(W.dlen, out, &outlen);
	OBSERVE_INT("ret", ret);
	if (ret == 1 && W.mode % 3 == 2) { CANARY("wrote"); }
	CANARY("returned");
}

/* lemma: decoding an encoded length yields the same value and consumes exactly the bytes written;
 * and re-encoding an accepted length reproduces the bytes consumed (canonicity) */
//@job name=asn1_length_roundtrip props=C14 expect=assertion
void h_asn1_length_roundtrip(void)
{
	INPUT(wr_in, W); ASSUME(W.dlen <= (size_t)INT_MAX);
	uint8_t enc[8]; uint8_t *p = enc; size_t n = 0, n0 = 0;
	CHECK(asn1_length_to_der(W.dlen, NULL, &n0) == 1, "dry run succeeds");
	CHECK(asn1_length_to_der(W.dlen, &p, &n) == 1, "encode succeeds");
	CHECK(n == n0 && p == enc + n, "two-pass: dry-run length == bytes written == pointer advance");
	/* decode from a window that has exactly the content bytes behind the header */
	size_t total = n + W.dlen; uint8_t *win = malloc(total); ASSUME(win != NULL);
	memcpy(win, enc, n);
	const uint8_t *in = win; size_t inlen = total, len = 0;
	CHECK(asn1_length_from_der(&len, &in, &inlen) == 1, "decode(encode(len)) accepted");
	CHECK(len == W.dlen && in == win + n && inlen == W.dlen, "decode(encode(len)) == len, consumed exactly the header");
	CANARY("returned");
}

//@job name=asn1_length_canonical props=C14 expect=assertion
void h_asn1_length_canonical(void)
{
	RD_SETUP; size_t len = 0;
	if (asn1_length_from_der(&len, &in, &inlen) == 1) {
		uint8_t enc[8]; uint8_t *p = enc; size_t n = 0;
		size_t used = I.inlen - inlen;
		CHECK(asn1_length_to_der(len, &p, &n) == 1, "accepted length re-encodes");
		CHECK(n == used, "re-encoding has the same size");
		CHECK(used < 1 || enc[0] == buf[0], "byte 0 identical");
		CHECK(used < 2 || enc[1] == buf[1], "byte 1 identical");
		CHECK(used < 3 || enc[2] == buf[2], "byte 2 identical");
		CHECK(used < 4 || enc[3] == buf[3], "byte 3 identical");
		CHECK(used < 5 || enc[4] == buf[4], "byte 4 identical");
		CANARY("accepted");
	}
	CANARY("returned");
}

//@job name=asn1_header_to_der props=C06,C14 enforce=asn1_header_to_der
void h_asn1_header_to_der(void)
{
	INPUT(wr_in, W); ASSUME(W.dlen <= (size_t)INT_MAX);
	WR_SETUP(1 + DER_LEN_SZ(W.dlen));
	int ret = asn1_header_to_der(W.tag, W.dlen, out, &outlen);
	if (W.mode % 3 == 2) { CANARY("wrote"); }
	CANARY("returned");
}

//@job name=asn1_type_from_der props=C06,C14,C01,C02,C20 enforce=asn1_type_from_der replace=asn1_length_from_der
void h_asn1_type_from_der(void)
{
	RD_SETUP; const uint8_t *d; size_t dlen;
	int ret = asn1_type_from_der(I.tag, &d, &dlen, &in, &inlen);
	OBSERVE_INT("ret", ret);
	if (ret == 1) { CANARY("success"); }
	if (ret == 0) { CANARY("absent"); }
	CANARY("returned");
}

//@job name=asn1_nonempty_type_from_der props=C06,C14 enforce=asn1_nonempty_type_from_der replace=asn1_type_from_der
void h_asn1_nonempty_type_from_der(void)
{
	RD_SETUP; const uint8_t *d; size_t dlen;
	int ret = asn1_nonempty_type_from_der(I.tag, &d, &dlen, &in, &inlen);
	if (ret == 1) { CANARY("success"); }
	CANARY("returned");
}

//@job name=asn1_any_type_from_der props=C06,C14 enforce=asn1_any_type_from_der replace=asn1_length_from_der
void h_asn1_any_type_from_der(void)
{
	RD_SETUP; const uint8_t *d; size_t dlen; int tag;
	int ret = asn1_any_type_from_der(&tag, &d, &dlen, &in, &inlen);
	if (ret == 1) { CANARY("success"); }
	CANARY("returned");
}

//@job name=asn1_any_from_der props=C06,C14 enforce=asn1_any_from_der replace=asn1_any_type_from_der
void h_asn1_any_from_der(void)
{
	RD_SETUP; const uint8_t *a; size_t alen;
	int ret = asn1_any_from_der(&a, &alen, &in, &inlen);
	if (ret == 1) { CANARY("success"); }
	CANARY("returned");
}

//@job name=asn1_type_to_der props=C06,C14 enforce=asn1_type_to_der replace=asn1_length_to_der
void h_asn1_type_to_der(void)
{
	INPUT(wr_in, W); ASSUME(W.dlen <= (size_t)INT_MAX - 8);
	MKBUF(d0, W.data, W.dlen); const uint8_t *d = (W.mode & 0x80) ? NULL : d0;
	WR_SETUP(DER_TLV_SZ(W.dlen));
	int ret = asn1_type_to_der(W.tag, d, W.dlen, out, &outlen);
	if (ret == 1 && W.mode % 3 == 2) { CANARY("wrote"); }
	CANARY("returned");
}

//@job name=asn1_nonempty_type_to_der props=C06,C14 enforce=asn1_nonempty_type_to_der replace=asn1_type_to_der
void h_asn1_nonempty_type_to_der(void)
{
	INPUT(wr_in, W); ASSUME(W.dlen <= (size_t)INT_MAX - 8);
	MKBUF(d0, W.data, W.dlen); const uint8_t *d = (W.mode & 0x80) ? NULL : d0;
	WR_SETUP(DER_TLV_SZ(W.dlen));
	int ret = asn1_nonempty_type_to_der(W.tag, d, W.dlen, out, &outlen);
	if (ret == 1 && W.mode % 3 == 2) { CANARY("wrote"); }
	CANARY("returned");
}

//@job name=asn1_boolean_from_der props=C06,C14 enforce=asn1_boolean_from_der_ex
void h_asn1_boolean_from_der(void)
{
	RD_SETUP; int val;
	int ret = asn1_boolean_from_der_ex(I.tag, &val, &in, &inlen);
	if (ret == 1) { CANARY("success"); }
	CANARY("returned");
}

//@job name=asn1_boolean_to_der props=C06,C14 enforce=asn1_boolean_to_der_ex
void h_asn1_boolean_to_der(void)
{
	INPUT(wr_in, W);
	WR_SETUP(3);
	int ret = asn1_boolean_to_der_ex(W.tag, W.ival, out, &outlen);
	if (ret == 1 && W.mode % 3 == 2) { CANARY("wrote"); }
	CANARY("returned");
}

/* canonicity: an accepted BOOLEAN is exactly tag 01 00|FF and re-encodes identically; encode∘decode = id */
//@job name=asn1_boolean_roundtrip props=C14 expect=assertion
void h_asn1_boolean_roundtrip(void)
{
	RD_SETUP; int val = -2;
	ASSUME(0 <= I.tag && I.tag <= 255);
	if (asn1_boolean_from_der_ex(I.tag, &val, &in, &inlen) == 1) {
		uint8_t enc[3]; uint8_t *p = enc; size_t n = 0;
		CHECK(asn1_boolean_to_der_ex(I.tag, val, &p, &n) == 1 && n == 3, "accepted boolean re-encodes in 3 bytes");
		CHECK(enc[0] == buf[0] && enc[1] == buf[1] && enc[2] == buf[2], "re-encoding is byte-identical (only 00/FF accepted)");
		CHECK(in == buf + 3 && inlen == I.inlen - 3, "consumed exactly 3 bytes");
		CANARY("accepted");
	}
	INPUT(wr_in, W); ASSUME(W.ival == 0 || W.ival == 1);
	uint8_t e2[3]; uint8_t *q = e2; size_t m = 0; int v2 = -2;
	CHECK(asn1_boolean_to_der_ex(W.tag & 0xff, W.ival, &q, &m) == 1, "encode");
	const uint8_t *r = e2; size_t rl = 3;
	CHECK(asn1_boolean_from_der_ex(W.tag & 0xff, &v2, &r, &rl) == 1 && v2 == W.ival && rl == 0, "decode(encode(b)) == b");
	CANARY("returned");
}

//@job name=asn1_integer_from_der props=C06,C14,C01,C02 enforce=asn1_integer_from_der_ex replace=asn1_length_from_der
void h_asn1_integer_from_der(void)
{
	RD_SETUP; const uint8_t *a; size_t alen;
	int ret = asn1_integer_from_der_ex(I.tag, &a, &alen, &in, &inlen);
	OBSERVE_INT("ret", ret);
	if (ret == 1) { CANARY("success"); }
	CANARY("returned");
}

//@job name=asn1_null_from_der props=C06,C14 enforce=asn1_null_from_der
void h_asn1_null_from_der(void)
{
	RD_SETUP;
	int ret = asn1_null_from_der(&in, &inlen);
	if (ret == 1) { CANARY("success"); }
	CANARY("returned");
}

//@job name=asn1_null_to_der props=C06,C14 enforce=asn1_null_to_der
void h_asn1_null_to_der(void)
{
	INPUT(wr_in, W);
	WR_SETUP(2);
	int ret = asn1_null_to_der(out, &outlen);
	if (W.mode % 3 == 2) { CANARY("wrote"); }
	CANARY("returned");
}

//@job name=asn1_bit_string_from_der props=C06,C14 enforce=asn1_bit_string_from_der_ex replace=asn1_length_from_der
void h_asn1_bit_string_from_der(void)
{
	RD_SETUP; const uint8_t *bits; size_t nbits;
	int ret = asn1_bit_string_from_der_ex(I.tag, &bits, &nbits, &in, &inlen);
	if (ret == 1) { CANARY("success"); }
	CANARY("returned");
}

//@job name=asn1_bit_octets_from_der props=C06,C14 enforce=asn1_bit_octets_from_der_ex replace=asn1_bit_string_from_der_ex
void h_asn1_bit_octets_from_der(void)
{
	RD_SETUP; const uint8_t *octs; size_t nocts;
	int ret = asn1_bit_octets_from_der_ex(I.tag, &octs, &nocts, &in, &inlen);
	if (ret == 1) { CANARY("success"); }
	CANARY("returned");
}

//@job name=asn1_bit_string_to_der props=C06,C14 enforce=asn1_bit_string_to_der_ex replace=asn1_length_to_der
void h_asn1_bit_string_to_der(void)
{
	INPUT(wr_in, W); ASSUME(W.dlen <= (size_t)INT_MAX - 16);
	size_t nbytes = (W.dlen + 7) / 8;
	MKBUF(d0, W.data, nbytes); const uint8_t *d = (W.mode & 0x80) ? NULL : d0;
	WR_SETUP(DER_TLV_SZ(nbytes + 1));
	int ret = asn1_bit_string_to_der_ex(W.tag, d, W.dlen, out, &outlen);
	if (ret == 1 && W.mode % 3 == 2) { CANARY("wrote"); }
	CANARY("returned");
}

//@job name=asn1_bit_octets_to_der props=C06,C14 enforce=asn1_bit_octets_to_der_ex replace=asn1_bit_string_to_der_ex
void h_asn1_bit_octets_to_der(void)
{
	INPUT(wr_in, W); ASSUME(W.dlen <= ((size_t)INT_MAX - 16) / 8);
	MKBUF(d0, W.data, W.dlen); const uint8_t *d = (W.mode & 0x80) ? NULL : d0;
	WR_SETUP(DER_TLV_SZ(W.dlen + 1));
	int ret = asn1_bit_octets_to_der_ex(W.tag, d, W.dlen, out, &outlen);
	if (ret == 1 && W.mode % 3 == 2) { CANARY("wrote"); }
	CANARY("returned");
}

//@job name=asn1_small_predicates props=C06,C14 enforce=asn1_length_is_zero,asn1_length_le,asn1_check
void h_asn1_small_predicates(void)
{
	INPUT(wr_in, W);
	asn1_length_is_zero(W.dlen);
	asn1_length_le(W.dlen, W.outlen0);
	asn1_check(W.ival);
	CANARY("returned");
}

//@job name=asn1_integer_to_der props=C06,C14,C01,C02 enforce=asn1_integer_to_der_ex replace=asn1_length_to_der,memcpy loops=1
void h_asn1_integer_to_der(void)
{
	INPUT(wr_in, W); ASSUME(W.dlen <= 70000);
	MKBUF(d0, W.data, W.dlen); const uint8_t *d = (W.mode & 0x80) ? NULL : d0;
	if (d != NULL) ASSUME(W.dlen >= 1);
	WR_SETUP(DER_TLV_SZ(W.dlen + 1));
	int ret = asn1_integer_to_der_ex(W.tag, d, W.dlen, out, &outlen);
	if (ret == 1 && W.mode % 3 == 2) { CANARY("wrote"); }
	CANARY("returned");
}

/* ------------------------------------------------------------------ OBJECT IDENTIFIER */
#ifndef OID_OUT
#define OID_OUT ((O.mode & 1) ? obuf : NULL)
#endif
typedef struct { uint32_t nodes[34]; size_t cnt; uint32_t a; uint8_t mode; size_t outlen0; } oid_in;
DECL_INPUT(oid_in);

//@job name=asn1_oid_node_to_base128 props=C06,C14 enforce=asn1_oid_node_to_base128 unwindset=asn1_oid_node_to_base128.*:7
void h_asn1_oid_node_to_base128(void)
{
	INPUT(oid_in, O);
	MKOUT(obuf, OID_B128_SZ(O.a)); uint8_t *op = (O.mode & 1) ? obuf : NULL; size_t outlen = O.outlen0;
	asn1_oid_node_to_base128(O.a, &op, &outlen);
	CANARY("returned");
}

//@job name=asn1_oid_node_from_base128 props=C06,C14 enforce=asn1_oid_node_from_base128 unwindset=asn1_oid_node_from_base128.*:7
void h_asn1_oid_node_from_base128(void)
{
	RD_SETUP; uint32_t a;
	int ret = asn1_oid_node_from_base128(&a, &in, &inlen);
	if (ret == 1) { CANARY("success"); }
	CANARY("returned");
}

/* lemma: arc encoding round-trips for every 32-bit arc, and is minimal */
//@job name=asn1_oid_node_roundtrip props=C14 expect=assertion unwind=8
void h_asn1_oid_node_roundtrip(void)
{
	INPUT(oid_in, O);
	uint8_t enc[5]; uint8_t *p = enc; size_t n = 0; uint32_t b = 0;
	asn1_oid_node_to_base128(O.a, &p, &n);
	CHECK(n >= 1 && n <= 5 && p == enc + n, "arc encodes into 1..5 octets");
	const uint8_t *q = enc; size_t ql = n;
	CHECK(asn1_oid_node_from_base128(&b, &q, &ql) == 1, "decode(encode(arc)) accepted");
	CHECK(b == O.a && ql == 0, "decode(encode(arc)) == arc, all octets consumed");
	CANARY("returned");
}

//@job name=asn1_oid_from_octets props=C06,C14,C20 enforce=asn1_object_identifier_from_octets replace=asn1_oid_node_from_base128 loops=1
void h_asn1_oid_from_octets(void)
{
	RD_SETUP; INPUT(oid_in, O);
	MKOUT(nb, ASN1_OID_MAX_NODES * sizeof(uint32_t)); uint32_t *nodes = (O.mode & 1) ? NULL : (uint32_t *)nb; size_t cnt;
	int ret = asn1_object_identifier_from_octets(nodes, &cnt, in, inlen);
	OBSERVE_INT("ret", ret);
	if (ret == 1) { CANARY("success"); }
	CANARY("returned");
}

//@job name=asn1_oid_from_der props=C06,C14 enforce=asn1_object_identifier_from_der_ex replace=asn1_length_from_der,asn1_object_identifier_from_octets
void h_asn1_oid_from_der(void)
{
	RD_SETUP;
	MKOUT(nb, ASN1_OID_MAX_NODES * sizeof(uint32_t)); size_t cnt;
	int ret = asn1_object_identifier_from_der_ex(I.tag, (uint32_t *)nb, &cnt, &in, &inlen);
	if (ret == 1) { CANARY("success"); }
	CANARY("returned");
}

typedef struct { size_t cnt[3]; size_t infos_cnt; } info_in;
DECL_INPUT(info_in);
#define INFOS_SETUP \
	INPUT(info_in, T); ASSUME(T.infos_cnt <= 3 && T.cnt[0] <= 32 && T.cnt[1] <= 32 && T.cnt[2] <= 32); \
	uint32_t tn0[32], tn1[32], tn2[32]; \
	ASN1_OID_INFO tbl[3] = { { 1, "a", tn0, T.cnt[0], 0, "" }, { 2, "b", tn1, T.cnt[1], 0, "" }, { 3, "c", tn2, T.cnt[2], 0, "" } }; \
	MKOUT(ib, T.infos_cnt * sizeof(ASN1_OID_INFO)); ASN1_OID_INFO *infos = (ASN1_OID_INFO *)ib; \
	if (T.infos_cnt > 0) infos[0] = tbl[0]; if (T.infos_cnt > 1) infos[1] = tbl[1]; if (T.infos_cnt > 2) infos[2] = tbl[2]

//@job name=asn1_oid_info_from_der_ex props=C06,C14 enforce=asn1_oid_info_from_der_ex replace=asn1_object_identifier_from_der_ex,memcmp loops=1
void h_asn1_oid_info_from_der_ex(void)
{
	RD_SETUP; INFOS_SETUP;
	MKOUT(nb, ASN1_OID_MAX_NODES * sizeof(uint32_t)); size_t cnt; const ASN1_OID_INFO *info;
	int ret = asn1_oid_info_from_der_ex(&info, (uint32_t *)nb, &cnt, infos, T.infos_cnt, &in, &inlen);
	if (ret == 1) { CANARY("success"); }
	CANARY("returned");
}

//@job name=asn1_oid_info_from_der props=C06,C14 enforce=asn1_oid_info_from_der replace=asn1_oid_info_from_der_ex,asn1_object_identifier_print
void h_asn1_oid_info_from_der(void)
{
	RD_SETUP; INFOS_SETUP;
	const ASN1_OID_INFO *info;
	int ret = asn1_oid_info_from_der(&info, infos, T.infos_cnt, &in, &inlen);
	if (ret == 1) { CANARY("success"); }
	CANARY("returned");
}

//@job name=asn1_utf8char props=C06,C14 enforce=asn1_utf8char_from_bytes unwindset=asn1_utf8char_from_bytes.*:5
void h_asn1_utf8char(void)
{
	RD_SETUP; uint32_t c;
	int ret = asn1_utf8char_from_bytes(&c, &in, &inlen);
	OBSERVE_INT("ret", ret);
	NCHECK(!(I.inlen >= 2 && (I.buf[0] & 0xe0) == 0xc0 && (I.buf[1] & 0xc0) == 0x80) || ret == 1, "a well-formed 2-byte UTF-8 sequence is accepted");
	NCHECK(!(I.inlen >= 3 && (I.buf[0] & 0xf0) == 0xe0 && (I.buf[1] & 0xc0) == 0x80 && (I.buf[2] & 0xc0) == 0x80) || ret == 1, "a well-formed 3-byte UTF-8 sequence is accepted");
	NCHECK(!(I.inlen >= 4 && (I.buf[0] & 0xf8) == 0xf0 && (I.buf[1] & 0xc0) == 0x80 && (I.buf[2] & 0xc0) == 0x80 && (I.buf[3] & 0xc0) == 0x80) || ret == 1, "a well-formed 4-byte UTF-8 sequence is accepted");
	NCHECK(!(ret == 1 && I.inlen >= 2 && (I.buf[0] & 0xe0) == 0xc0) || (I.buf[1] & 0xc0) == 0x80, "accepted 2-byte sequence has a continuation byte");
	if (ret == 1) { CANARY("success"); }
	CANARY("returned");
}

//@job name=asn1_is_utf8_string props=C06,C14 enforce=asn1_string_is_utf8_string replace=asn1_utf8char_from_bytes loops=1
void h_asn1_is_utf8_string(void)
{
	RD_SETUP;
	int ret = asn1_string_is_utf8_string((I.tag & 1) ? NULL : (const char *)in, inlen);
	if (ret == 1) { CANARY("success"); }
	CANARY("returned");
}

//@job name=asn1_is_printable_string props=C06,C14 enforce=asn1_string_is_printable_string loops=1 defs=-DASN1_STRING_CONTENT_POST
void h_asn1_is_printable_string(void)
{
	RD_SETUP;
	int ret = asn1_string_is_printable_string((const char *)in, inlen);
	if (ret == 1) { CANARY("success"); }
	CANARY("returned");
}

//@job name=asn1_is_ia5_string props=C06,C14 enforce=asn1_string_is_ia5_string loops=1
void h_asn1_is_ia5_string(void)
{
	RD_SETUP;
	int ret = asn1_string_is_ia5_string((const char *)in, inlen);
	if (ret == 1) { CANARY("success"); }
	CANARY("returned");
}

//@job name=asn1_utf8_string_from_der props=C06,C14 enforce=asn1_utf8_string_from_der_ex replace=asn1_type_from_der,asn1_string_is_utf8_string
void h_asn1_utf8_string_from_der(void)
{
	RD_SETUP; const char *a; size_t alen;
	int ret = asn1_utf8_string_from_der_ex(I.tag, &a, &alen, &in, &inlen);
	if (ret == 1) { CANARY("success"); }
	CANARY("returned");
}

//@job name=asn1_printable_string_from_der props=C06,C14 enforce=asn1_printable_string_from_der_ex replace=asn1_type_from_der,asn1_string_is_printable_string
void h_asn1_printable_string_from_der(void)
{
	RD_SETUP; const char *a; size_t alen;
	int ret = asn1_printable_string_from_der_ex(I.tag, &a, &alen, &in, &inlen);
	if (ret == 1) { CANARY("success"); }
	CANARY("returned");
}

//@job name=asn1_ia5_string_from_der props=C06,C14 enforce=asn1_ia5_string_from_der_ex replace=asn1_type_from_der,asn1_string_is_ia5_string
void h_asn1_ia5_string_from_der(void)
{
	RD_SETUP; const char *a; size_t alen;
	int ret = asn1_ia5_string_from_der_ex(I.tag, &a, &alen, &in, &inlen);
	if (ret == 1) { CANARY("success"); }
	CANARY("returned");
}

//@job name=asn1_int_from_der props=C06,C14 enforce=asn1_int_from_der_ex replace=asn1_integer_from_der_ex unwindset=asn1_int_from_der_ex.*:6 checks=-signed
void h_asn1_int_from_der(void)
{
	RD_SETUP; int a;
	int ret = asn1_int_from_der_ex(I.tag, &a, &in, &inlen);
	if (ret == 1) { CANARY("success"); }
	CANARY("returned");
}

//@job name=asn1_bits_from_der props=C06,C14 enforce=asn1_bits_from_der_ex replace=asn1_bit_string_from_der_ex unwindset=asn1_bits_from_der_ex.*:33
void h_asn1_bits_from_der(void)
{
	RD_SETUP; int bits;
	int ret = asn1_bits_from_der_ex(I.tag, &bits, &in, &inlen);
	if (ret == 1) { CANARY("success"); }
	CANARY("returned");
}

typedef struct { size_t max_nums; int index; } seq_in;
DECL_INPUT(seq_in);
//@job name=asn1_sequence_of_int_from_der props=C06,C14 enforce=asn1_sequence_of_int_from_der replace=asn1_type_from_der,asn1_int_from_der_ex loops=1
void h_asn1_sequence_of_int_from_der(void)
{
	RD_SETUP; INPUT(seq_in, S); ASSUME(S.max_nums <= 1024);
	MKOUT(nb, S.max_nums * sizeof(int)); size_t cnt;
	int ret = asn1_sequence_of_int_from_der((int *)nb, &cnt, S.max_nums, &in, &inlen);
	OBSERVE_INT("ret", ret);
	if (ret == 1) { CANARY("success"); }
	CANARY("returned");
}

//@job name=asn1_types_get_count props=C06,C14 enforce=asn1_types_get_count replace=asn1_any_type_from_der loops=1
void h_asn1_types_get_count(void)
{
	RD_SETUP; size_t cnt;
	int ret = asn1_types_get_count(in, inlen, I.tag, &cnt);
	if (ret == 1) { CANARY("success"); }
	CANARY("returned");
}

//@job name=asn1_types_get_item_by_index props=C06,C14 enforce=asn1_types_get_item_by_index replace=asn1_any_type_from_der loops=1
void h_asn1_types_get_item_by_index(void)
{
	RD_SETUP; INPUT(seq_in, S); const uint8_t *d; size_t dlen;
	int ret = asn1_types_get_item_by_index(in, inlen, I.tag, S.index, &d, &dlen);
	if (ret == 1) { CANARY("success"); }
	CANARY("returned");
}

//@job name=asn1_tag_name props=C06 enforce=asn1_tag_name expect=array_bounds
void h_asn1_tag_name(void)
{
	INPUT(seq_in, S);
	const char *n = asn1_tag_name(S.index);
	OBSERVE_INT("isnull", n == NULL);
	CANARY("returned");
}

//@job name=asn1_oid_print props=C06 enforce=asn1_object_identifier_print loops=1
void h_asn1_oid_print(void)
{
	INPUT(oid_in, O); ASSUME(O.cnt >= 1 && O.cnt <= ASN1_OID_MAX_NODES);
	MKOUT(nb, O.cnt * sizeof(uint32_t)); const uint32_t *nodes = (O.mode & 2) ? NULL : (const uint32_t *)nb;
	asn1_object_identifier_print(stderr, 0, 0, "label", (O.mode & 1) ? "name" : NULL, nodes, O.cnt);
	CANARY("returned");
}
