/* C07 — per-certificate profile check (src/x509_cer.c: x509_cert_check) */
#define CONTRACT_CERT_CHECK
#define CONTRACT_VALIDITY_RECORDING
#define CONTRACT_EXTS_RECORDING
#include "x509.h"
#include "src/x509_cer.c"
#include "stubs_stdio.h"
#define MAXIN 16
typedef struct { uint8_t buf[MAXIN]; size_t certlen; int type; } cc_in;
DECL_INPUT(cc_in);

//@job name=x509_cert_check props=C07,C06 enforce=x509_cert_check replace=x509_cert_get_details,time,x509_validity_check,x509_name_check,x509_exts_check
void h_x509_cert_check(void)
{
	INPUT(cc_in, I); ASSUME(I.certlen <= (size_t)INT_MAX);
	MKBUF(cert, I.buf, I.certlen); int plc; G_nc_bad = 0;
	int ret = x509_cert_check(cert, I.certlen, I.type, &plc);
	if (ret == 1) { CANARY("accepted"); }
	CANARY("returned");
}
