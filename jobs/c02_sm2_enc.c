/* C02 / C06 / C14 — SM2 public-key encryption (src/sm2_enc.c) */
#define CONTRACT_ENC_RECORDING
#define CONTRACT_DECRYPT_RECORDING_OFF
#include "sm2_enc.h"
#include "src/sm2_enc.c"
#include "stubs_stdio.h"

#define MAXIN 32
typedef struct { uint8_t buf[MAXIN]; size_t inlen; int tag; uint8_t mode; } der_in;
typedef struct { uint8_t hash[32]; uint8_t ct[32]; uint8_t size; uint8_t mode; size_t outlen0; } ct_in;
DECL_INPUT(der_in);
DECL_INPUT(ct_in);
#define RD_SETUP \
	INPUT(der_in, I); ASSUME(I.inlen <= (size_t)INT_MAX); \
	MKBUF(buf, I.buf, I.inlen); const uint8_t *in = buf; size_t inlen = I.inlen

/* C is an exact-size heap object: a copy longer than the 255-byte ciphertext field runs off its end */
//@job name=sm2_ciphertext_from_der props=C02,C06,C14 enforce=sm2_ciphertext_from_der replace=asn1_type_from_der,asn1_integer_from_der_ex,asn1_length_le,asn1_length_is_zero,asn1_check,memcpy timeout=3600 tier=thorough
void h_sm2_ciphertext_from_der(void)
{
	RD_SETUP; SM2_CIPHERTEXT *C = malloc(sizeof(SM2_CIPHERTEXT)); ASSUME(C != NULL);
	int ret = sm2_ciphertext_from_der(C, &in, &inlen);
	OBSERVE_INT("ret", ret);
	if (ret == 1) { CANARY("accepted"); }
	CANARY("returned");
}

//@job name=sm2_ciphertext_to_der props=C02,C06,C14 enforce=sm2_ciphertext_to_der replace=asn1_integer_to_der_ex,asn1_type_to_der,asn1_header_to_der timeout=3600 tier=thorough
void h_sm2_ciphertext_to_der(void)
{
	INPUT(ct_in, W); SM2_CIPHERTEXT *C = malloc(sizeof(SM2_CIPHERTEXT)); ASSUME(C != NULL); C->ciphertext_size = W.size;
	MKOUT(obuf, SM2_MAX_CIPHERTEXT_SIZE); uint8_t *op = (W.mode % 3 == 2) ? obuf : NULL;
	uint8_t **out = (W.mode % 3 == 0) ? NULL : &op; size_t outlen = W.outlen0;
	int ret = sm2_ciphertext_to_der((W.mode & 0x80) ? NULL : C, out, &outlen);
	if (ret == 1 && W.mode % 3 == 2) { CANARY("wrote"); }
	CANARY("returned");
}

//@job name=sm2_do_decrypt props=C02,C06,C12 enforce=sm2_do_decrypt replace=sm2_z256_point_from_bytes,sm2_z256_point_mul,sm2_z256_point_to_bytes,sm2_kdf,all_zero,gmssl_memxor,sm3_init,sm3_update,sm3_finish,memcmp,gmssl_secure_clear timeout=900
void h_sm2_do_decrypt(void)
{
	INPUT(ct_in, W); SM2_KEY key; SM2_CIPHERTEXT *C = malloc(sizeof(SM2_CIPHERTEXT)); ASSUME(C != NULL); C->ciphertext_size = W.size;
	MKOUT(out, W.size); size_t outlen;
	int ret = sm2_do_decrypt(&key, C, out, &outlen);
	if (ret == 1) { CANARY("decrypted"); }
	CANARY("returned");
}
