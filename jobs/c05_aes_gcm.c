/* C05 / C04 — AES-GCM one-shot (src/aes_modes.c) against NIST SP 800-38D section 7 */
#define G_MC_EXPR verif_gk
#define CONTRACT_MEMCMP_RECORDING
#define CONTRACT_MEMCMP_SEQ
#define CONTRACT_SECURE_MEMCMP_RECORDING
#define CONTRACT_MEMXOR_RECORDING
#include <gmssl/aes.h>
#define GCM_KEY_T AES_KEY
#define GCM_BLK aes_encrypt
#define GCM_CTR32 aes_ctr32_encrypt
#define GCM_CTR32_STATIC
#define GCM_ENCRYPT aes_gcm_encrypt
#define GCM_DECRYPT aes_gcm_decrypt
/* src/aes_modes.c documents one limit only (AES_GCM_MAX_TAG_SIZE, enforced by aes_gcm_encrypt); IV and tag lengths below
 * the property's quantifier range (IV 1..64, tag 12..16) are accepted by this API and lie outside the property */
#define GCM_IV_MIN 0
#define GCM_IV_MAX SIZE_MAX
#define GCM_TAG_MIN 0
#define GCM_TAG_MAX 16
#define GCM_PT_MAX SIZE_MAX
#include "gcm_tpl.h"
#include "src/aes_modes.c"
#include "stubs_stdio.h"

#ifdef VERIF_CBMC
#define GK_BIND(g) ASSUME(verif_gk == (g) && verif_gk < 16);
#else
#define GK_BIND(g)
#endif
typedef struct { uint8_t iv[32], aad[32], in[32], tag[16]; size_t ivlen, aadlen, inlen, taglen; uint8_t gk, inplace; } gcm_in;
DECL_INPUT(gcm_in);

#define GCM_SETUP \
	INPUT(gcm_in, G); ASSUME(G.ivlen <= 80 && G.aadlen <= 4096 && G.inlen <= 4096 && G.taglen <= 32); \
	GK_BIND(G.gk) \
	AES_KEY *key = malloc(sizeof(AES_KEY)); ASSUME(key != NULL); NATIVE({ uint8_t kb_[16]; memset(kb_, 0x5a, 16); aes_set_encrypt_key(key, kb_, 16); }) \
	MKBUF(iv, G.iv, G.ivlen); MKBUF(aad, G.aad, G.aadlen); MKBUF(in, G.in, G.inlen); \
	uint8_t *out; if (G.inplace & 1) out = in; else { out = (uint8_t *)malloc(G.inlen); ASSUME(out != NULL); }

#ifdef VERIF_NATIVE
/* native re-evaluation of C05 on the lengths of the counterexample: encrypt, then every single-bit change of
 * (iv, aad, ciphertext, tag) and tag truncation by one byte must be rejected, the untouched output accepted */
static void gcm_tamper_sweep(const AES_KEY *key, const uint8_t *iv, size_t ivlen, const uint8_t *aad, size_t aadlen,
	const uint8_t *pt, size_t ptlen, size_t taglen)
{
	uint8_t *ct = malloc(ptlen + 1), *dec = malloc(ptlen + 1), tag[16], *b; size_t i, n; int bit, bad = 0, r;
	if (ivlen < 1 || taglen < 12 || taglen > 16) { printf("REPLAY-HOLDS tamper sweep skipped (lengths outside the interface range)\n"); return; }
	if (aes_gcm_encrypt(key, iv, ivlen, aad, aadlen, pt, ptlen, ct, taglen, tag) != 1) { printf("REPLAY-VIOLATION encryption of admissible lengths failed\n"); return; }
	r = aes_gcm_decrypt(key, iv, ivlen, aad, aadlen, ct, ptlen, tag, taglen, dec);
	CHECK(r == 1 && memcmp(dec, pt, ptlen) == 0, "untouched GCM output decrypts to the message");
#define SWEEP(buf, len, what) b = (uint8_t *)(buf); n = (len); for (i = 0; i < n; i++) for (bit = 0; bit < 8; bit++) { \
		b[i] ^= (uint8_t)(1 << bit); \
		if (aes_gcm_decrypt(key, iv, ivlen, aad, aadlen, ct, ptlen, tag, taglen, dec) == 1) { if (!bad) printf("OBSERVE accepted-after-flip=%s byte %zu bit %d\n", what, i, bit); bad++; } \
		b[i] ^= (uint8_t)(1 << bit); }
	SWEEP(iv, ivlen, "iv") SWEEP(aad, aadlen, "aad") SWEEP(ct, ptlen, "ciphertext") SWEEP(tag, taglen, "tag")
	if (taglen > 12 && aes_gcm_decrypt(key, iv, ivlen, aad, aadlen, ct, ptlen, tag, taglen - 1, dec) == 1) { /* a shorter tag is a different, admissible parameter set: not counted */ }
	CHECK(bad == 0, "every single-bit modification of iv/aad/ciphertext/tag is rejected");
	free(ct); free(dec);
}
#endif

//@job name=aes_gcm_decrypt props=C05,C04 enforce=aes_gcm_decrypt replace=aes_encrypt,ghash,aes_ctr32_encrypt,gmssl_memxor,memcmp,gmssl_secure_memcmp,memcpy unwindset=ctr32_incr.0:5 timeout=600
void h_aes_gcm_decrypt(void)
{
	GCM_SETUP
	MKBUF(tag, G.tag, G.taglen);
	int ret = aes_gcm_decrypt(key, iv, G.ivlen, aad, G.aadlen, in, G.inlen, tag, G.taglen, out);
	OBSERVE_INT("ret", ret);
	NATIVE(if (!(G.inplace & 1)) gcm_tamper_sweep(key, iv, G.ivlen, aad, G.aadlen, in, G.inlen, G.taglen);)
	if (ret == 1) { CANARY("accepted"); if (G.ivlen != 12) CANARY("accepted-hashed-iv"); }
	if (ret != 1 && G.ivlen >= 1 && G.ivlen <= 64 && G.taglen >= 12 && G.taglen <= 16) CANARY("rejected-tag");
	CANARY("returned");
}

//@job name=aes_gcm_encrypt props=C04 enforce=aes_gcm_encrypt replace=aes_encrypt,ghash,aes_ctr32_encrypt,gmssl_memxor,memcpy unwindset=ctr32_incr.0:5 timeout=600
void h_aes_gcm_encrypt(void)
{
	GCM_SETUP
	MKOUT(tag, G.taglen);
	int ret = aes_gcm_encrypt(key, iv, G.ivlen, aad, G.aadlen, in, G.inlen, out, G.taglen, tag);
	OBSERVE_INT("ret", ret);
	if (ret == 1) { CANARY("encrypted"); if (G.ivlen != 12) CANARY("encrypted-hashed-iv"); }
	CANARY("returned");
}

typedef struct { uint8_t a[16]; } inc32_in;
DECL_INPUT(inc32_in);
//@job name=aes_gcm_ctr32_incr props=C04 enforce=ctr32_incr unwindset=ctr32_incr.*:6 timeout=300
void h_aes_gcm_ctr32_incr(void)
{
	INPUT(inc32_in, I);
	MKBUF(a, I.a, 16);
	ctr32_incr(a);
	NATIVE({ uint32_t v0 = ((uint32_t)I.a[12] << 24) | (I.a[13] << 16) | (I.a[14] << 8) | I.a[15], v1 = ((uint32_t)a[12] << 24) | (a[13] << 16) | (a[14] << 8) | a[15];
		CHECK(v1 == (uint32_t)(v0 + 1) && memcmp(a, I.a, 12) == 0, "inc32: last four bytes + 1 mod 2^32, first twelve unchanged"); })
	CANARY("returned");
}
