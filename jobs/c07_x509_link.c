/* C07 / C15 — one link of a chain: issuer/subject match and signature under the issuer's key (src/x509_cer.c) */
#define CONTRACT_SIGNED
#define CONTRACT_LINK
#include "x509.h"
#include "src/x509_cer.c"
#include "stubs_stdio.h"
#define MAXIN 16
typedef struct { uint8_t buf[MAXIN]; size_t len; size_t calen; size_t idlen; } lk_in;
DECL_INPUT(lk_in);

//@job name=x509_cert_verify_by_ca_cert props=C07,C15,C06 enforce=x509_cert_verify_by_ca_cert replace=x509_cert_get_issuer,x509_cert_get_subject,x509_name_equ,x509_signed_verify_by_ca_cert
void h_x509_cert_verify_by_ca_cert(void)
{
	INPUT(lk_in, I); ASSUME(I.len <= (size_t)INT_MAX && I.calen <= (size_t)INT_MAX);
	MKBUF(a, I.buf, I.len); MKOUT(ca, I.calen);
	int ret = x509_cert_verify_by_ca_cert(a, I.len, ca, I.calen, "1234567812345678", I.idlen);
	if (ret == 1) { CANARY("verified"); }
	CANARY("returned");
}
