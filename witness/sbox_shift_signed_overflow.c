/* Witness (C04): the key schedules of SM4 and AES shift a promoted uint8_t S-box output left by 24;
 * for outputs >= 0x80 the int result is not representable (C11 6.5.7p4: undefined behaviour).
 * Build: clang -fsanitize=undefined -fno-sanitize-recover=undefined -I$REPO/include witness.c $REPO/src/sm4.c $REPO/src/aes.c
 * Before the fix: "runtime error: left shift of N by 24 places cannot be represented in type 'int'". */
#include <stdio.h>
#include <string.h>
#include <gmssl/sm4.h>
#include <gmssl/aes.h>
int main(void)
{
	uint8_t k[16]; SM4_KEY sk; AES_KEY ak;
	memset(k, 0x5a, sizeof k);
	sm4_set_encrypt_key(&sk, k);
	sm4_set_decrypt_key(&sk, k);
	aes_set_encrypt_key(&ak, k, 16);
	printf("no undefined behaviour observed\n");
	return 0;
}
