/* Witness (C04/C05): sm4_gcm_decrypt_update() with a tag shorter than 16 bytes reads past the end of the
 * caller's input: after releasing the bulk it saves the trailing tag with memcpy(ctx->mac, in + inlen, GHASH_SIZE)
 * although only ctx->taglen (12..15) bytes remain.  Found as memcpy.precondition.1 of job sm4_gcm_decrypt_update.
 * Build: clang -g -fsanitize=address -I$REPO/include witness.c $REPO/src/{sm4_gcm,sm4_ctr,sm4,ghash,gf128,hex}.c ...
 * Before the fix: AddressSanitizer heap-buffer-overflow READ of size 16 in sm4_gcm_decrypt_update. */
#include <stdio.h>
#include <stdlib.h>
#include <string.h>
#include <gmssl/sm4.h>
int main(void)
{
	uint8_t key[16] = {0}, iv[12] = {0}, pt[40] = {0}, ct[40 + 32], out[64 + 32];
	size_t ctlen = 0, n, outlen;
	SM4_GCM_CTX ctx;
	uint8_t *in;
	if (sm4_gcm_encrypt_init(&ctx, key, 16, iv, 12, NULL, 0, 12) != 1) return 2;
	if (sm4_gcm_encrypt_update(&ctx, pt, sizeof pt, ct, &n) != 1) return 2; ctlen = n;
	if (sm4_gcm_encrypt_finish(&ctx, ct + ctlen, &n) != 1) return 2; ctlen += n;      /* 40 + 12 bytes */
	in = malloc(ctlen); memcpy(in, ct, ctlen);                                       /* exact-size heap object */
	if (sm4_gcm_decrypt_init(&ctx, key, 16, iv, 12, NULL, 0, 12) != 1) return 2;
	if (sm4_gcm_decrypt_update(&ctx, in, ctlen, out, &outlen) != 1) return 2;
	if (sm4_gcm_decrypt_finish(&ctx, out + outlen, &n) != 1) { printf("decryption failed\n"); return 1; }
	printf("decrypted %zu bytes, no out-of-bounds access observed\n", outlen + n);
	free(in);
	return 0;
}
