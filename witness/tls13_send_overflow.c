/* Witness (C11/C06): tls13_send() protects the caller's whole buffer as ONE record into conn->record
 * (TLS_MAX_RECORD_SIZE bytes) without limiting datalen to a TLS fragment (2^14): a larger send overruns conn->record and the
 * fields behind it (tls_send for TLCP/TLS 1.2 truncates to TLS_MAX_PLAINTEXT_SIZE and reports the length sent).
 * Found as the precondition of tls13_gcm_encrypt ("inlen <= 2^14+256, room for inlen+1+padding+16 bytes") at its call site in
 * job tls13_send.  Build: cc -I$REPO/include witness.c -L$BUILD/bin -lgmssl ; exit 1 while the defect is present. */
#include <stdio.h>
#include <stdlib.h>
#include <string.h>
#include <gmssl/tls.h>
int main(void)
{
	size_t n = sizeof(TLS_CONNECT), datalen = sizeof(TLS_CONNECT), sent = 0, i; int r, sv[2] = { -1, -1 };
	uint8_t *area = malloc(n + 4096), *data = malloc(datalen), key[16] = {1};
	TLS_CONNECT *conn = (TLS_CONNECT *)area;
	memset(area, 0, n); memset(area + n, 0xEE, 4096); memset(data, 'x', datalen);
	conn->is_client = 1; conn->sock = -1;
	block_cipher_set_encrypt_key(&conn->client_write_key, BLOCK_CIPHER_sm4(), key);
	r = tls13_send(conn, data, datalen, &sent);
	for (i = 0; i < 4096; i++) if (area[n + i] != 0xEE) break;
	if (i < 4096) { printf("VIOLATION tls13_send(datalen=%zu) returned %d and overwrote memory behind the TLS_CONNECT object\n", datalen, r); return 1; }
	if (r == 1 && sent > TLS_MAX_PLAINTEXT_SIZE) { printf("VIOLATION tls13_send sent %zu bytes as one record\n", sent); return 1; }
	printf("HOLDS tls13_send sent %zu of %zu bytes (ret %d)\n", sent, datalen, r);
	return 0;
}
