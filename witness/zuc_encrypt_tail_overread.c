/* Witness (C06/C04): zuc_encrypt() loads a whole 32-bit word from `in` before it looks at inlen, so a message whose length
 * is not a multiple of 4 is read up to 3 bytes past its end (heap-buffer-overflow READ under ASan with an exact-size
 * buffer).  Build: clang -fsanitize=address -I$REPO/include witness.c $REPO/src/zuc.c (or link libgmssl built with ASan).
 * Without ASan the program shows the dependence: the out-of-range byte must not influence anything, so it only prints HOLDS;
 * the violation is the sanitizer report. */
#include <stdio.h>
#include <stdlib.h>
#include <string.h>
#include <gmssl/zuc.h>
int main(void)
{
	ZUC_STATE st; uint8_t key[16] = {1}, iv[16] = {2};
	uint8_t *in = malloc(3), *out = malloc(3);
	memset(in, 0x41, 3);
	zuc_init(&st, key, iv);
	zuc_encrypt(&st, in, 3, out);
	printf("HOLDS (no sanitizer report): %02x%02x%02x\n", out[0], out[1], out[2]);
	free(in); free(out);
	return 0;
}
