/* Witness (C04): sm4_cfb_{en,de}crypt_update(ctx, in, inlen, NULL, &n) reports 16*ceil(inlen/16), but the real call writes
 * every whole sbytes-segment contained in (buffered + inlen) bytes.  For a segment size that does not divide 16 this is
 * more: sbytes = 13, 5 bytes buffered, 47 new bytes -> reported 48, written 52.  Build: cc -DENABLE_SM4_CFB -I$REPO/include witness.c
 * -L$BUILD/bin -lgmssl.  Before the fix: VIOLATION (canary behind a buffer of the reported size overwritten). */
#include <stdio.h>
#include <stdlib.h>
#include <string.h>
#include <gmssl/sm4.h>
static int run(int enc)
{
	SM4_CFB_CTX ctx; uint8_t key[16] = {1}, iv[16] = {2}, in[64] = {3}; size_t n = 0, q = 0, i; int bad = 0;
	uint8_t *area = malloc(256);
	if (enc) sm4_cfb_encrypt_init(&ctx, 13, key, iv); else sm4_cfb_decrypt_init(&ctx, 13, key, iv);
	if ((enc ? sm4_cfb_encrypt_update(&ctx, in, 5, area, &n) : sm4_cfb_decrypt_update(&ctx, in, 5, area, &n)) != 1) return 2;
	if ((enc ? sm4_cfb_encrypt_update(&ctx, in, 47, NULL, &q) : sm4_cfb_decrypt_update(&ctx, in, 47, NULL, &q)) != 1) return 2;
	memset(area, 0xEE, 256);
	if ((enc ? sm4_cfb_encrypt_update(&ctx, in, 47, area, &n) : sm4_cfb_decrypt_update(&ctx, in, 47, area, &n)) != 1) return 2;
	for (i = q; i < 256; i++) if (area[i] != 0xEE) bad++;
	printf("%s: reported %zu, *outlen %zu, bytes changed beyond the reported size: %d\n", enc ? "encrypt_update" : "decrypt_update", q, n, bad);
	free(area);
	return (n > q || bad) ? 1 : 0;
}
int main(void)
{
	int r = run(1) | run(0);
	printf(r == 0 ? "HOLDS\n" : r == 1 ? "VIOLATION\n" : "ERROR\n");
	return r;
}
