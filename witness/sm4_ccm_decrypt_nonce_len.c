/* Witness (C04/C05): sm4_ccm_decrypt() computes the payload-length limit as (size_t)(1 << (inlen_size * 8)) on an int;
 * for nonce lengths 8..11 (inlen_size 4..7) the shift count is >= 32: undefined behaviour, and on x86-64 the limit
 * degenerates so that correctly encrypted messages are rejected (sm4_ccm_encrypt uses (size_t)1 << ... and accepts them).
 * Found as sm4_ccm_decrypt.undefined-shift.7 / overflow.1 and the failed completeness postcondition.
 * Build: cc -I$REPO/include witness.c -L$BUILD/bin -lgmssl */
#include <stdio.h>
#include <string.h>
#include <gmssl/sm4.h>
int main(void)
{
	uint8_t kb[16] = {1,2,3,4,5,6,7,8,9,10,11,12,13,14,15,16}, iv[13] = {0}, pt[20], ct[20], out[20], tag[16];
	SM4_KEY key; size_t ivlen; int bad = 0;
	memset(pt, 0x42, sizeof pt); sm4_set_encrypt_key(&key, kb);
	for (ivlen = 7; ivlen <= 13; ivlen++) {
		int e = sm4_ccm_encrypt(&key, iv, ivlen, NULL, 0, pt, sizeof pt, ct, 16, tag);
		int d = sm4_ccm_decrypt(&key, iv, ivlen, NULL, 0, ct, sizeof ct, tag, 16, out);
		if (e == 1 && (d != 1 || memcmp(out, pt, sizeof pt))) { printf("VIOLATION nonce length %zu: decrypt(encrypt(m)) returned %d\n", ivlen, d); bad = 1; }
		else printf("HOLDS nonce length %zu\n", ivlen);
	}
	return bad;
}
