#!/bin/sh
# Witness (C04/C05): the shipped CLI must decrypt what it encrypted, for an empty message and for a
# message longer than its 4096-byte read buffer.  Usage: cli_streaming_decrypt.sh <path-to-gmssl-binary>
# Before fixes "AEAD decrypt_update left *outlen unset" and "tools decrypted in place":
#   - big.bin failed to decrypt with sm4_cbc, sm4_gcm, sm4_cbc_sm3_hmac, sm4_ctr_sm3_hmac
#   - the empty message decrypted to 784 bytes of garbage (sm4_gcm) / "output failure: Bad address" (sm4_ctr_sm3_hmac)
G=${1:-/repo/_build/bin/gmssl}
D=$(mktemp -d); trap 'rm -rf "$D"' EXIT
KEY=00112233445566778899aabbccddeeff; IV12=000102030405060708090a0b; IV16=000102030405060708090a0b0c0d0e0f
head -c 10000 /dev/urandom > "$D/big.bin"; : > "$D/empty.bin"
bad=0
for t in sm4_cbc sm4_gcm sm4_cbc_sm3_hmac sm4_ctr_sm3_hmac; do
  k=$KEY; iv=$IV16
  case $t in sm4_gcm) iv=$IV12;; *_sm3_hmac) k=$KEY$KEY$KEY;; esac
  for f in big empty; do
    "$G" $t -encrypt -key $k -iv $iv -in "$D/$f.bin" -out "$D/x.enc" 2>/dev/null
    "$G" $t -decrypt -key $k -iv $iv -in "$D/x.enc" -out "$D/x.dec" 2>/dev/null
    if cmp -s "$D/$f.bin" "$D/x.dec"; then echo "HOLDS $t $f"; else echo "VIOLATION $t $f: decrypt(encrypt(m)) != m"; bad=1; fi
  done
done
exit $bad
