/* Witness (C06): a ClientHello may repeat an extension any number of times; the server appends one response extension per
 * occurrence to a TLS_MAX_EXTENSIONS_SIZE (512) byte stack array:
 *   - tls_process_client_hello_exts() (TLS 1.2 server) never looks at its maxlen parameter;
 *   - tls13_process_client_hello_exts() (TLS 1.3 server) compares only the dry-run length of supported_versions with the
 *     capacity and appends a 73-byte key_share response per key_share extension unchecked.
 * Found while bringing the hello-extension processors under contract (precondition "destination writable" of the response
 * encoders at their call sites).  Build: clang -g -fsanitize=address -I$REPO/include witness.c -L$BUILD/bin -lgmssl.
 * Before the fix: AddressSanitizer heap-buffer-overflow WRITE for both calls (run with argument 12 or 13 to pick one). */
#include <stdio.h>
#include <stdlib.h>
#include <string.h>
#include <gmssl/tls.h>
#include <gmssl/sm2.h>
int main(int argc, char **argv)
{
	int which = argc > 1 ? atoi(argv[1]) : 12, bad = 0;
	if (which == 12) {
		static const uint8_t one[6] = { 0x00, 0x0b, 0x00, 0x02, 0x01, 0x00 };      /* ec_point_formats { uncompressed } */
		size_t n = 120, i, outlen = 0; uint8_t *exts = malloc(6 * n), *out = malloc(TLS_MAX_EXTENSIONS_SIZE);
		for (i = 0; i < n; i++) memcpy(exts + 6 * i, one, 6);
		int r = tls_process_client_hello_exts(exts, 6 * n, out, &outlen, TLS_MAX_EXTENSIONS_SIZE);
		if (r == 1 && outlen > TLS_MAX_EXTENSIONS_SIZE) { printf("VIOLATION TLS 1.2: wrote %zu bytes into a %d byte buffer\n", outlen, TLS_MAX_EXTENSIONS_SIZE); bad = 1; }
		else printf("HOLDS TLS 1.2: repeated extension refused (%d, %zu bytes)\n", r, outlen);
	} else {
		SM2_KEY srv, cli; SM2_Z256_POINT peer; uint8_t one[128], *p = one; size_t onelen = 0, n = 12, i, outlen = 0;
		sm2_key_generate(&srv); sm2_key_generate(&cli);
		tls13_client_key_share_ext_to_bytes(&cli.public_key, &p, &onelen);
		uint8_t *exts = malloc(onelen * n), *out = malloc(TLS_MAX_EXTENSIONS_SIZE);
		for (i = 0; i < n; i++) memcpy(exts + onelen * i, one, onelen);
		int r = tls13_process_client_hello_exts(exts, onelen * n, &srv, &peer, out, &outlen, TLS_MAX_EXTENSIONS_SIZE);
		if (r == 1 && outlen > TLS_MAX_EXTENSIONS_SIZE) { printf("VIOLATION TLS 1.3: wrote %zu bytes into a %d byte buffer\n", outlen, TLS_MAX_EXTENSIONS_SIZE); bad = 1; }
		else printf("HOLDS TLS 1.3: repeated extension refused (%d, %zu bytes)\n", r, outlen);
	}
	return bad;
}
