/* witness: tls_cbc_decrypt forms and compares a pointer that lies below the caller's buffer
 * (padding = out + inlen - padding_len - 1 with padding_len + 1 > inlen): undefined behaviour (C11 6.5.6p8, 6.5.8p5).
 * Build: clang -fsanitize=address,pointer-compare ; run with ASAN_OPTIONS=detect_invalid_pointer_pairs=2 */
#include <stdio.h>
#include <stdlib.h>
#include <string.h>
#include <gmssl/tls.h>
#include <gmssl/sm3.h>
#include <gmssl/sm4.h>
int main(void){
  uint8_t key[16]={0}, mackey[32]={0}, seq[8]={0}, hdr[5]={23,1,1,0,0};
  SM4_KEY dk; SM3_HMAC_CTX h; sm4_set_decrypt_key(&dk,key); sm3_hmac_init(&h,mackey,32);
  /* craft a 64-byte record (iv + 48 bytes) whose last decrypted byte is 0xC8 = 200 > 47: encrypt a body ending in 200 */
  SM4_KEY ek; sm4_set_encrypt_key(&ek,key);
  uint8_t iv[16]={0}, body[48]; memset(body,0,48); body[47]=200;
  uint8_t *in=malloc(64); memcpy(in,iv,16); uint8_t iv2[16]; memcpy(iv2,iv,16);
  sm4_cbc_encrypt_blocks(&ek,iv2,body,3,in+16);
  uint8_t *out=malloc(48); size_t outlen=0;
  int r=tls_cbc_decrypt(&h,&dk,seq,hdr,in,64,out,&outlen);
  printf("ret=%d\n",r); return 0; }
