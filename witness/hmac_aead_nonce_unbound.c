/* Witness (C05, recorded finding): SM4-CTR+SM3-HMAC and SM4-CBC+SM3-HMAC do not authenticate the iv.
 * Encrypt under iv, decrypt the untouched (ciphertext, tag) under iv with one bit flipped: decrypt_finish returns 1.
 * Build: cc -I$REPO/include witness.c -L$BUILD/bin -lgmssl ; exit status 1 while the finding stands. */
#include <stdio.h>
#include <string.h>
#include <gmssl/sm4_ctr_sm3_hmac.h>
#include <gmssl/sm4_cbc_sm3_hmac.h>
#define RUN(P, CTX) do { CTX c; uint8_t ct[40 + 16 + 32 + 16], out[40 + 64]; size_t n, ctlen, outlen; int r; \
	P##_encrypt_init(&c, key, iv, aad, sizeof aad); P##_encrypt_update(&c, pt, sizeof pt, ct, &n); ctlen = n; \
	P##_encrypt_finish(&c, ct + ctlen, &n); ctlen += n; \
	P##_decrypt_init(&c, key, iv2, aad, sizeof aad); r = P##_decrypt_update(&c, ct, ctlen, out, &n); outlen = n; \
	if (r == 1) r = P##_decrypt_finish(&c, out + outlen, &n); \
	if (r == 1) { outlen += n; printf("VIOLATION %s: accepted under a modified iv; plaintext %s\n", #P, (outlen == sizeof pt && !memcmp(out, pt, outlen)) ? "unchanged" : "CHANGED"); bad = 1; } \
	else printf("HOLDS %s: rejected\n", #P); } while (0)
int main(void)
{
	uint8_t key[48], iv[16], iv2[16], aad[5] = "hello", pt[40]; int bad = 0;
	memset(key, 7, sizeof key); memset(iv, 9, sizeof iv); memcpy(iv2, iv, 16); iv2[0] ^= 0x80; memset(pt, 'a', sizeof pt);
	RUN(sm4_ctr_sm3_hmac, SM4_CTR_SM3_HMAC_CTX);
	RUN(sm4_cbc_sm3_hmac, SM4_CBC_SM3_HMAC_CTX);
	return bad;
}
