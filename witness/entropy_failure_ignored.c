/* Witness (C18): with a failing entropy source, tls13_padding_len_rand() reported success and returned a value computed
 * from an uninitialised byte; the TLS 1.3 / TLS 1.2 / TLCP handshake drivers ignored the results of rand_bytes,
 * tls_random_generate, sm2_key_generate and tls13_padding_len_rand (19 call sites found by c18scan.py), so they went on
 * with uninitialised randoms and ephemeral ECDHE keys.
 * Build (fault injection by replacing the gateway): cc -I$REPO/include witness.c <all default library sources except src/rand_unix.c / src/rand.c>
 * Before the fix: "VIOLATION ... returned 1". */
#include <stdio.h>
#include <string.h>
#include <gmssl/tls.h>
int rand_bytes(uint8_t *buf, size_t len) { (void)buf; (void)len; return -1; }   /* the entropy source is down */
int main(void)
{
	size_t n = 12345; int r = tls13_padding_len_rand(&n);
	if (r == 1) { printf("VIOLATION tls13_padding_len_rand returned 1 with a failed entropy source (padding_len=%zu from an uninitialised byte)\n", n); return 1; }
	printf("HOLDS tls13_padding_len_rand fails closed (%d)\n", r);
	return 0;
}
