/* Witness (C04): SM4-CCM pads the associated data with a whole extra zero block when the encoded AAD
 * (length prefix || AAD) already ends on a block boundary: `if (alen + aadlen % 16)` parses as alen + (aadlen % 16),
 * which is never zero.  Tags for aadlen = 14, 30, 46, ... (and 65530+16k ...) differ from RFC 3610 / SP 800-38C;
 * encrypt and decrypt share the mistake, so the library's own round trip passes.
 * Found as sm4_ccm_encrypt.postcondition "CBC-MAC stream == B0 || a-enc || A || pad || P || pad" (cex aadlen = 69882).
 * Build: cc -I$REPO/include witness.c -L$BUILD/bin -lgmssl ; prints a line per AAD length and exits 1 on any mismatch. */
#include <stdio.h>
#include <string.h>
#include <gmssl/sm4.h>
/* CCM authentication (RFC 3610 section 2.2) on top of the block function only */
static void ref_ccm_tag(const SM4_KEY *key, const uint8_t *iv, size_t ivlen, const uint8_t *aad, size_t aadlen, const uint8_t *msg, size_t mlen, size_t t, uint8_t *tag)
{
	uint8_t x[16], b[16], s0[16]; size_t q = 15 - ivlen, i, pos; uint64_t l = mlen;
	memset(b, 0, 16); b[0] = (uint8_t)((aadlen ? 64 : 0) + 8 * ((t - 2) / 2) + (q - 1)); memcpy(b + 1, iv, ivlen);
	for (i = 0; i < q; i++) { b[15 - i] = (uint8_t)l; l = (i < 7) ? l >> 8 : 0; }
	sm4_encrypt(key, b, x);
#define ABSORB(byte) do { x[pos++] ^= (byte); if (pos == 16) { sm4_encrypt(key, x, x); pos = 0; } } while (0)
	pos = 0;
	if (aadlen) {
		if (aadlen < 0xff00) { ABSORB((uint8_t)(aadlen >> 8)); ABSORB((uint8_t)aadlen); }
		else { ABSORB(0xff); ABSORB(0xfe); for (i = 0; i < 4; i++) ABSORB((uint8_t)(aadlen >> (8 * (3 - i)))); }
		for (i = 0; i < aadlen; i++) ABSORB(aad[i]);
		if (pos) { sm4_encrypt(key, x, x); pos = 0; }
	}
	for (i = 0; i < mlen; i++) ABSORB(msg[i]);
	if (pos) { sm4_encrypt(key, x, x); pos = 0; }
	memset(b, 0, 16); b[0] = (uint8_t)(q - 1); memcpy(b + 1, iv, ivlen); sm4_encrypt(key, b, s0);
	for (i = 0; i < t; i++) tag[i] = x[i] ^ s0[i];
}
int main(void)
{
	/* RFC 8998 A.2 key / nonce */
	uint8_t kb[16] = {0x01,0x23,0x45,0x67,0x89,0xAB,0xCD,0xEF,0xFE,0xDC,0xBA,0x98,0x76,0x54,0x32,0x10};
	uint8_t iv[12] = {0x00,0x00,0x12,0x34,0x56,0x78,0x00,0x00,0x00,0x00,0xAB,0xCD};
	uint8_t aad[64], pt[24], ct[24], t1[16], t2[16]; SM4_KEY key; size_t a; int bad = 0;
	memset(aad, 0xa5, sizeof aad); memset(pt, 0x3c, sizeof pt); sm4_set_encrypt_key(&key, kb);
	for (a = 0; a <= 48; a++) {
		if (sm4_ccm_encrypt(&key, iv, 12, aad, a, pt, sizeof pt, ct, 16, t1) != 1) return 2;
		ref_ccm_tag(&key, iv, 12, aad, a, pt, sizeof pt, 16, t2);
		if (memcmp(t1, t2, 16)) { printf("VIOLATION aadlen=%zu: tag differs from RFC 3610\n", a); bad = 1; }
	}
	if (!bad) printf("HOLDS: tags agree with RFC 3610 for aadlen 0..48\n");
	return bad;
}
