/* witness: sm2_z256_point_from_octets accepted 04||0^64 (and x >= p) because the result of
 * sm2_z256_point_from_bytes was ignored; the imported "public key" is the point at infinity. */
#include <stdio.h>
#include <string.h>
#include <gmssl/sm2_z256.h>
#include <gmssl/sm2.h>
int main(void){ uint8_t oct[65]; memset(oct,0,65); oct[0]=4; SM2_Z256_POINT P; memset(&P,0xAA,sizeof P);
 int r=sm2_z256_point_from_octets(&P,oct,65); printf("from_octets(04||0^64) = %d, Z==0: %d\n", r, (int)sm2_z256_is_zero(P.Z));
 uint8_t out[64]; SM2_KEY k; sm2_key_generate(&k); int e=sm2_ecdh(&k,oct,65,out); printf("sm2_ecdh with that peer share = %d\n", e);
 if (r==1 && sm2_z256_is_zero(P.Z)) { printf("FAIL: point at infinity imported as a key\n"); return 1;} printf("PASS\n"); return 0;}
