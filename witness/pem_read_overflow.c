/* Witness (C14/C06): pem_read() never looks at its maxlen parameter: a PEM body longer than the caller's buffer is decoded
 * past its end (x509_cert_from_pem(buf[512], ..., 512, fp) with a 3000-byte body).  Build: cc -I$REPO/include witness.c
 * -L$BUILD/bin -lgmssl.  Before the fix: VIOLATION (canary behind the buffer overwritten, *datalen > maxlen). */
#include <stdio.h>
#include <stdlib.h>
#include <string.h>
#include <gmssl/pem.h>
#include <gmssl/base64.h>
int main(void)
{
	uint8_t body[3000], *area = malloc(512 + 4096); size_t datalen = 0, i; int r;
	FILE *fp = tmpfile();
	for (i = 0; i < sizeof body; i++) body[i] = (uint8_t)(i * 7 + 1);
	pem_write(fp, "TEST DATA", body, sizeof body); rewind(fp);
	memset(area, 0xEE, 512 + 4096);
	r = pem_read(fp, "TEST DATA", area, &datalen, 512);
	for (i = 512; i < 512 + 4096; i++) if (area[i] != 0xEE) break;
	if (i < 512 + 4096 || (r == 1 && datalen > 512)) { printf("VIOLATION pem_read returned %d, reports %zu bytes for a 512-byte buffer, byte %zu behind it overwritten\n", r, datalen, i - 512); return 1; }
	printf("HOLDS pem_read refused the oversized body (%d)\n", r);
	return 0;
}
