/* Witness (C06): two TLS 1.3 parsers ignore the results of the wire-format readers they call.
 *  (a) tls13_server_hello_extensions_get(): a ServerHello whose extensions end in a partial extension (here: a single byte)
 *      makes the client loop forever on an uninitialised extension type (the window never shrinks);
 *  (b) tls13_record_get_handshake_certificate_verify(): a CertificateVerify body shorter than its fields returns 1 and leaves
 *      *sig / *siglen untouched (uninitialised in the callers), which then go to signature verification.
 * Found as the decreases / postcondition obligations of jobs tls13_server_hello_extensions_get and tls13_get_certificate_verify.
 * Build: cc -I$REPO/include witness.c -L$BUILD/bin -lgmssl ; exit status 1 while a defect is present. */
#include <stdio.h>
#include <stdlib.h>
#include <string.h>
#include <signal.h>
#include <unistd.h>
#include <gmssl/tls.h>
static void on_alarm(int s) { (void)s; printf("VIOLATION (a) tls13_server_hello_extensions_get did not return within 3 s on a 1-byte extensions block\n"); _exit(1); }
int main(void)
{
	int bad = 0;
	setvbuf(stdout, NULL, _IONBF, 0);
	{	/* (b) first, it terminates */
		uint8_t record[16] = { 22, 3, 3, 0, 5,  15, 0, 0, 1,  0x07 };   /* handshake(CertificateVerify), body of 1 byte */
		const uint8_t *sentinel = (const uint8_t *)0x1234, *sig = sentinel; size_t siglen = 0x5678; int alg = -1;
		int r = tls13_record_get_handshake_certificate_verify(record, &alg, &sig, &siglen);
		if (r == 1 && (sig == sentinel || siglen == 0x5678)) { printf("VIOLATION (b) returned 1 on a truncated CertificateVerify without setting sig/siglen\n"); bad = 1; }
		else printf("HOLDS (b) truncated CertificateVerify refused (%d)\n", r);
	}
	{	/* (a) */
		uint8_t exts[1] = { 0 }; SM2_Z256_POINT pt; int r;
		signal(SIGALRM, on_alarm); alarm(3);
		r = tls13_server_hello_extensions_get(exts, 1, &pt);
		alarm(0);
		printf("HOLDS (a) partial extension refused (%d)\n", r);
	}
	return bad;
}
