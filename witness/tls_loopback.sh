#!/bin/sh
# Regression aid (not a check): the three *_commands CTest cases need sudo and fail in this sandbox, so the TLS handshake
# drivers touched by fix: commits are exercised here over the loopback interface.  Run inside the CMake build directory
# after `ctest` has generated the certificates.  Usage: tls_loopback.sh [build-dir]
cd "${1:-/repo/_build}" || exit 2
cat signcert.pem cacert.pem > tls_server_certs.pem; cat signcert.pem enccert.pem cacert.pem > tlcp_server_certs.pem
bad=0
run() { p=$1; port=$2; shift 2
  (timeout 8 bin/gmssl ${p}_server -port $port "$@" > ${p}_server.log 2>&1 &); sleep 1
  (echo hello; sleep 1) | timeout 5 bin/gmssl ${p}_client -host localhost -port $port -cacert rootcacert.pem > ${p}_client.log 2>&1
  if grep -q "Connection established" ${p}_client.log; then echo "HOLDS $p handshake"; else echo "VIOLATION $p handshake failed"; bad=1; fi; }
run tls13 4443 -cert tls_server_certs.pem -key signkey.pem -pass P@ssw0rd
run tls12 4333 -cert tls_server_certs.pem -key signkey.pem -pass P@ssw0rd
run tlcp 4433 -cert tlcp_server_certs.pem -key signkey.pem -pass P@ssw0rd -ex_key enckey.pem -ex_pass P@ssw0rd
exit $bad
