/* Witness (C14): asn1_time_to_str() accepts negative timestamps (other than the -1 the DER wrappers treat as "absent")
 * and emits text that is not a time; the library's own decoder refuses it, so decode(encode(t)) != t and the DER
 * produced by asn1_utc_time_to_der / x509 validity encoders is invalid.  Found as asn1_time_to_str.postcondition
 * "RET == 1 <=> 0 <= t < limit" (cex t = -83152).
 * Build: cc -I$REPO/include witness.c $REPO/src/asn1.c $REPO/src/debug.c $REPO/src/hex.c ... ; before the fix prints VIOLATION. */
#include <stdio.h>
#include <string.h>
#include <gmssl/asn1.h>
int main(void)
{
	time_t ts[] = { -5, -83152, -86400 * 400 }; int i, bad = 0;
	for (i = 0; i < 3; i++) {
		char s[16] = {0}; time_t back = 0; int r;
		r = asn1_time_to_str(1, ts[i], s);
		if (r == 1) {
			int r2 = asn1_time_from_str(1, &back, s);
			printf("VIOLATION t=%lld encoded as \"%.13s\" (ret 1), decoder returns %d\n", (long long)ts[i], s, r2);
			bad = 1;
		} else printf("HOLDS t=%lld refused\n", (long long)ts[i]);
	}
	return bad;
}
