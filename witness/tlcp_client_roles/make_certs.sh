#!/bin/bash
# builds a root CA and two client double-certificate pairs (EKU clientAuth / EKU serverAuth) with the toolkit's own commands
G=${GMSSL:-/repo/_build/bin/gmssl}; P=P@ssw0rd
$G sm2keygen -pass $P -out rootkey.pem
$G certgen -C CN -ST Beijing -L Haidian -O PKU -OU CS -CN ROOTCA -days 3650 -key rootkey.pem -pass $P -ca -path_len_constraint 6 -key_usage keyCertSign -key_usage cRLSign -out rootcert.pem
for r in sign enc; do $G sm2keygen -pass $P -out ${r}key.pem; $G reqgen -C CN -ST Beijing -L Haidian -O PKU -OU CS -CN client -key ${r}key.pem -pass $P -out ${r}req.pem; done
for e in client server; do
$G reqsign -in signreq.pem -days 365 -key_usage digitalSignature -ext_key_usage ${e}Auth -cacert rootcert.pem -key rootkey.pem -pass $P -out signcert_$e.pem
$G reqsign -in encreq.pem -days 365 -key_usage keyEncipherment -ext_key_usage ${e}Auth -cacert rootcert.pem -key rootkey.pem -pass $P -out enccert_$e.pem
done
