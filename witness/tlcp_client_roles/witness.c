/* witness: x509_certs_verify_tlcp checks a CLIENT chain with the SERVER roles (extKeyUsage serverAuth):
 * a client double-certificate chain with EKU clientAuth is rejected, one with EKU serverAuth is accepted as a client. */
#include <stdio.h>
#include <string.h>
#include <gmssl/x509.h>
#include <gmssl/pem.h>
static size_t load(const char *f, uint8_t *buf, size_t cap){ FILE *fp=fopen(f,"r"); size_t n=0; if(!fp) return 0; x509_cert_from_pem(buf,&n,cap,fp); fclose(fp); return n; }
int main(void){ uint8_t root[1024], chain[2048]; size_t rl=load("rootcert.pem",root,sizeof root); int vr;
  size_t a=load("signcert_client.pem",chain,1024); size_t b=load("enccert_client.pem",chain+a,1024);
  int r1=x509_certs_verify_tlcp(chain,a+b,X509_cert_chain_client,root,rl,5,&vr);
  a=load("signcert_server.pem",chain,1024); b=load("enccert_server.pem",chain+a,1024);
  int r2=x509_certs_verify_tlcp(chain,a+b,X509_cert_chain_client,root,rl,5,&vr);
  printf("client chain with EKU clientAuth verified as client: %d (expected 1)\nclient chain with EKU serverAuth verified as client: %d (expected -1)\n", r1, r2);
  if (r1==1 && r2!=1) { printf("PASS\n"); return 0; } printf("FAIL\n"); return 1; }
