/* Witness (C06): tls_record_get_handshake_certificate() and tls13_process_certificate_list() copy every certificate of the
 * peer's Certificate message into the caller's buffer without any capacity check; every caller passes a
 * TLS_MAX_CERTIFICATES_SIZE (2048) byte array inside TLS_CONNECT.  A peer that sends a chain longer than 2048 bytes (here:
 * the same valid certificate five times) overwrites what follows (client_certs, ca_certs, sign_key, ...).
 * Found as x509_cert_to_der.precondition (destination writable) at the call site in job tls_record_get_handshake_certificate.
 * Build: clang -g -fsanitize=address -I$REPO/include witness.c -L$BUILD/bin -lgmssl ; run in $BUILD (needs signcert.pem).
 * Before the fix: AddressSanitizer heap-buffer-overflow WRITE in x509_cert_to_der / memcpy. */
#include <stdio.h>
#include <stdlib.h>
#include <string.h>
#include <gmssl/tls.h>
#include <gmssl/x509.h>
#include <gmssl/pem.h>
int main(int argc, char **argv)
{
	uint8_t cert[1024]; size_t certlen = 0, chainlen = 0, recordlen = 0, outlen = 0; int i, r;
	uint8_t *chain = malloc(8192), *record = malloc(TLS_MAX_RECORD_SIZE), *out = malloc(TLS_MAX_CERTIFICATES_SIZE);
	FILE *fp = fopen(argc > 1 ? argv[1] : "signcert.pem", "r");
	if (!fp || x509_cert_from_pem(cert, &certlen, sizeof cert, fp) != 1) { printf("cannot read certificate\n"); return 2; }
	for (i = 0; i < 5; i++) { memcpy(chain + chainlen, cert, certlen); chainlen += certlen; }
	tls_record_set_protocol(record, TLS_protocol_tlcp);
	if (tls_record_set_handshake_certificate(record, &recordlen, chain, chainlen) != 1) { printf("cannot build message\n"); return 2; }
	printf("certificate %zu bytes, chain %zu bytes, destination %d bytes\n", certlen, chainlen, TLS_MAX_CERTIFICATES_SIZE);
	r = tls_record_get_handshake_certificate(record, out, &outlen);
	if (r == 1 && outlen > TLS_MAX_CERTIFICATES_SIZE) { printf("VIOLATION wrote %zu bytes into a %d byte buffer\n", outlen, TLS_MAX_CERTIFICATES_SIZE); return 1; }
	printf("HOLDS over-long chain refused (%d)\n", r);
	return 0;
}
