#include <stdio.h>
#include <stdlib.h>
#include <gmssl/asn1.h>
int main(void){ uint8_t der[]={0x30,0x09,0x02,0x01,0x01,0x02,0x01,0x02,0x02,0x01,0x03};
 int *nums=malloc(2*sizeof(int)); size_t cnt; const uint8_t *p=der; size_t len=sizeof der;
 int r=asn1_sequence_of_int_from_der(nums,&cnt,2,&p,&len); printf("ret=%d cnt=%zu\n",r,cnt); return 0;}
