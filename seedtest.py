#!/usr/bin/env python3
"""Run the registered check of a property against seeded changes, each applied to a scratch copy of /repo
(never to /repo itself): seedtest.py [seed-id ...].  Writes seeded/<id>/detect.json."""
import sys, os, json, subprocess, shutil, tempfile, time
V = os.path.dirname(os.path.abspath(__file__))
ids = sys.argv[1:] or sorted(os.listdir(os.path.join(V, "seeded")))
for sid in ids:
    d = os.path.join(V, "seeded", sid)
    meta = json.load(open(os.path.join(d, "meta.json")))
    prop = meta.get("property", sid.split("-")[0])
    if isinstance(prop, list): prop = prop[0]
    prop = prop[:3]
    props = [prop] + [p for p in meta.get("also_check", [])]
    scratch = tempfile.mkdtemp(prefix="seedtest.")
    try:
        subprocess.run(["rsync", "-a", "--exclude", "_build", "--exclude", ".git", "/repo/", scratch + "/"], check=True)
        r = subprocess.run(["git", "apply", "--unsafe-paths", "--directory=" + scratch, os.path.join(d, "patch.diff")], cwd="/", capture_output=True, text=True)
        if r.returncode != 0:
            r = subprocess.run(["patch", "-p1", "-d", scratch, "-i", os.path.join(d, "patch.diff")], capture_output=True, text=True)
        out = {"id": sid, "applied": r.returncode == 0, "checks": []}
        for p in props:
            t0 = time.time()
            env = dict(os.environ, VERIF_REPO=scratch, VERIF_OUT=os.path.join(scratch, "_verif_out"))
            c = subprocess.run([sys.executable, os.path.join(V, "verif.py"), "check", p, "--tier", "quick"], env=env, capture_output=True, text=True)
            lines = [l for l in c.stdout.splitlines() if l.startswith(("VIOLATION", "FAILED-OBLIGATION", "UNDECIDED", "SUMMARY", "REPLAY"))]
            out["checks"].append({"property": p, "exit": c.returncode, "wall_s": round(time.time() - t0, 1), "lines": lines[:12]})
            print(sid, p, "exit", c.returncode, "|", "; ".join(l[:160] for l in lines[:3]))
        out["detected"] = any(c["exit"] == 1 for c in out["checks"])
        json.dump(out, open(os.path.join(d, "detect.json"), "w"), indent=1)
    finally:
        shutil.rmtree(scratch, ignore_errors=True)
