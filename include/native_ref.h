/* native_ref.h — tiny schoolbook natural-number arithmetic used ONLY by native replays
 * (-DVERIF_NATIVE) to re-evaluate an integer postcondition on the verifier's counterexample.
 * 640-bit naturals, little-endian 32-bit words.  Not part of any proof. */
#ifndef NATIVE_REF_H
#define NATIVE_REF_H
#ifdef VERIF_NATIVE
#include <stdint.h>
#include <string.h>
#define NR_W 20
typedef struct { uint32_t w[NR_W]; } nr_t;
static nr_t nr_from(const uint64_t *a, int nlimbs) { nr_t r; int i; memset(&r, 0, sizeof r);
	for (i = 0; i < nlimbs; i++) { r.w[2*i] = (uint32_t)a[i]; r.w[2*i+1] = (uint32_t)(a[i] >> 32); } return r; }
static nr_t nr_u64(uint64_t v) { return nr_from(&v, 1); }
static nr_t nr_add(nr_t a, nr_t b) { nr_t r; uint64_t c = 0; int i;
	for (i = 0; i < NR_W; i++) { c += (uint64_t)a.w[i] + b.w[i]; r.w[i] = (uint32_t)c; c >>= 32; } return r; }
static int nr_cmp(nr_t a, nr_t b) { int i; for (i = NR_W - 1; i >= 0; i--) { if (a.w[i] != b.w[i]) return a.w[i] > b.w[i] ? 1 : -1; } return 0; }
static int nr_eq(nr_t a, nr_t b) { return nr_cmp(a, b) == 0; }
static nr_t nr_shl(nr_t a, int bits) { nr_t r; int i; memset(&r, 0, sizeof r);
	for (i = 0; i < NR_W * 32 - bits; i++) if (a.w[i/32] >> (i%32) & 1) r.w[(i+bits)/32] |= 1u << ((i+bits)%32); return r; }
static nr_t nr_shr(nr_t a, int bits) { nr_t r; int i; memset(&r, 0, sizeof r);
	for (i = bits; i < NR_W * 32; i++) if (a.w[i/32] >> (i%32) & 1) r.w[(i-bits)/32] |= 1u << ((i-bits)%32); return r; }
static nr_t nr_mul(nr_t a, nr_t b) { nr_t r; int i, j; memset(&r, 0, sizeof r);
	for (i = 0; i < NR_W; i++) { uint64_t c = 0; for (j = 0; i + j < NR_W; j++) {
		c += (uint64_t)a.w[i] * b.w[j] + r.w[i+j]; r.w[i+j] = (uint32_t)c; c >>= 32; } } return r; }
static const uint64_t NR_P4[4] = { 0xffffffffffffffffULL, 0xffffffff00000000ULL, 0xffffffffffffffffULL, 0xfffffffeffffffffULL };
static const uint64_t NR_N4[4] = { 0x53bbf40939d54123ULL, 0x7203df6b21c6052bULL, 0xffffffffffffffffULL, 0xfffffffeffffffffULL };
#define NR_P nr_from(NR_P4, 4)
#define NR_N nr_from(NR_N4, 4)
#endif
#endif
