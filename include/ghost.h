/* Definitions of the ghost globals that the guarded /repo header include/gmssl/verif.h declares extern (they appear in
 * loop contracts annotated in place).  Code under proof never assigns them; only replaced contracts do. */
#ifndef VERIF_GHOST_H
#define VERIF_GHOST_H
#ifdef VERIF_CBMC
size_t verif_gk;                                                       /* ghost index (P-GIDX) */
int verif_rb_fail; unsigned verif_rb_calls; size_t verif_rb_buf; size_t verif_rb_len;   /* entropy gateway record */
uint64_t verif_k_drawn[4]; unsigned verif_rand_calls; int verif_rand_fail;                      /* nonce source record */
unsigned verif_x_bc_calls; int verif_x_bc_last_ca; int verif_x_bc_last_ret; int verif_x_unknown_critical;   /* x509 extension checks */
unsigned verif_c_ci; unsigned verif_c_chk_calls; int verif_c_chk_type0; int verif_c_chk_type1; int verif_c_chk_nonca; int verif_c_plc_ci;   /* x509 chain */
size_t verif_c_chk_last; size_t verif_c_chk_first; size_t verif_c_chk_second; unsigned verif_c_vfy_calls; int verif_c_vfy_bad; size_t verif_c_vfy_prev_parent; int verif_c_vfy_second;
int verif_l_ne_last; size_t verif_l_ne_a_of; size_t verif_l_gs_of; unsigned verif_l_calls;   /* trust-store lookup */
unsigned verif_rv_calls; unsigned verif_rv_ci; size_t verif_rv_ci_snlen; int verif_rv_ci_seen; int verif_rv_ci_cmp; int verif_rv_ci_cmp_seen;   /* CRL entry walk */
unsigned verif_cms_vfy_calls; int verif_cms_vfy_bad; size_t verif_cms_vfy_ctx; size_t verif_cms_vfy_certs;   /* CMS signer verification */
size_t verif_rv_last_sn; size_t verif_rv_last_snlen; size_t verif_rv_ci_sn; int verif_rvm_last; size_t verif_rvm_n; size_t verif_rvm_a; size_t verif_rvm_b; unsigned verif_rvm_calls;
#endif
#endif
