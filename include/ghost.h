/* Definitions of the ghost globals that the guarded /repo header include/gmssl/verif.h declares extern (they appear in
 * loop contracts annotated in place).  Code under proof never assigns them; only replaced contracts do. */
#ifndef VERIF_GHOST_H
#define VERIF_GHOST_H
#ifdef VERIF_CBMC
size_t verif_gk;                                                       /* ghost index (P-GIDX) */
int verif_rb_fail; unsigned verif_rb_calls; const void *verif_rb_buf; size_t verif_rb_len;   /* entropy gateway record */
uint64_t verif_k_drawn[4]; unsigned verif_rand_calls; int verif_rand_fail;                      /* nonce source record */
unsigned verif_x_bc_calls; int verif_x_bc_last_ca; int verif_x_bc_last_ret; int verif_x_unknown_critical;   /* x509 extension checks */
#endif
#endif
