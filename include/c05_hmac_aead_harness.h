/* shared harness bodies for the two HMAC AEAD instantiations */
#ifdef VERIF_CBMC
#define GK_BIND(g, s) ASSUME(verif_gk == (g) && verif_gk < 32 && G_sk == (s));
#define IV_BIND(p) G_iv_ptr = (size_t)(p);
#else
#define GK_BIND(g, s)
#define IV_BIND(p)
#endif
typedef struct { uint8_t key[48], iv[16], aad[32]; size_t aadlen, sk; uint8_t gk, mode; } aei_in;
DECL_INPUT(aei_in);
typedef struct { AE_CTX_T ctx; size_t sk; uint8_t gk, mode; } aef_in;
DECL_INPUT(aef_in);

#ifdef VERIF_NATIVE
/* native re-evaluation of the nonce clause of C05: what was encrypted under iv must not decrypt successfully under iv with one bit flipped */
static void ae_nonce_flip(const uint8_t *key, const uint8_t *iv, const uint8_t *aad, size_t aadlen)
{
	AE_CTX_T c; uint8_t pt[40], ct[40 + 16 + 32 + 16], out[40 + 64], iv2[16]; size_t n, ctlen = 0, outlen = 0; int r;
	memset(pt, 0x61, sizeof pt);
	if (AE(encrypt_init)(&c, key, iv, aad, aadlen) != 1) return;
	if (AE(encrypt_update)(&c, pt, sizeof pt, ct, &n) != 1) return; ctlen = n;
	if (AE(encrypt_finish)(&c, ct + ctlen, &n) != 1) return; ctlen += n;
	memcpy(iv2, iv, 16); iv2[0] ^= 0x80;
	if (AE(decrypt_init)(&c, key, iv2, aad, aadlen) != 1) return;
	r = AE(decrypt_update)(&c, ct, ctlen, out, &n); outlen = n;
	if (r == 1) r = AE(decrypt_finish)(&c, out + outlen, &n);
	OBSERVE_INT("decrypt_under_flipped_iv", r);
	CHECK(r != 1, "a ciphertext is rejected when one bit of the nonce is changed");
}
#endif

#define AE_H_INIT(fn) \
	INPUT(aei_in, I); ASSUME(I.aadlen <= 4096); GK_BIND(I.gk, I.sk) \
	AE_CTX_T *ctx = malloc(sizeof(AE_CTX_T)); ASSUME(ctx != NULL); \
	MKBUF(key, I.key, 48); MKBUF(iv, I.iv, 16); MKBUF(aad, I.aad, I.aadlen); \
	IV_BIND((I.mode & 4) ? NULL : iv) \
	int ret = fn((I.mode & 1) ? NULL : ctx, (I.mode & 2) ? NULL : key, (I.mode & 4) ? NULL : iv, (I.mode & 8) ? NULL : aad, I.aadlen); \
	OBSERVE_INT("ret", ret); \
	NATIVE(if (ret == 1) ae_nonce_flip(key, iv, (I.mode & 8) ? NULL : aad, I.aadlen);) \
	if (ret == 1) { CANARY("initialised"); } \
	CANARY("returned");

#define AE_H_FINISH(fn) \
	INPUT(aef_in, F); GK_BIND(F.gk, F.sk) \
	AE_CTX_T *ctx = malloc(sizeof(AE_CTX_T)); ASSUME(ctx != NULL); *ctx = F.ctx; \
	MKOUT(out, AE_DEC_FINISH_MAXOUT); size_t *outlen = malloc(sizeof(size_t)); ASSUME(outlen != NULL); \
	int ret = fn((F.mode & 1) ? NULL : ctx, (F.mode & 4) ? NULL : out, (F.mode & 8) ? NULL : outlen); \
	OBSERVE_INT("ret", ret); \
	NATIVE(if (!(F.mode & 13)) { NCHECK(!(ret == 1 && F.ctx.maclen != 32), "finish succeeds only with a complete held-back tag"); }) \
	if (ret == 1) { CANARY("authenticated"); } \
	if (ret != 1 && !(F.mode & 13) && F.ctx.maclen == 32) { CANARY("rejected"); } \
	CANARY("returned");
