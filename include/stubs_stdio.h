/* Diagnostics are irrelevant to every property except C19, and CBMC's vfprintf model
 * dominates run time: replace the stdio output functions by no-op bodies (CBMC only).
 * Include AFTER the real source file so that <stdio.h> prototypes are visible. */
#ifndef VERIF_STUBS_STDIO_H
#define VERIF_STUBS_STDIO_H
#if defined(VERIF_CBMC) && !defined(VERIF_KEEP_STDIO)
#include <stdio.h>
#include <stdarg.h>
int fprintf(FILE *fp, const char *fmt, ...) { (void)fp; (void)fmt; return 0; }
int printf(const char *fmt, ...) { (void)fmt; return 0; }
int vfprintf(FILE *fp, const char *fmt, va_list ap) { (void)fp; (void)fmt; (void)ap; return 0; }
int fputs(const char *s, FILE *fp) { (void)s; (void)fp; return 0; }
int puts(const char *s) { (void)s; return 0; }
int fputc(int c, FILE *fp) { (void)fp; return c; }
int putchar(int c) { return c; }
#endif
#endif
#if defined(VERIF_CBMC) && !defined(VERIF_KEEP_STDIO) && !defined(VERIF_STUBS_FORMAT)
#define VERIF_STUBS_FORMAT
/* src/debug.c formatting helpers: diagnostics only */
int format_print(FILE *fp, int format, int indent, const char *str, ...) { (void)fp; (void)format; (void)indent; (void)str; return 1; }
int format_bytes(FILE *fp, int format, int indent, const char *str, const uint8_t *data, size_t datalen)
{ (void)fp; (void)format; (void)indent; (void)str; (void)data; (void)datalen; return 1; }
int format_string(FILE *fp, int format, int indent, const char *str, const uint8_t *data, size_t datalen)
{ (void)fp; (void)format; (void)indent; (void)str; (void)data; (void)datalen; return 1; }
#endif
