/* verif.h — the one header every harness translation unit includes first.
 *
 * A harness TU is compiled two ways from the same text:
 *   - by goto-cc (driver passes -DVERIF_CBMC): contract clauses are CBMC code contracts,
 *     inputs are nondeterministic values returned by bodyless functions (so the whole input
 *     appears as ONE assignment in a counterexample trace);
 *   - natively by clang with ASan+UBSan (driver passes -DVERIF_NATIVE and a generated
 *     replay_inputs.h): contract clauses vanish, inputs are the counterexample values, the
 *     real function from /repo runs on them.
 */
#ifndef VERIF_H
#define VERIF_H
#include <stdint.h>
#include <stddef.h>
#include <stdlib.h>
#include <string.h>

#if defined(VERIF_CBMC)

#define REQUIRES(...)   __CPROVER_requires(__VA_ARGS__)
#define ENSURES(...)    __CPROVER_ensures(__VA_ARGS__)
#define ASSIGNS(...)    __CPROVER_assigns(__VA_ARGS__)
#define OLD(e)          __CPROVER_old(e)
#define RET             __CPROVER_return_value
#define RD_OK(p, n)      __CPROVER_r_ok((p), (n))
#define WR_OK(p, n)      __CPROVER_w_ok((p), (n))
#define RW_OK(p, n)     __CPROVER_rw_ok((p), (n))
#define SEPARATE(a, b)  (!__CPROVER_same_object((a), (b)))
#define OBJ_WHOLE(p)    __CPROVER_object_whole(p)
#define OBJ_UPTO(p, n)  __CPROVER_object_upto((p), (n))
#define OBJ_FROM(p)     __CPROVER_object_from(p)
#define IMPLIES         ==>

/* input of a harness: one struct, one nondet call, one trace step */
#define DECL_INPUT(T)   T nondet_##T(void)
#define INPUT(T, v)     T v = nondet_##T()
#define ASSUME(e)       __CPROVER_assume(e)
/* exact-size heap object of n bytes; its first min(n, 32, sizeof src) bytes are copied from src (an array inside
 * the recorded input), the rest keep malloc's unconstrained contents.  Straight-line on purpose: no loop
 * to unwind, and __CPROVER_array_replace was measured to zero-fill past the end of a shorter source. */
#define VF1_(d, s, n, i) if ((size_t)(n) > (i) && sizeof(s) > (i)) (d)[i] = (s)[(i) < sizeof(s) ? (i) : 0];
#define VF4_(d, s, n, i) VF1_(d, s, n, i) VF1_(d, s, n, (i) + 1) VF1_(d, s, n, (i) + 2) VF1_(d, s, n, (i) + 3)
#define VF16_(d, s, n, i) VF4_(d, s, n, i) VF4_(d, s, n, (i) + 4) VF4_(d, s, n, (i) + 8) VF4_(d, s, n, (i) + 12)
#define MKBUF(dst, src, n) \
	uint8_t *dst = (uint8_t *)malloc(n); __CPROVER_assume(dst != NULL); \
	VF16_(dst, src, n, 0) VF16_(dst, src, n, 16)
#define MKOUT(dst, n) \
	uint8_t *dst = (uint8_t *)malloc(n); __CPROVER_assume(dst != NULL)
/* must-fail reachability marker; the driver requires status FAILURE for each */
#define CANARY(tag)     __CPROVER_assert(0, "canary " tag)
/* harness-level obligation (used for lemma jobs over two real calls) */
#define CHECK(e, desc)  __CPROVER_assert((e), desc)
#define OBSERVE_INT(name, e)
#define OBSERVE_BYTES(name, p, n)
/* native-only re-evaluation of a postcondition on the counterexample (not a proof obligation) */
#define NCHECK(e, desc)
#define NATIVE(...)

typedef unsigned __CPROVER_bitvector[257] bv257;
typedef unsigned __CPROVER_bitvector[258] bv258;
typedef unsigned __CPROVER_bitvector[256] bv256;
typedef unsigned __CPROVER_bitvector[512] bv512;
typedef unsigned __CPROVER_bitvector[513] bv513;
typedef unsigned __CPROVER_bitvector[320] bv320;
typedef signed __CPROVER_bitvector[320] sbv320;

#elif defined(VERIF_NATIVE)

#include <stdio.h>
#include "replay_inputs.h"
#include "native_ref.h"
#define REQUIRES(...)
#define ENSURES(...)
#define ASSIGNS(...)
#define DECL_INPUT(T)   struct verif_unused_##T
#define INPUT(T, v)     T v = REPLAY_INIT_##v
#define ASSUME(e)       do { if (!(e)) { printf("REPLAY-ASSUMPTION-FALSE %s\n", #e); exit(3); } } while (0)
#define MKBUF(dst, src, n) \
	uint8_t *dst = (uint8_t *)calloc((n) ? (n) : 1, 1); memcpy(dst, src, (n) < sizeof(src) ? (n) : sizeof(src))
#define MKOUT(dst, n) \
	uint8_t *dst = (uint8_t *)malloc((n) ? (n) : 1)
#define CANARY(tag)     do { } while (0)
#define CHECK(e, desc)  do { if (!(e)) printf("REPLAY-VIOLATION %s\n", desc); else printf("REPLAY-HOLDS %s\n", desc); } while (0)
#define NCHECK(e, desc)  CHECK(e, desc)
#define NATIVE(...)     __VA_ARGS__
#define OBSERVE_INT(name, e)  printf("OBSERVE %s=%lld\n", name, (long long)(e))
#define OBSERVE_BYTES(name, p, n) do { size_t i_; printf("OBSERVE %s=", name); \
	for (i_ = 0; i_ < (size_t)(n); i_++) printf("%02x", ((const uint8_t *)(p))[i_]); printf("\n"); } while (0)

#else
#error "compile with -DVERIF_CBMC or -DVERIF_NATIVE"
#endif

#include "ghost.h"
#endif
