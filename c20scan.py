#!/usr/bin/env python3
"""C20 supporting static fact: enumerate objects of static storage duration in every library translation unit (default
CMake configuration) and find every instruction that writes one.  A written static is library-internal mutable state that
two threads working on independent objects could race on.  Not a proof of race freedom — see DESIGN.md C20."""
import sys, os, re, json, subprocess, tempfile, shutil
from concurrent.futures import ThreadPoolExecutor
sys.path.insert(0, os.path.dirname(os.path.abspath(__file__)))
import verif

def scan_file(args):
    src, wd = args
    gb = os.path.join(wd, src.replace("/", "_") + ".gb")
    _, defs = verif.cfg()
    p = subprocess.run(["goto-cc", "-I" + os.path.join(verif.REPO, "include")] + defs + ["-c", os.path.join(verif.REPO, src), "-o", gb],
                       stdout=subprocess.PIPE, stderr=subprocess.STDOUT)
    if p.returncode != 0:
        return src, None, p.stdout.decode("utf-8", "replace")[-300:]
    st = subprocess.run(["goto-instrument", "--show-symbol-table", gb], stdout=subprocess.PIPE, stderr=subprocess.DEVNULL).stdout.decode("utf-8", "replace")
    statics = {}
    for blk in st.split("\n\n"):
        m = re.search(r"^Symbol\.+: (.+)$", blk, re.M)
        if not m:
            continue
        name = m.group(1).strip()
        flags = re.search(r"^Flags\.+: (.*)$", blk, re.M)
        typ = re.search(r"^Type\.+: (.*)$", blk, re.M)
        loc = re.search(r"^Location\.+: (.*)$", blk, re.M)
        flags = flags.group(1) if flags else ""
        typ = typ.group(1).strip() if typ else ""
        if "static_lifetime" not in flags or name.startswith("__CPROVER") or "$object" in name or "return'" in name:
            continue
        if typ.startswith("const ") and "*" not in typ:          # const scalars / const arrays of const elements
            continue
        if re.match(r"^const .*\[\d*\]$", typ):
            continue
        if "string_literal" in flags or name.startswith("__PRETTY") or typ.endswith(")") and "(*" not in typ and "*" not in typ.split("(")[0]:
            pass
        locs = loc.group(1) if loc else ""
        if verif.REPO not in locs:
            continue
        if "extern" in flags and "Value.......: \n" in blk + "\n":
            continue   # declaration of another unit's object
        statics[name] = {"type": typ, "flags": flags, "where": locs.replace("file ", "")}
    gf = subprocess.run(["goto-instrument", "--show-goto-functions", gb], stdout=subprocess.PIPE, stderr=subprocess.DEVNULL).stdout.decode("utf-8", "replace")
    writes = []
    cur = None
    for line in gf.splitlines():
        m = re.match(r"^(\S+) /\* (\S+) \*/$", line)
        if m:
            cur = m.group(1)
        m = re.match(r"^\s+(?:// \d+ .*)?$", line)
        a = re.match(r"^\s+ASSIGN (.+?) := ", line)
        if a:
            lhs = a.group(1)
            base = re.match(r"^\*?\(?([A-Za-z_][\w:$']*)", lhs.replace("cast(", ""))
            b = base.group(1) if base else ""
            if b in statics and not lhs.startswith("*"):
                writes.append({"static": b, "function": cur, "lhs": lhs[:80]})
    os.remove(gb)
    return src, {"statics": statics, "writes": writes}, ""

def main():
    out = sys.argv[1] if len(sys.argv) > 1 else None
    srcs, _ = verif.cfg()
    wd = tempfile.mkdtemp(prefix="c20scan.", dir=verif.VERIF)
    try:
        with ThreadPoolExecutor(verif.NCPU) as ex:
            rs = list(ex.map(scan_file, [(s, wd) for s in srcs]))
    finally:
        shutil.rmtree(wd, ignore_errors=True)
    res = {"files": len(rs), "failed_to_compile": [(s, e) for s, r, e in rs if r is None], "writable_statics": {}, "written_statics": []}
    for s, r, e in rs:
        if r is None:
            continue
        for n, d in r["statics"].items():
            res["writable_statics"][s + ":" + n] = d
        for w in r["writes"]:
            res["written_statics"].append(dict(w, file=s))
    if out:
        json.dump(res, open(out, "w"), indent=1)
    print("files=%d compile_failures=%d writable_statics=%d written_statics=%d" % (res["files"], len(res["failed_to_compile"]), len(res["writable_statics"]), len(res["written_statics"])))
    for w in res["written_statics"]:
        print("WRITE", w["file"], w["function"], w["static"], "|", w["lhs"])
    for s, e in res["failed_to_compile"][:5]:
        print("COMPILE-FAIL", s, e[-120:].replace("\n", " "))
    return res

# process-wide plug-in management, not an operation on a caller-owned context object: excluded from the C20 claim with this reason
EXCLUDED_WRITES = {
    ("src/sdf/sdf_lib.c", "SDF_LoadLibrary", "sdf_method"), ("src/sdf/sdf_lib.c", "SDF_LoadLibrary", "sdf_vendor"),
    ("src/sdf/sdf_lib.c", "SDF_UnloadLibrary", "sdf_method"), ("src/sdf/sdf_lib.c", "SDF_UnloadLibrary", "sdf_vendor"),
}

def run_for_check():
    import io, contextlib
    buf = io.StringIO()
    try:
        with contextlib.redirect_stdout(buf):
            res = main()
    except Exception as e:
        return {"new_writes": [], "error": "scan failed: %r" % e, "summary": {}}
    new = [w for w in res["written_statics"] if (w["file"], w["function"], w["static"]) not in EXCLUDED_WRITES]
    err = ""
    if res["failed_to_compile"]:
        err = "goto-cc failed on %d files: %s" % (len(res["failed_to_compile"]), res["failed_to_compile"][0][0])
    return {"new_writes": new, "error": err, "summary": {
        "translation_units": res["files"], "objects_of_static_storage_duration_not_const": sorted(res["writable_statics"].keys()),
        "instructions_writing_a_static": res["written_statics"],
        "excluded_with_reason": [{"write": list(x), "reason": "SDF hardware-device plug-in load/unload is process-wide by design; it is not an operation on a caller-owned context or key object"} for x in sorted(EXCLUDED_WRITES)],
        "limitation": "direct assignments only (ASSIGN with the static as base of the left-hand side); writes through a pointer that was derived from a static's address are not found by this scan"}}

if __name__ == "__main__":
    main()
